"""CPython cross-check of the engine's codec semantics: for one model of each explored path the REAL to_dict/from_dict (or JSON route) is run
on the concrete input and the result is compared with the object the engine predicted for that path."""
import dataclasses, datetime, json, sys
sys.path.insert(0, __file__.rsplit("/", 2)[0])
from native.build import build, cls_of


def close(a, b):
    if dataclasses.is_dataclass(a) and dataclasses.is_dataclass(b) and type(a) is type(b):
        return all(close(getattr(a, f.name), getattr(b, f.name)) for f in dataclasses.fields(a))
    if isinstance(a, datetime.datetime) and isinstance(b, datetime.datetime):
        return abs(a.timestamp() - b.timestamp()) < 0.0011
    if isinstance(a, list) and isinstance(b, list):
        return len(a) == len(b) and all(close(x, y) for x, y in zip(a, b))
    return type(a) is type(b) and a == b


out = []
for req in json.load(sys.stdin):
    try:
        c = cls_of(req["cls"])
        o = build(req["input"])
        if req["route"] == "json":
            back = c.from_json_dict(json.loads(json.dumps(o.to_json_dict())))
        else:
            back = c.from_dict(o.to_dict())
        exp = build(req["expected"])
        out.append({"match": close(back, exp), "native": repr(back)[:400], "predicted": repr(exp)[:400]})
    except Exception as e:  # noqa: BLE001
        out.append({"match": req.get("expect_raise", False), "native": f"raised {e!r}", "predicted": "value"})
print(json.dumps(out))

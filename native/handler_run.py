"""Runs the REAL operation handlers natively on concrete inputs derived from a solver model and reports the observed
effect trace and outcome.  Reads a JSON list of scenarios on stdin, prints a JSON list of results (last line).
Only the boundary is stubbed: the ExecutionState methods the handlers call, the user callables, the (de)serializers and clocks."""
import datetime as real_datetime
import json
import sys
import types

sys.path.insert(0, __file__.rsplit("/", 2)[0])
import logging

logging.disable(logging.CRITICAL)
from native.build import build, cls_of

import aws_durable_execution_sdk_python.exceptions as X
import aws_durable_execution_sdk_python.serdes as serdes_mod
import aws_durable_execution_sdk_python.suspend as suspend_mod
from aws_durable_execution_sdk_python import config as C
from aws_durable_execution_sdk_python.identifier import OperationIdentifier
from aws_durable_execution_sdk_python.logger import Logger
from aws_durable_execution_sdk_python.state import CHECKPOINT_NOT_FOUND, CheckpointedResult
from aws_durable_execution_sdk_python.retries import RetryDecision
from aws_durable_execution_sdk_python.waits import WaitForConditionConfig, WaitForConditionDecision


class Custom(Exception):
    pass


class CustomBase(BaseException):
    pass


CANDIDATES = [ValueError, Custom, X.ExecutionError, X.CallbackError, X.InvocationError, X.StepInterruptedError, X.CallableRuntimeError, X.SerDesError, X.ValidationError,
              X.DurableExecutionsError, X.SuspendExecution, X.TimedSuspendExecution, X.BackgroundThreadError, X.OrphanedChildException, X.CheckpointError, KeyboardInterrupt, CustomBase]


def resolve(key):
    if key in ("Exception", "BaseException"):
        return {"Exception": Exception, "BaseException": BaseException}[key]
    if key.startswith("exceptions."):
        return getattr(X, key.split(".", 1)[1])
    import builtins
    return getattr(builtins, key, None)


def make_exc(d):
    flags = {resolve(k): v for k, v in d.get("__symexc__", {}).items()}
    msg = d.get("msg") or ""
    for c in CANDIDATES:
        if all(issubclass(c, k) == v for k, v in flags.items() if k is not None):
            try:
                if c is X.TimedSuspendExecution:
                    return c(msg, 0.0)
                if c is X.CallableRuntimeError:
                    return c(msg, None, None, None)
                if c is X.BackgroundThreadError:
                    return c(msg, ValueError("src"))
                if c is X.OrphanedChildException:
                    return c(msg, operation_id="x")
                if c is X.CheckpointError:
                    return c(msg, X.CheckpointErrorCategory.INVOCATION)
                return c(msg)
            except TypeError:
                continue
    return None


class Script:
    """ordered expectations for opaque calls"""

    def __init__(self, calls, clocks, trace):
        self.calls, self.clocks, self.trace = list(calls), list(clocks), trace
        self.diverged = None

    def next(self, name):
        self.trace.append({"call": name})
        if not self.calls:
            self.diverged = f"unexpected opaque call {name}"
            raise RuntimeError(self.diverged)
        c = self.calls.pop(0)
        if c["name"] != name and not (c["name"].startswith("retry_strategy") and name.startswith("retry_strategy")):
            self.diverged = f"expected call {c['name']} but got {name}"
            raise RuntimeError(self.diverged)
        if c.get("raises") is not None:
            e = make_exc(c["raises"])
            if e is None:
                self.diverged = f"no exception class satisfies {c['raises']}"
                raise RuntimeError(self.diverged)
            self.trace[-1]["raised"] = type(e).__name__
            raise e
        return c

    def clock(self):
        return float(self.clocks.pop(0)) if self.clocks else 0.0


class Sentinel:
    def __init__(self, tag):
        self.tag = tag

    def __repr__(self):
        return f"<{self.tag}>"


class ScriptedSerDes(serdes_mod.SerDes):
    def __init__(self, script):
        self.script = script

    def serialize(self, value, ctx):
        c = self.script.next("SerDes.serialize")
        return c.get("result", "S")

    def deserialize(self, data, ctx):
        self.script.next("SerDes.deserialize")
        return Sentinel("deserialized:" + str(data))


class FakeState:
    def __init__(self, records, outcomes, trace, script=None):
        self.records, self.outcomes, self.trace, self.script = list(records), list(outcomes), trace, script
        self.durable_execution_arn = "arn"

    def get_checkpoint_result(self, checkpoint_id):
        self.trace.append({"read": "record"})
        r = self.records.pop(0) if self.records else None
        if r is None:
            return CHECKPOINT_NOT_FOUND
        return CheckpointedResult.create_from_operation(build(r))

    def create_checkpoint(self, *args, **kwargs):
        # bind exactly like the real method (names and defaults come from the real signature)
        import inspect
        from aws_durable_execution_sdk_python.state import ExecutionState
        ba = inspect.signature(ExecutionState.create_checkpoint).bind(self, *args, **kwargs)
        ba.apply_defaults()
        operation_update, is_sync = ba.arguments["operation_update"], ba.arguments["is_sync"]
        oc = self.outcomes.pop(0) if self.outcomes else "ok"
        u = operation_update
        self.trace.append({"cp": u.action.value if u else None, "type": u.operation_type.value if u else None, "is_sync": bool(is_sync), "outcome": oc,
                           "delay": u.step_options.next_attempt_delay_seconds if u and u.step_options else None,
                           "replay_children": u.context_options.replay_children if u and u.context_options else None})
        if oc == "orphan":
            raise X.OrphanedChildException("orphan", operation_id=u.operation_id if u else "")
        if oc == "bgerror":
            raise X.BackgroundThreadError("bg", ValueError("src"))

    def raise_if_orphaned(self, operation_id):
        if self.script.next("raise_if_orphaned").get("value", False):
            raise X.OrphanedChildException("orphan", operation_id=operation_id)

    def is_replaying(self):
        return bool(self.script.next("is_replaying").get("value", False))


def run_one(sc):
    trace = []
    script = Script(sc["calls"], sc.get("clocks", []), trace)
    state = FakeState(sc["records"], sc["cp_outcomes"], trace, script)
    ident = OperationIdentifier(sc["ident"]["operation_id"], sc["ident"]["parent_id"], sc["ident"]["name"])
    ser = ScriptedSerDes(script)
    # clocks
    fake_dt = types.SimpleNamespace(UTC=real_datetime.UTC, timezone=real_datetime.timezone, timedelta=real_datetime.timedelta,
                                    datetime=types.SimpleNamespace(now=lambda tz=None: real_datetime.datetime.fromtimestamp(script.clock(), tz=real_datetime.UTC)))
    fake_time = types.SimpleNamespace(time=lambda: script.clock())
    saved = (suspend_mod.datetime, X.time, serdes_mod.EXTENDED_TYPES_SERDES)
    import aws_durable_execution_sdk_python.operation.invoke as inv_mod
    import aws_durable_execution_sdk_python.context as ctx_mod
    saved2 = (inv_mod.DEFAULT_JSON_SERDES, ctx_mod.PASS_THROUGH_SERDES)
    suspend_mod.datetime, X.time = fake_dt, fake_time
    serdes_mod.EXTENDED_TYPES_SERDES = ser
    inv_mod.DEFAULT_JSON_SERDES = ser
    ctx_mod.PASS_THROUGH_SERDES = ser
    try:
        kind, cfgd = sc["kind"], sc.get("config")
        f = (cfgd or {}).get("fields", {}) if isinstance(cfgd, dict) else {}

        def user(*a, **k):
            c = script.next(sc["user_name"])
            return Sentinel("user_result")

        def strategy(*a):
            c = script.next("retry_strategy" if kind == "step" else "wait_strategy")
            d = c["decision"]
            delay = None if d.get("delay_none") else C.Duration(d["delay"] if isinstance(d["delay"], float) and not float(d["delay"]).is_integer() else int(d["delay"]))
            if kind == "step":
                return RetryDecision(bool(d["should"]), delay)
            return WaitForConditionDecision(bool(d["should"]), delay)

        def serdes_of(v):
            return None if v is None else ser

        logger = Logger(logging.getLogger("x"), {}, state)
        if kind == "step":
            from aws_durable_execution_sdk_python.operation.step import StepOperationExecutor
            import aws_durable_execution_sdk_python.operation.step as step_mod
            step_mod.RetryPresets = types.SimpleNamespace(default=lambda: strategy)
            cfg = C.StepConfig(retry_strategy=None if f.get("retry_strategy") is None else strategy, step_semantics=build(f["step_semantics"]), serdes=serdes_of(f.get("serdes")))
            exe = StepOperationExecutor(user, cfg, state, ident, logger)
        elif kind == "child":
            from aws_durable_execution_sdk_python.operation.child import ChildOperationExecutor

            def summ(r):
                script.next("summary_generator")
                return "SUMMARY"
            cfg = C.ChildConfig(serdes=serdes_of(f.get("serdes")), sub_type=build(f.get("sub_type")), summary_generator=None if f.get("summary_generator") is None else summ)
            exe = ChildOperationExecutor(lambda: user(), state, ident, cfg)
        elif kind == "wait":
            from aws_durable_execution_sdk_python.operation.wait import WaitOperationExecutor
            exe = WaitOperationExecutor(int(sc["extra"]["seconds"]), state, ident)
        elif kind == "invoke":
            from aws_durable_execution_sdk_python.operation.invoke import InvokeOperationExecutor
            cfg = C.InvokeConfig(timeout=C.Duration(int(f["timeout"]["fields"]["seconds"])), serdes_payload=serdes_of(f.get("serdes_payload")), serdes_result=serdes_of(f.get("serdes_result")), tenant_id=f.get("tenant_id"))
            exe = InvokeOperationExecutor("fn", Sentinel("payload"), state, ident, cfg)
        elif kind == "callback":
            from aws_durable_execution_sdk_python.operation.callback import CallbackOperationExecutor
            cfg = None if cfgd is None else C.CallbackConfig(timeout=C.Duration(int(f["timeout"]["fields"]["seconds"])), heartbeat_timeout=C.Duration(int(f["heartbeat_timeout"]["fields"]["seconds"])))
            exe = CallbackOperationExecutor(state, ident, cfg)
        elif kind == "wfc":
            from aws_durable_execution_sdk_python.operation.wait_for_condition import WaitForConditionOperationExecutor
            cfg = WaitForConditionConfig(wait_strategy=strategy, initial_state=Sentinel("initial_state"), serdes=serdes_of(f.get("serdes")))
            exe = WaitForConditionOperationExecutor(user, cfg, state, ident, logger)
        elif kind == "callback_result":
            from aws_durable_execution_sdk_python.context import Callback
            exe = Callback("cbid", ident.operation_id, state, serdes_of(sc["extra"].get("serdes")))
        else:
            return {"error": f"unknown kind {kind}"}
        try:
            r = exe.result() if kind == "callback_result" else exe.process()
            outcome = {"kind": "val", "none": r is None}
        except BaseException as e:  # noqa: BLE001 - every class is an observation here
            if script.diverged:
                return {"diverged": script.diverged, "trace": trace}
            outcome = {"kind": "raise", "cls": type(e).__name__}
        return {"trace": trace, "outcome": outcome}
    finally:
        suspend_mod.datetime, X.time, serdes_mod.EXTENDED_TYPES_SERDES = saved
        inv_mod.DEFAULT_JSON_SERDES, ctx_mod.PASS_THROUGH_SERDES = saved2


def main():
    scenarios = json.load(sys.stdin)
    out = []
    for sc in scenarios:
        try:
            out.append(run_one(sc))
        except Exception as e:  # harness problem, reported as such
            import traceback
            out.append({"error": repr(e), "tb": traceback.format_exc()[-600:]})
    print(json.dumps(out))


main()

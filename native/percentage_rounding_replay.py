"""C09 *.exact_arithmetic: the failure percentage is computed as (failures / total) * 100 in doubles; for some (failures, total, percentage)
with failures/total EXACTLY equal to the tolerated percentage the rounded value is larger, and the policy is reported as exceeded."""
import json
from fractions import Fraction
from aws_durable_execution_sdk_python.concurrency.models import BatchItem, BatchItemStatus, BatchResult, CompletionReason, ExecutionCounters
from aws_durable_execution_sdk_python.config import CompletionConfig

found = []
for f, total, pct in ((7, 100, 7), (7, 25, 28), (11, 20, 55), (14, 50, 28)):
    exact_exceeded = Fraction(f, total) * 100 > pct
    c = ExecutionCounters(total, total, None, pct)
    for _ in range(f):
        c.fail_task()
    stops = c.should_complete()                      # nothing else is decided: total not reached, min_successful = total
    items = [BatchItem(i, BatchItemStatus.FAILED if i < f else BatchItemStatus.SUCCEEDED, None if i < f else i) for i in range(total)]
    reason = BatchResult.from_items(items, CompletionConfig(tolerated_failure_percentage=pct)).completion_reason
    if stops != exact_exceeded or (reason is CompletionReason.FAILURE_TOLERANCE_EXCEEDED) != exact_exceeded:
        found.append({"failures": f, "total": total, "tolerated_failure_percentage": pct, "exactly_exceeded": exact_exceeded, "should_complete_after_failures": stops, "reason_when_all_finished": reason.value})
print(json.dumps({"confirmed": bool(found), "cases": found}))

"""Builds real objects of the repository's classes from the JSON produced by pyvc.concretize (runs under /venv/bin/python)."""
import datetime
import importlib

PKG = "aws_durable_execution_sdk_python"


def cls_of(key):
    mod, _, name = key.rpartition(".")
    return getattr(importlib.import_module(f"{PKG}.{mod}"), name)


def build(d):
    if isinstance(d, list):
        return [build(x) for x in d]
    if not isinstance(d, dict):
        return d
    if "__enum__" in d:
        return getattr(cls_of(d["__enum__"]), d["member"])
    if "__dt__" in d:
        off = float(d.get("off") or 0)
        tz = datetime.UTC if off == 0 else datetime.timezone(datetime.timedelta(seconds=round(off, 6)))
        return datetime.datetime.fromtimestamp(float(d["__dt__"]), tz=tz)
    if "__cls__" in d:
        c = cls_of(d["__cls__"])
        kw = {k: build(v) for k, v in d["fields"].items()}
        try:
            return c(**kw)
        except TypeError:
            o = c.__new__(c)
            for k, v in kw.items():
                object.__setattr__(o, k, v)
            return o
    if "__dict__" in d:
        return {k: build(v) for k, v in d["__dict__"].items()}
    if "__tuple__" in d:
        return tuple(build(x) for x in d["__tuple__"])
    if "__glist__" in d:
        n = max(0, min(int(d["__glist__"]), 3))
        return [build(d["elem"]) for _ in range(n)]
    if "__any__" in d:
        return "any:" + d["__any__"]
    return d

"""BOUNDED native conformance run of the REAL ExecutionState._collect_checkpoint_batch against the contract proved in C05 (FIFO / exactly once,
count and size limits, overflow <= 1): exhaustive over small queues, sizes and limits.  Labelled bounded; never counted as proved."""
import itertools, json, queue, sys, logging
logging.disable(logging.CRITICAL)
import aws_durable_execution_sdk_python.state as S
from aws_durable_execution_sdk_python.state import CheckpointBatcherConfig, ExecutionState, QueuedOperation

_raw = sys.stdin.read() if not sys.stdin.isatty() else ""
req = json.loads(_raw) if _raw.strip() else {}
MAXQ = int(req.get("max_items", 4))


class FastQueue(queue.Queue):
    def get(self, block=True, timeout=None):
        return queue.Queue.get(self, block=False)


class Clock:
    def __init__(self):
        self.t = 0.0

    def time(self):
        self.t += 0.01
        return self.t


def run_case(sizes, max_ops, max_bytes):
    st = ExecutionState("arn", "t", {}, None, CheckpointBatcherConfig(max_batch_size_bytes=max_bytes, max_batch_time_seconds=1.0, max_batch_operations=max_ops))
    st._checkpoint_queue = FastQueue()
    items = [QueuedOperation(None, None) for _ in sizes]
    size_of = {id(q): s for q, s in zip(items, sizes)}
    st._calculate_operation_size = lambda q: size_of[id(q)]
    for q in items:
        st._checkpoint_queue.put(q)
    delivered = []
    for _ in range(3 * len(items) + 3):
        if len(delivered) == len(items):
            break
        if st._checkpoint_queue.empty() and st._overflow_queue.empty():
            break
        # the stop event lets the blocking first get() give up when only the overflow element is left... it is set only when nothing is queued
        if st._checkpoint_queue.empty():
            st._checkpointing_stopped.set()  # nothing more will arrive: lets the blocking first get() give up instead of spinning
        batch = st._collect_checkpoint_batch()
        if st._overflow_queue.qsize() > 1:
            return f"overflow queue holds {st._overflow_queue.qsize()} elements"
        if len(batch) > max_ops:
            return f"batch of {len(batch)} > max_ops {max_ops}"
        tot = sum(size_of[id(q)] for q in batch)
        if tot > max_bytes and len(batch) != 1:
            return f"batch size {tot} > {max_bytes} with {len(batch)} elements"
        delivered.extend(batch)
    if [id(q) for q in delivered] != [id(q) for q in items]:
        return f"delivered order {[items.index(q) if q in items else '?' for q in delivered]} != hand-over order (sizes {sizes})"
    return None


def main():
    S.time = Clock()
    n, bad = 0, []
    for k in range(1, MAXQ + 1):
        for sizes in itertools.product((1, 6, 30), repeat=k):
            for max_ops in (1, 2, 3):
                for max_bytes in (5, 12, 40):
                    n += 1
                    r = run_case(list(sizes), max_ops, max_bytes)
                    if r:
                        bad.append({"sizes": sizes, "max_ops": max_ops, "max_bytes": max_bytes, "problem": r})
                        if len(bad) >= 5:
                            print(json.dumps({"ok": False, "cases": n, "failures": bad}))
                            return
    print(json.dumps({"ok": not bad, "cases": n, "failures": bad, "bound": f"queues of 1..{MAXQ} elements, sizes in {{1,6,30}}, max_ops in {{1,2,3}}, max_bytes in {{5,12,40}}; all elements queued before the first call"}))


main()

"""C16: a map / parallel BRANCH whose own result exceeds the 256 KB checkpoint limit.  The batch-level summary generator (which expects the
BatchResult of the whole map / parallel) is handed to every per-branch child context and called there on the BRANCH's result."""
import json, os, sys, threading, logging
from unittest.mock import Mock
logging.disable(logging.CRITICAL)
from aws_durable_execution_sdk_python.config import MapConfig, ParallelConfig
from aws_durable_execution_sdk_python.execution import DurableExecutionInvocationInputWithClient, InitialExecutionState, durable_execution
from aws_durable_execution_sdk_python.lambda_service import (CheckpointOutput, CheckpointUpdatedExecutionState, ContextDetails, ExecutionDetails, Operation, OperationStatus, OperationType, StateOutput, StepDetails)


class Backend:
    def __init__(self):
        self.n, self.log = 0, []

    def checkpoint(self, durable_execution_arn, checkpoint_token, updates, client_token):
        self.n += 1
        out = []
        for u in updates:
            self.log.append((u.operation_type.value, u.action.value, u.sub_type.value if u.sub_type else None, len(u.payload or ""), (u.error.type if u.error else None)))
            st = {"START": OperationStatus.STARTED, "SUCCEED": OperationStatus.SUCCEEDED, "FAIL": OperationStatus.FAILED, "RETRY": OperationStatus.PENDING}[u.action.value]
            kw = {}
            if u.operation_type is OperationType.STEP:
                kw["step_details"] = StepDetails(result=u.payload, error=u.error)
            if u.operation_type is OperationType.CONTEXT:
                kw["context_details"] = ContextDetails(result=u.payload, error=u.error, replay_children=bool(u.context_options and u.context_options.replay_children))
            out.append(Operation(u.operation_id, u.operation_type, st, parent_id=u.parent_id, name=u.name, sub_type=u.sub_type, **kw))
        return CheckpointOutput(f"t{self.n}", CheckpointUpdatedExecutionState(out))

    def get_execution_state(self, *a, **k):
        return StateOutput([])


def run(kind):
    backend = Backend()
    big = "x" * (300 * 1024)

    def handler(ev, ctx):
        if kind == "map":
            r = ctx.map([1], lambda c, item, i, items: big)             # default configuration
        else:
            r = ctx.parallel([lambda c: big])
        return {"statuses": [i.status.value for i in r.all], "errors": [(i.error.type, (i.error.message or "")[:80]) if i.error else None for i in r.all], "sizes": [len(i.result) if i.result else None for i in r.all]}
    exe = Operation("exec", OperationType.EXECUTION, OperationStatus.STARTED, execution_details=ExecutionDetails("{}"))
    inp = DurableExecutionInvocationInputWithClient("arn", "t0", InitialExecutionState([exe], ""), backend)
    res = {}

    def go():
        try:
            res["out"] = durable_execution(handler)(inp, Mock())
        except BaseException as e:  # noqa: BLE001
            res["exc"] = repr(e)
    t = threading.Thread(target=go, daemon=True)
    t.start()
    t.join(30)
    return res, backend.log


out = {}
bad = False
for kind in ("map", "parallel"):
    res, log = run(kind)
    o = res.get("out") or {}
    body = json.loads(o["Result"]) if o.get("Status") == "SUCCEEDED" and o.get("Result") else None
    ok = body is not None and body["statuses"] == ["SUCCEEDED"] and body["sizes"] == [300 * 1024]
    bad = bad or not ok
    out[kind] = {"invocation": str(res)[:300], "branch_records": [x for x in log if x[0] == "CONTEXT" and x[1] in ("SUCCEED", "FAIL")]}
print(json.dumps({"confirmed": bad, "runs": out}))
sys.stdout.flush()
os._exit(0)

"""C20.timestamp.exact_from_millis: from_unix_millis(ms) must be the instant ms milliseconds after the epoch, so that
to_unix_millis(from_unix_millis(ms)) == ms and Operation.from_json_dict / to_json_dict keep every timestamp.  ms / 1000 in doubles followed by
fromtimestamp's rounding to microseconds loses that for large ms (spacing of doubles > 1 microsecond beyond 2**42 ms)."""
import datetime
import json
import random

from aws_durable_execution_sdk_python.lambda_service import Operation, TimestampConverter

EPOCH = datetime.datetime(1970, 1, 1, tzinfo=datetime.UTC)
random.seed(11)
cases, checked = [], 0
for lo, hi in ((0, 2**41), (2**41, 2**42), (2**42, 2**43), (2**43, 2**44), (2**44, 2**47)):
    bad = 0
    first = None
    for _ in range(20000):
        ms = random.randrange(lo, hi)
        try:
            dt = TimestampConverter.from_unix_millis(ms)
        except (OverflowError, ValueError, OSError):
            continue
        checked += 1
        if dt != EPOCH + datetime.timedelta(milliseconds=ms) or TimestampConverter.to_unix_millis(dt) != ms:
            bad += 1
            first = first or {"ms": ms, "from_unix_millis": dt.isoformat(), "exact": (EPOCH + datetime.timedelta(milliseconds=ms)).isoformat(), "back": TimestampConverter.to_unix_millis(dt)}
    if bad:
        cases.append({"range": [lo, hi], "affected_of_20000": bad, "example": first})
if cases:
    ms = cases[0]["example"]["ms"]
    wire = {"Id": "x", "Type": "STEP", "Status": "STARTED", "StartTimestamp": ms}
    try:
        back = Operation.from_json_dict(dict(wire)).to_json_dict().get("StartTimestamp")
        cases[0]["operation_json_round_trip"] = {"StartTimestamp_in": ms, "StartTimestamp_out": back}
    except Exception as e:  # noqa: BLE001
        cases[0]["operation_json_round_trip"] = repr(e)
print(json.dumps({"confirmed": bool(cases), "instants_checked": checked, "cases": cases}))

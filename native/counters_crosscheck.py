"""CPython cross-check of the engine on ExecutionCounters / BatchResult._get_completion_reason: for one model per explored path the REAL method is
run on the concrete numbers and must return what the engine's path predicts."""
import json, sys
from fractions import Fraction
from aws_durable_execution_sdk_python.concurrency.models import BatchResult, ExecutionCounters
from aws_durable_execution_sdk_python.config import CompletionConfig


def num(x):
    if x is None:
        return None
    x = str(x)
    return float(Fraction(x)) if "/" in x or "." in x else int(x)


out = []
for c in json.load(sys.stdin):
    try:
        if c["what"] == "counters":
            ec = ExecutionCounters(int(c["total"]), int(c["minimum"]), num(c["tc"]), num(c["tp"]))
            ec.success_count, ec.failure_count = int(c["s"]), int(c["f"])
            got = getattr(ec, c["method"])()
        else:
            cfg = None if c["cfg_none"] else CompletionConfig(min_successful=num(c["ms"]), tolerated_failure_count=num(c["tc"]), tolerated_failure_percentage=num(c["tp"]))
            s, f, st = int(c["s"]), int(c["f"]), int(c["started"])
            got = BatchResult._get_completion_reason(failure_count=f, success_count=s, completed_count=s + f, total_count=s + f + st, completion_config=cfg).name
        out.append({"match": got == c["expected"], "native": got, "predicted": c["expected"], "case": c})
    except Exception as e:  # noqa: BLE001
        out.append({"match": False, "native": repr(e), "predicted": c["expected"], "case": c})
print(json.dumps(out))

"""C06/C18 *.exec.is_retriable: CheckpointError.from_exception(e).is_retriable() on a botocore-style exception whose response is PARSED AT RUN TIME
(json.loads gives fresh string and integer objects, as botocore's parsers do - nothing is an interned source literal), compared with the
classification table: retriable iff 4xx other than 429, with a non-empty Error body that is not InvalidParameterValueException /
'Invalid Checkpoint Token...'."""
import json
import sys

from aws_durable_execution_sdk_python.exceptions import CheckpointError

p = json.loads(sys.stdin.read() or "{}")
cases = [p] if p else []
# besides the solver's model: the rows of the table, so that a model with incidental values still exercises each row
for status in (None, 200, 399, 400, 404, 429, 430, 499, 500, 503):
    for code, msg in (("InvalidParameterValueException", "Invalid Checkpoint Token: stale"), ("InvalidParameterValueException", "other"),
                      ("ThrottlingException", "Invalid Checkpoint Token"), (None, "Invalid Checkpoint Token"), ("InvalidParameterValueException", None), (None, None)):
        cases.append({"has_meta": True, "has_status": True, "status": status, "has_error": True, "has_code": code is not None, "code": code, "has_message": msg is not None, "message": msg})
found = []
for c in cases:
    resp = {}
    if c.get("has_error"):
        err = {}
        if c.get("has_code"):
            err["Code"] = c.get("code")
        if c.get("has_message"):
            err["Message"] = c.get("message")
        resp["Error"] = err
    if c.get("has_meta"):
        resp["ResponseMetadata"] = {"HTTPStatusCode": c.get("status")} if c.get("has_status") else {}
    resp = json.loads(json.dumps(resp))          # run-time parsed: fresh objects

    class E(Exception):
        pass
    e = E("boom")
    e.response = resp
    status = resp.get("ResponseMetadata", {}).get("HTTPStatusCode")
    err = resp.get("Error") or {}
    token = err.get("Code") == "InvalidParameterValueException" and (err.get("Message") or "").startswith("Invalid Checkpoint Token")
    expected = status is not None and 400 <= status < 500 and status != 429 and bool(err) and not token
    try:
        got = CheckpointError.from_exception(e).is_retriable()
    except BaseException as ex:  # noqa: BLE001
        got = f"raised {ex!r}"
    if got != expected:
        found.append({"response": resp, "is_retriable": got, "expected": expected})
print(json.dumps({"confirmed": bool(found), "cases": found[:6]}))

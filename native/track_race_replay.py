"""Forced schedule for C17.state.operations_snapshot_under_lock: track_replay() iterates self.operations while the checkpoint thread merges
a checkpoint response (operations.update under _operations_lock).  Without a snapshot taken under the lock CPython raises
'RuntimeError: dictionary changed size during iteration' in the USER thread (the durable operation fails for no reason of the workflow)."""
import json, sys, threading, logging
from unittest.mock import Mock
logging.disable(logging.CRITICAL)
from aws_durable_execution_sdk_python.lambda_service import Operation, OperationStatus, OperationType, StepDetails
from aws_durable_execution_sdk_python.state import ExecutionState, ReplayStatus


def main():
    ops = {f"s{i}": Operation(f"s{i}", OperationType.STEP, OperationStatus.SUCCEEDED, step_details=StepDetails(result="1")) for i in range(4)}
    st = ExecutionState("arn", "tok", dict(ops), Mock(), replay_status=ReplayStatus.REPLAY)
    in_iter, merged = threading.Event(), threading.Event()
    orig = st._is_under_completed_context if hasattr(st, "_is_under_completed_context") else None
    calls = []

    def slow(op, *rest):
        calls.append(op.operation_id)
        if len(calls) == 1:          # the user thread is now in the middle of the iteration: let the checkpoint thread merge a response
            in_iter.set()
            merged.wait(5)
        return orig(op, *rest)
    if orig is None:
        print(json.dumps({"confirmed": False, "note": "no per-operation callback inside the iteration on this tree"}))
        return
    st._is_under_completed_context = slow

    def bg():
        in_iter.wait(5)
        done = threading.Event()

        def do():
            st.fetch_paginated_operations([Operation("new-op", OperationType.STEP, OperationStatus.STARTED)], "tok2", None)
            done.set()
        t2 = threading.Thread(target=do, daemon=True)   # blocks (correctly) while the reader holds the lock; do not deadlock the schedule
        t2.start()
        done.wait(0.5)
        merged.set()
        t2.join(5)
    t = threading.Thread(target=bg)
    t.start()
    err = None
    try:
        st.track_replay("s0")
    except RuntimeError as e:
        err = repr(e)
    t.join()
    print(json.dumps({"confirmed": err is not None, "error_in_user_thread": err, "merged_operations": len(st.operations)}))


main()

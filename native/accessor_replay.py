"""replay of a BatchResult accessor counterexample: one-item batch built from the model, accessor called on the real class and
compared with the documented meaning restated here"""
import json, sys
from aws_durable_execution_sdk_python.concurrency.models import BatchItem, BatchItemStatus, BatchResult, CompletionReason
from aws_durable_execution_sdk_python.lambda_service import ErrorObject
from aws_durable_execution_sdk_python.exceptions import CallableRuntimeError

p = json.loads(sys.stdin.read())
st = BatchItemStatus[p["status"]]
err = None if p["error_none"] else ErrorObject(message=p.get("message"), type=p.get("type"), data=p.get("data"), stack_trace=None)
res = None if p["result_none"] else "r"
item = BatchItem(0, st, res, err)
b = BatchResult([item], CompletionReason.ALL_COMPLETED)
name = p["accessor"]
S, Fd, St_ = BatchItemStatus.SUCCEEDED, BatchItemStatus.FAILED, BatchItemStatus.STARTED
want = {
    "succeeded": [item] if st is S and res is not None else [],
    "failed": [item] if st is Fd and err is not None else [],
    "started": [item] if st is St_ else [],
    "get_results": [res] if st is S and res is not None else [],
    "get_errors": [err] if st is Fd and err is not None else [],
    "success_count": int(st is S), "failure_count": int(st is Fd), "started_count": int(st is St_), "total_count": 1,
    "has_failure": st is Fd, "status": Fd if st is Fd else S,
}
try:
    attr = getattr(b, name)
    got = attr() if callable(attr) else attr
    raised = None
except CallableRuntimeError as e:
    got, raised = None, {"message": e.message, "type": e.error_type, "data": e.data}
if name == "throw_if_error":
    exp = {"message": err.message, "type": err.type, "data": err.data} if st is Fd and err is not None and err else None
    bad = raised != exp
    print(json.dumps({"confirmed": bad, "got": raised, "expected": exp}))
else:
    bad = got != want[name]
    print(json.dumps({"confirmed": bad, "got": repr(got), "expected": repr(want[name])}))

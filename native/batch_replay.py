"""Native replay of the completion-policy lemma (C09): real ConcurrentExecutor.__init__ + ExecutionCounters.should_complete()
against the real BatchResult.from_items classification for the same counts."""
import json, sys
from fractions import Fraction
from aws_durable_execution_sdk_python.concurrency.executor import ConcurrentExecutor
from aws_durable_execution_sdk_python.concurrency.models import BatchItem, BatchItemStatus, BatchResult, CompletionReason, Executable
from aws_durable_execution_sdk_python.config import CompletionConfig
from aws_durable_execution_sdk_python.lambda_service import ErrorObject, OperationSubType


class E(ConcurrentExecutor):
    def execute_item(self, child_context, executable):
        return None


def num(x):
    x = str(x)
    return float(Fraction(x)) if "/" in x or "." in x else int(x)


def main():
    i = json.load(sys.stdin)
    b = lambda k: str(i.get(k)) == "True"  # noqa: E731
    s, f, st = int(i["s"]), int(i["f"]), int(i["started"])
    cfg = CompletionConfig(min_successful=None if b("ms_none") else int(i["ms"]), tolerated_failure_count=None if b("tc_none") else int(i["tc"]),
                           tolerated_failure_percentage=None if b("tp_none") else num(i["tp"]))
    n = s + f + st
    ex = E([Executable(k, lambda: None) for k in range(n)], None, cfg, OperationSubType.MAP, OperationSubType.MAP_ITERATION, "x-", None)
    ex.counters.success_count, ex.counters.failure_count = s, f
    stop = ex.counters.should_complete()
    items = [BatchItem(k, BatchItemStatus.SUCCEEDED, result=1) for k in range(s)] + [BatchItem(s + k, BatchItemStatus.FAILED, error=ErrorObject("m", "t", None, None)) for k in range(f)] + \
            [BatchItem(s + f + k, BatchItemStatus.STARTED) for k in range(st)]
    reason = BatchResult.from_items(items, cfg).completion_reason
    bad = []
    if stop:
        if reason is CompletionReason.ALL_COMPLETED and st > 0:
            bad.append("executor stops, reason ALL_COMPLETED, but items are still STARTED")
        if reason is CompletionReason.MIN_SUCCESSFUL_REACHED and (cfg.min_successful is None or s < cfg.min_successful):
            bad.append("reason MIN_SUCCESSFUL_REACHED but the minimum is not reached")
    print(json.dumps({"confirmed": bool(bad), "stop": stop, "reason": reason.value, "counts": [s, f, st], "config": repr(cfg), "problems": bad}))


main()

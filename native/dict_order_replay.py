"""C02/C15 *.serdes.json_flags_keep_structure: what user code can observe of a value - equality, types AND the iteration order of its
dictionaries - is the same for the value first delivered and for deserialize(serialize(value)), which is what a replay delivers."""
import datetime
import decimal
import json

from aws_durable_execution_sdk_python.serdes import deserialize, serialize


def observe(v):
    if isinstance(v, dict):
        return ["dict", [[observe(k), observe(x)] for k, x in v.items()]]
    if isinstance(v, (list, tuple)):
        return [type(v).__name__, [observe(x) for x in v]]
    return [type(v).__name__, repr(v)]


VALUES = [
    {"b": 1, "a": 2},
    ({"zeta": 1, "alpha": {"y": (1, 2), "x": b"raw"}},),
    {"when": datetime.datetime(2024, 1, 2, tzinfo=datetime.UTC), "amount": decimal.Decimal("1.50"), "2": 1, "10": 2},
    [{"k2": None, "k1": True}, {"t": "x", "v": 1, "a": 0}],
]
found = []
for v in VALUES:
    try:
        back = deserialize(None, serialize(None, v, "op", "arn"), "op", "arn")
    except BaseException as e:  # noqa: BLE001
        found.append({"value": repr(v), "raised": repr(e)})
        continue
    if observe(back) != observe(v):
        found.append({"value": repr(v), "first_delivery_observes": json.dumps(observe(v))[:300], "replay_observes": json.dumps(observe(back))[:300]})
print(json.dumps({"confirmed": bool(found), "cases": found[:4]}))

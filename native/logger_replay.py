"""Native confirmation of the known finding of C17: a history containing a completed child context with a completed step inside keeps the
context logger silent for the rest of the invocation (the inner step is short-circuited and never 'visited')."""
import json, logging, os, sys, threading
from unittest.mock import Mock
from aws_durable_execution_sdk_python.execution import DurableExecutionInvocationInputWithClient, InitialExecutionState, durable_execution
from aws_durable_execution_sdk_python.lambda_service import (CheckpointOutput, CheckpointUpdatedExecutionState, ContextDetails, ExecutionDetails, Operation, OperationStatus, OperationType,
                                                             StateOutput, StepDetails)

logging.disable(logging.CRITICAL)


class Backend:
    def __init__(self):
        self.ops, self.n = {}, 0

    def checkpoint(self, durable_execution_arn, checkpoint_token, updates, client_token):
        self.n += 1
        out = []
        for u in updates:
            st = {"START": OperationStatus.STARTED, "SUCCEED": OperationStatus.SUCCEEDED, "FAIL": OperationStatus.FAILED, "RETRY": OperationStatus.PENDING}[u.action.value]
            kw = {}
            if u.operation_type is OperationType.STEP:
                kw["step_details"] = StepDetails(result=u.payload, error=u.error)
            if u.operation_type is OperationType.CONTEXT:
                kw["context_details"] = ContextDetails(result=u.payload, error=u.error, replay_children=bool(u.context_options and u.context_options.replay_children))
            op = Operation(u.operation_id, u.operation_type, st, parent_id=u.parent_id, name=u.name, sub_type=u.sub_type, **kw)
            self.ops[u.operation_id] = op
            out.append(op)
        return CheckpointOutput(f"t{self.n}", CheckpointUpdatedExecutionState(out))

    def get_execution_state(self, *a, **k):
        return StateOutput([])


class Sink:
    def __init__(self):
        self.lines = []

    def info(self, msg, *a, extra=None):
        self.lines.append(msg)
    debug = warning = error = exception = info


def handler_factory(sink, second):
    def h(ev, ctx):
        ctx.set_logger(sink)
        ctx.run_in_child_context(lambda c: c.step(lambda s: 1, name="inner"), name="child")
        ctx.logger.info("after-child")
        if second:
            ctx.step(lambda s: 2, name="new-step")
            ctx.logger.info("after-new-step")
        return "ok"
    return h


def invoke(backend, sink, second):
    exe = Operation("exec", OperationType.EXECUTION, OperationStatus.STARTED, execution_details=ExecutionDetails("{}"))
    inp = DurableExecutionInvocationInputWithClient("arn", "t0", InitialExecutionState([exe] + list(backend.ops.values()), ""), backend)
    res = {}

    def go():
        try:
            res["out"] = durable_execution(handler_factory(sink, second))(inp, Mock())
        except BaseException as e:  # noqa: BLE001
            res["exc"] = repr(e)
    t = threading.Thread(target=go, daemon=True)
    t.start()
    t.join(20)
    return res


def main():
    b = Backend()
    s1 = Sink()
    invoke(b, s1, False)                       # first invocation: records child context + inner step as SUCCEEDED
    s2 = Sink()
    r2 = invoke(b, s2, True)                   # second invocation: replays them, then runs a new step
    # expected by C17: "after-child" is replayed (silent), "after-new-step" follows the last completed operation => emitted
    confirmed = "after-new-step" not in s2.lines
    print(json.dumps({"confirmed": confirmed, "first_invocation_logs": s1.lines, "second_invocation_logs": s2.lines, "second_result": str(r2)[:200]}))
    sys.stdout.flush()
    os._exit(0)


main()

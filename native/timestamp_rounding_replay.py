"""C20.timestamp.exact_millis: to_unix_millis computes int(dt.timestamp() * 1000) in doubles.  For millisecond-ALIGNED instants the product
can land just below the integer and int() then loses a whole millisecond (1970-01-01T00:00:01.001Z -> 1000).  In the seconds range of
present-day timestamps (>= 2005) no aligned instant is affected; earlier ones are."""
import datetime, json
from aws_durable_execution_sdk_python.lambda_service import Operation, OperationStatus, OperationType, TimestampConverter

U = datetime.UTC
cases = []
for ms in (1001, 1003, 545417903578, 1091636793123):
    dt = datetime.datetime(1970, 1, 1, tzinfo=U) + datetime.timedelta(milliseconds=ms)
    back = TimestampConverter.to_unix_millis(dt)
    op = Operation("id", OperationType.STEP, OperationStatus.STARTED, start_timestamp=dt)
    rt = Operation.from_json_dict(op.to_json_dict())
    if back != ms or rt.start_timestamp != dt:
        cases.append({"instant": dt.isoformat(), "aligned_ms": ms, "to_unix_millis": back, "after_json_round_trip": rt.start_timestamp.isoformat()})
recent_bad = 0
import random
random.seed(5)
for _ in range(50000):
    ms = random.randrange(1_600_000_000_000, 1_900_000_000_000)
    if TimestampConverter.to_unix_millis(datetime.datetime(1970, 1, 1, tzinfo=U) + datetime.timedelta(milliseconds=ms)) != ms:
        recent_bad += 1
print(json.dumps({"confirmed": bool(cases), "cases": cases, "affected_among_50000_aligned_instants_2020_2030": recent_bad}))

"""Native scenario for C10.state.history_links_registered: in a RE-INVOCATION the branches of a map/parallel already exist in the history, so
they send no START and their parent links are never registered in this invocation.  When the batch completes early (min_successful), the
surviving branch is not marked as an orphan and its next step is accepted AFTER the batch's completion record; its user function runs."""
import json, os, sys, threading, time, logging
from unittest.mock import Mock
logging.disable(logging.CRITICAL)
from aws_durable_execution_sdk_python.config import CompletionConfig, ParallelConfig
from aws_durable_execution_sdk_python.context import DurableContext
from aws_durable_execution_sdk_python.execution import DurableExecutionInvocationInputWithClient, InitialExecutionState, durable_execution
from aws_durable_execution_sdk_python.lambda_service import (CheckpointOutput, CheckpointUpdatedExecutionState, ContextDetails, ExecutionDetails, Operation, OperationStatus, OperationSubType, OperationType,
                                                             StateOutput, StepDetails)


class Backend:
    def __init__(self):
        self.ops, self.n, self.log = {}, 0, []

    def checkpoint(self, durable_execution_arn, checkpoint_token, updates, client_token):
        self.n += 1
        out = []
        for u in updates:
            self.log.append((u.operation_id, u.operation_type.value, u.action.value, u.name))
            st = {"START": OperationStatus.STARTED, "SUCCEED": OperationStatus.SUCCEEDED, "FAIL": OperationStatus.FAILED, "RETRY": OperationStatus.PENDING}[u.action.value]
            kw = {}
            if u.operation_type is OperationType.STEP:
                kw["step_details"] = StepDetails(result=u.payload, error=u.error)
            if u.operation_type is OperationType.CONTEXT:
                kw["context_details"] = ContextDetails(result=u.payload, error=u.error)
            op = Operation(u.operation_id, u.operation_type, st, parent_id=u.parent_id, name=u.name, sub_type=u.sub_type, **kw)
            self.ops[u.operation_id] = op
            out.append(op)
        return CheckpointOutput(f"t{self.n}", CheckpointUpdatedExecutionState(out))

    later_pages = []

    def get_execution_state(self, *a, **k):
        if self.later_pages:
            return StateOutput(self.later_pages.pop(0), None if not self.later_pages else "more")
        return StateOutput([])


def ids():
    """ids of the parallel operation and of its two branches, computed with the SDK's own id function"""
    root = DurableContext(state=Mock(), execution_context=Mock(), parent_id=None)
    m = root._create_step_id_for_logical_step(1)
    mc = DurableContext(state=Mock(), execution_context=Mock(), parent_id=m)
    return m, mc._create_step_id_for_logical_step(0), mc._create_step_id_for_logical_step(1)


def main():
    try:
        req = json.loads(sys.stdin.read() or "{}")
    except ValueError:
        req = {}
    backend = Backend()
    m, b1, b2 = ids()
    # history left by an earlier invocation that was cut short: the parallel and both branches are STARTED
    history = [Operation(m, OperationType.CONTEXT, OperationStatus.STARTED, sub_type=OperationSubType.PARALLEL),
               Operation(b1, OperationType.CONTEXT, OperationStatus.STARTED, parent_id=m, sub_type=OperationSubType.PARALLEL_BRANCH),
               Operation(b2, OperationType.CONTEXT, OperationStatus.STARTED, parent_id=m, sub_type=OperationSubType.PARALLEL_BRANCH)]
    if req.get("ready_step"):
        # the surviving branch's step already exists with status READY (it failed once, its retry timer has fired): an at-least-once step then
        # sends no START before its function is entered
        bc = DurableContext(state=Mock(), execution_context=Mock(), parent_id=b2)
        history.append(Operation(bc._create_step_id_for_logical_step(1), OperationType.STEP, OperationStatus.READY, parent_id=b2, name="slow-step", step_details=StepDetails(attempt=1)))
    release_slow = threading.Event()
    ran = []

    def fast(c):
        return c.step(lambda s: "fast", name="fast-step")

    def slow(c):
        release_slow.wait(10)           # still inside user code while the parallel completes
        return c.step(lambda s: ran.append("slow-step-body") or "slow", name="slow-step")

    def handler(ev, ctx):
        r = ctx.parallel([fast, slow], config=ParallelConfig(completion_config=CompletionConfig(min_successful=1)))
        release_slow.set()
        time.sleep(1.0)                 # give the orphaned branch time to reach its next durable operation
        return "done"
    exe = Operation("exec", OperationType.EXECUTION, OperationStatus.STARTED, execution_details=ExecutionDetails("{}"))
    if req.get("paginated"):  # the branch records arrive on a later page of the history
        backend.later_pages = [history[1:]]
        inp = DurableExecutionInvocationInputWithClient("arn", "t0", InitialExecutionState([exe] + history[:1], "page2"), backend)
    else:
        inp = DurableExecutionInvocationInputWithClient("arn", "t0", InitialExecutionState([exe] + history, ""), backend)
    res = {}

    def go():
        try:
            res["out"] = durable_execution(handler)(inp, Mock())
        except BaseException as e:  # noqa: BLE001
            res["exc"] = repr(e)
    t = threading.Thread(target=go, daemon=True)
    t.start()
    t.join(20)
    log = backend.log
    done_at = next((i for i, x in enumerate(log) if x[0] == m and x[2] == "SUCCEED"), None)
    late = [x for i, x in enumerate(log) if done_at is not None and i > done_at and x[3] == "slow-step"]
    print(json.dumps({"confirmed": bool(late) or bool(ran), "updates_after_parallel_completed": late, "orphan_step_body_ran": bool(ran), "result": str(res)[:120]}))
    sys.stdout.flush()
    os._exit(0)


main()

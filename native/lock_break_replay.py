"""C19 *.exit.breaks.*: a holder leaves the critical section with an exception -> the lock is broken: a waiter already queued and every later
caller get OrderedLockError (not ownership, not another exception).  One forced schedule per kind of breaking exception (with a message,
without arguments, with non-string arguments, a BaseException that is not an Exception)."""
import json
import threading
import time

from aws_durable_execution_sdk_python.exceptions import OrderedLockError
from aws_durable_execution_sdk_python.threading import OrderedLock


class Signal(BaseException):
    pass


def missing_file():
    try:
        open("/nonexistent/for/replay")
    except OSError as e:
        return e


found = []
for label, exc in (("message", ValueError("boom")), ("no_args", RuntimeError()), ("non_str_args", KeyError(5)), ("os_error", missing_file()), ("base_exception", Signal("stop"))):
    lock = OrderedLock()
    got = {}
    entered = threading.Event()

    def waiter():
        try:
            with lock:
                got["waiter"] = "acquired"
        except BaseException as e:  # noqa: BLE001
            got["waiter"] = type(e).__name__

    def holder():
        try:
            with lock:
                entered.set()
                time.sleep(0.2)          # the waiter queues up behind the holder
                raise exc
        except BaseException:  # noqa: BLE001
            pass
    h = threading.Thread(target=holder, daemon=True)
    h.start()
    entered.wait(5)
    w = threading.Thread(target=waiter, daemon=True)
    w.start()
    h.join(5)
    w.join(5)
    try:
        with lock:
            got["later"] = "acquired"
    except BaseException as e:  # noqa: BLE001
        got["later"] = type(e).__name__
    if got.get("waiter") != OrderedLockError.__name__ or got.get("later") != OrderedLockError.__name__:
        found.append({"breaking_exception": label, "queued_waiter": got.get("waiter", "still blocked"), "later_caller": got.get("later")})
print(json.dumps({"confirmed": bool(found), "cases": found}))

"""C15 known finding `accepted_subclass_instance`: the default serializer accepts instances of proper subclasses of its supported
classes (and bytearray / memoryview) and returns an instance of the BASE class - equal, but not 'of the same types'."""
import collections, enum, json, sys
from aws_durable_execution_sdk_python.serdes import deserialize, serialize


class Color(enum.IntEnum):
    RED = 1


class Kind(enum.StrEnum):
    A = "a"


Point = collections.namedtuple("Point", "x y")
cases = {"IntEnum": Color.RED, "StrEnum": Kind.A, "namedtuple": Point(1, 2), "OrderedDict": collections.OrderedDict(a=1), "bytearray": bytearray(b"ab"),
         "nested": [Point(1, 2), {"k": Color.RED}]}
out = {}
for k, v in cases.items():
    try:
        b = deserialize(None, serialize(None, v, "op", "arn"), "op", "arn")

        def same(a, c):
            if type(a) is not type(c):
                return False
            if isinstance(a, (list, tuple)):
                return len(a) == len(c) and all(same(x, y) for x, y in zip(a, c))
            if isinstance(a, dict):
                return a.keys() == c.keys() and all(same(a[q], c[q]) for q in a)
            return a == c
        out[k] = {"accepted": True, "type_in": type(v).__name__, "type_out": type(b).__name__, "same_types": same(v, b)}
    except Exception as e:  # noqa: BLE001
        out[k] = {"accepted": False, "error": type(e).__name__}
print(json.dumps({"confirmed": any(r["accepted"] and not r["same_types"] for r in out.values()), "cases": out}))

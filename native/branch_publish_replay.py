"""Forced schedule for C09.models.publish_order: ExecutableWithState.complete() publishes the status COMPLETED before it stores the
result.  _create_result() (main thread, no lock) reads the status and then the result: if it runs between the two stores of a branch that is
completing at that very moment, `executable.result` raises InvalidStateError and the whole map/parallel call fails in user code.
The schedule is forced with a trace function that pauses the completing branch between the two stores of the REAL complete()."""
import json, os, sys, threading, logging
from unittest.mock import Mock
logging.disable(logging.CRITICAL)
from aws_durable_execution_sdk_python.concurrency import models
from aws_durable_execution_sdk_python.concurrency.executor import ConcurrentExecutor
from aws_durable_execution_sdk_python.config import CompletionConfig, ParallelConfig
from aws_durable_execution_sdk_python.execution import DurableExecutionInvocationInputWithClient, InitialExecutionState, durable_execution
from aws_durable_execution_sdk_python.lambda_service import (CheckpointOutput, CheckpointUpdatedExecutionState, ContextDetails, ExecutionDetails, Operation, OperationStatus, OperationType, StateOutput, StepDetails)


class Backend:
    def __init__(self):
        self.n = 0

    def checkpoint(self, durable_execution_arn, checkpoint_token, updates, client_token):
        self.n += 1
        out = []
        for u in updates:
            st = {"START": OperationStatus.STARTED, "SUCCEED": OperationStatus.SUCCEEDED, "FAIL": OperationStatus.FAILED, "RETRY": OperationStatus.PENDING}[u.action.value]
            kw = {}
            if u.operation_type is OperationType.STEP:
                kw["step_details"] = StepDetails(result=u.payload, error=u.error)
            if u.operation_type is OperationType.CONTEXT:
                kw["context_details"] = ContextDetails(result=u.payload, error=u.error)
            out.append(Operation(u.operation_id, u.operation_type, st, parent_id=u.parent_id, name=u.name, sub_type=u.sub_type, **kw))
        return CheckpointOutput(f"t{self.n}", CheckpointUpdatedExecutionState(out))

    def get_execution_state(self, *a, **k):
        return StateOutput([])


def main():
    req = json.loads(sys.stdin.read() or "{}")
    which = req.get("transition", "complete")            # complete | fail
    code = getattr(models.ExecutableWithState, which).__code__
    first_line = code.co_firstlineno
    paused, create_done = threading.Event(), threading.Event()
    state = {"stores": 0}

    def tracer(frame, event, arg):
        if frame.f_code is code and frame.f_locals.get("self") is not None and frame.f_locals["self"].executable.index == 1:
            def local(fr, ev, a):
                if ev == "line":
                    state["stores"] += 1
                    if state["stores"] == 2:          # after the first store of the transition, before the second
                        paused.set()
                        create_done.wait(5)
                return local
            return local
        if frame.f_code is ConcurrentExecutor._create_result.__code__:
            def local2(fr, ev, a):
                if ev in ("return", "exception"):
                    create_done.set()
                return local2
            return local2
        return None
    threading.settrace(tracer)
    sys.settrace(tracer)

    def quick(c):                     # branch 1: finishes first, is paused inside the transition
        if which == "fail":
            raise ValueError("branch failed")
        return "quick"

    def decisive(c):                  # branch 0: its completion decides the batch (min_successful=1) while branch 1 is half-way
        paused.wait(5)
        return "decisive"

    def handler(ev, ctx):
        r = ctx.parallel([decisive, quick], config=ParallelConfig(completion_config=CompletionConfig(min_successful=1)))
        return [i.status.value for i in r.all]
    exe = Operation("exec", OperationType.EXECUTION, OperationStatus.STARTED, execution_details=ExecutionDetails("{}"))
    inp = DurableExecutionInvocationInputWithClient("arn", "t0", InitialExecutionState([exe], ""), Backend())
    res = {}

    def go():
        try:
            res["out"] = durable_execution(handler)(inp, Mock())
        except BaseException as e:  # noqa: BLE001
            res["exc"] = repr(e)
    t = threading.Thread(target=go, daemon=True)
    t.start()
    t.join(20)
    out = res.get("out") or {}
    bad = out.get("Status") != "SUCCEEDED" or "exc" in res
    print(json.dumps({"confirmed": bool(bad), "transition": which, "invocation_result": str(res)[:400]}))
    sys.stdout.flush()
    os._exit(0)


main()

"""Forced-schedule replay for C06.produce.no_lost_wakeup on the REAL ExecutionState (no repository edit: the schedule is forced by
wrapping instance attributes).  Schedule: producer B passes the failed-flag test of create_checkpoint; before its queue put, the
consumer's API call fails, the consumer drains both queues, sets the failed flag and exits; then B's put happens and B waits."""
import json, os, sys, threading, time, logging
logging.disable(logging.CRITICAL)
from aws_durable_execution_sdk_python.exceptions import BackgroundThreadError
from aws_durable_execution_sdk_python.identifier import OperationIdentifier
from aws_durable_execution_sdk_python.lambda_service import OperationUpdate
from aws_durable_execution_sdk_python.state import ExecutionState, CheckpointBatcherConfig


class Client:
    def __init__(self):
        self.release = threading.Event()
        self.entered = threading.Event()

    def checkpoint(self, **kw):
        self.entered.set()
        self.release.wait(10)
        raise RuntimeError("backend rejected the checkpoint")

    def get_execution_state(self, **kw):
        raise AssertionError("not used")


def main():
    client = Client()
    st = ExecutionState("arn", "t0", {}, client, CheckpointBatcherConfig(max_batch_time_seconds=0.01))
    consumer = threading.Thread(target=st.checkpoint_batches_forever, daemon=True)
    consumer.start()
    outcome = {}

    def producer(name, upd):
        try:
            st.create_checkpoint(upd, is_sync=True)
            outcome[name] = "returned"
        except BaseException as e:  # noqa: BLE001
            outcome[name] = type(e).__name__
    a = threading.Thread(target=producer, args=("A", OperationUpdate.create_step_start(OperationIdentifier("a"))), daemon=True)
    a.start()
    client.entered.wait(5)                      # the consumer is inside the API call with A's update
    real_put = st._checkpoint_queue.put
    b_in_put = threading.Event()

    def slow_put(item):                         # B has passed the failed-flag test; hold its put until the consumer has failed, drained and exited
        if getattr(item.operation_update, "operation_id", None) == "b":
            b_in_put.set()
            client.release.set()
            consumer.join(5)
        real_put(item)
    st._checkpoint_queue.put = slow_put
    b = threading.Thread(target=producer, args=("B", OperationUpdate.create_step_start(OperationIdentifier("b"))), daemon=True)
    b.start()
    b.join(6)
    a.join(2)
    hung = b.is_alive()
    print(json.dumps({"confirmed": hung, "A": outcome.get("A"), "B": "BLOCKED FOREVER (still waiting after 6 s, consumer exited)" if hung else outcome.get("B"), "consumer_alive": consumer.is_alive()}))
    sys.stdout.flush()
    os._exit(0)


main()

"""C16 *.exec.large_error.measures_response: the handler's final ERROR, when the FAILED response that carries it is longer than the Lambda response
limit, must be recorded durably (EXECUTION FAIL record, synchronously) and the status reported with an empty payload - for every error class
that is answered with FAILED, including the SDK's own non-retriable ExecutionError (which user code and the serializer can raise with
arbitrary text)."""
import json
import logging
import sys
from unittest.mock import Mock

from aws_durable_execution_sdk_python.exceptions import ExecutionError
from aws_durable_execution_sdk_python.execution import LAMBDA_RESPONSE_SIZE_LIMIT, durable_execution
from aws_durable_execution_sdk_python.lambda_service import CheckpointOutput, CheckpointUpdatedExecutionState

logging.disable(logging.CRITICAL)
found = []
CASES = []
for label, exc in (("ValueError", ValueError), ("ExecutionError", ExecutionError)):
    CASES.append((label + " message above the limit", exc, "x" * (LAMBDA_RESPONSE_SIZE_LIMIT + 1000)))
    CASES.append((label + " message just under the limit (the envelope pushes the response over it)", exc, "x" * (LAMBDA_RESPONSE_SIZE_LIMIT - 10)))
    CASES.append((label + " message of quotes, half the limit (escaping doubles it)", exc, '"' * (LAMBDA_RESPONSE_SIZE_LIMIT // 2 + 100)))
for label, exc, text in CASES:
    sent = []

    class Client:
        def checkpoint(self, durable_execution_arn, checkpoint_token, updates, client_token=None):
            sent.extend(updates)
            return CheckpointOutput(checkpoint_token="t2", new_execution_state=CheckpointUpdatedExecutionState(operations=[], next_marker=None))

        def get_execution_state(self, *a, **k):
            raise AssertionError("no paging expected")

    @durable_execution
    def handler(event, context, exc=exc, text=text):
        raise exc(text)
    event = {"DurableExecutionArn": "arn:x", "CheckpointToken": "t1",
             "InitialExecutionState": {"Operations": [{"Id": "e", "Type": "EXECUTION", "Status": "STARTED", "ExecutionDetails": {"InputPayload": "{}"}}], "NextMarker": ""}}
    from aws_durable_execution_sdk_python import execution as ex_mod
    orig = ex_mod.LambdaClient.initialize_client
    ex_mod.LambdaClient.initialize_client = staticmethod(lambda: Client())
    try:
        ctx = Mock()
        ctx.aws_request_id = "r"
        ctx.get_remaining_time_in_millis = lambda: 100000
        out = handler(event, ctx)
    except BaseException as e:  # noqa: BLE001
        out = {"raised": repr(e)[:200]}
    finally:
        ex_mod.LambdaClient.initialize_client = orig
    size = len(json.dumps(out))
    recorded = [u for u in sent if u.operation_type.value == "EXECUTION" and u.action.value == "FAIL"]
    if size > LAMBDA_RESPONSE_SIZE_LIMIT or (out.get("Status") == "FAILED" and "Error" not in out and not recorded):
        found.append({"handler_raises": label, "response_chars": size, "limit": LAMBDA_RESPONSE_SIZE_LIMIT, "status": out.get("Status"), "execution_fail_records_sent": len(recorded)})
print(json.dumps({"confirmed": bool(found), "cases": found}))

"""Native replay of a wire-codec round trip: reads {"cls", "route", "input"} on stdin, runs the REAL to_dict/from_dict
(or to_json_dict/from_json_dict), and compares with the normal form N of property C20, written independently in plain Python."""
import dataclasses, datetime, json, sys, typing
sys.path.insert(0, __file__.rsplit("/", 2)[0])
from native.build import build, cls_of


def absent(v, opt, base):
    if not opt:
        return False
    if v is None:
        return True
    if base is str:
        return v == ""
    if dataclasses.is_dataclass(v):
        hints = typing.get_type_hints(type(v))
        return all(absent(getattr(v, f.name), *split(hints[f.name])) for f in dataclasses.fields(v))
    return False


def split(t):
    args = typing.get_args(t)
    if type(None) in args:
        non = [a for a in args if a is not type(None)]
        return True, non[0] if len(non) == 1 else t
    return False, t


def nequal(a, b, t, path, diffs):
    opt, base = split(t)
    aa, ab = absent(a, opt, base), absent(b, opt, base)
    if opt and (base is str or dataclasses.is_dataclass(base)) and a is None and b is not None:
        diffs.append(f"{path}: None -> {b!r} (only the omission of an empty string / empty details object is allowed, not the reverse)")
        return
    if aa or ab:
        if aa != ab:
            diffs.append(f"{path}: {a!r} -> {b!r}")
        return
    if dataclasses.is_dataclass(a) and type(a) is type(b):
        hints = typing.get_type_hints(type(a))
        for f in dataclasses.fields(a):
            nequal(getattr(a, f.name), getattr(b, f.name), hints[f.name], f"{path}.{f.name}", diffs)
        return
    if isinstance(a, datetime.datetime) and isinstance(b, datetime.datetime):
        if abs(a.timestamp() - b.timestamp()) >= 0.001:
            diffs.append(f"{path}: {a!r} -> {b!r}")
        return
    if isinstance(a, list) and isinstance(b, list) and len(a) == len(b) and typing.get_args(base):
        for i, (x, y) in enumerate(zip(a, b)):
            nequal(x, y, typing.get_args(base)[0], f"{path}[{i}]", diffs)
        return
    if type(a) is not type(b) or a != b:
        diffs.append(f"{path}: {a!r} -> {b!r}")


def main():
    req = json.load(sys.stdin)
    c = cls_of(req["cls"])
    o = build(req["input"])
    out = {"confirmed": False}
    if req.get("field") == "__wire_unchanged__":
        import copy
        wire = json.loads(json.dumps(o.to_json_dict())) if req["route"] == "json" else o.to_dict()
        before = copy.deepcopy(wire)
        try:
            (c.from_json_dict if req["route"] == "json" else c.from_dict)(wire)
            changed = repr(before) != repr(wire)
            print(json.dumps({"confirmed": changed, "wire_before": repr(before)[:500], "wire_after": repr(wire)[:500]}))
        except Exception as e:
            print(json.dumps({"confirmed": True, "diffs": [f"decode raised {e!r}"]}))
        return
    try:
        if req["route"] == "json":
            back = c.from_json_dict(json.loads(json.dumps(o.to_json_dict())))
        else:
            back = c.from_dict(o.to_dict())
        diffs = []
        root = req["cls"].rsplit(".", 1)[1]
        nequal(o, back, c, root, diffs)
        if req.get("field"):
            pre = f"{root}.{req['field']}"
            diffs = [d for d in diffs if d.startswith(pre + ":") or d.startswith(pre + ".") or d.startswith(pre + "[")]
        out = {"confirmed": bool(diffs), "diffs": diffs[:8], "input": repr(o)[:600], "output": repr(back)[:600]}
    except Exception as e:
        out = {"confirmed": True, "diffs": [f"round trip raised {e!r}"], "input": repr(o)[:600]}
    print(json.dumps(out))


main()

"""Bounded sanity checks (hypothesis, under /venv/bin/python) of the stdlib inverse-pair assumptions S used by C15 / C20, and a bounded
end-to-end run of the REAL default serializer on generated nested values (depth <= 3).  Labelled BOUNDED in the evidence; never counted as proved."""
import base64, datetime, json, sys, uuid
from decimal import Decimal
from hypothesis import given, settings, strategies as st, HealthCheck
from aws_durable_execution_sdk_python.serdes import serialize, deserialize
from aws_durable_execution_sdk_python.lambda_service import TimestampConverter

_raw = sys.stdin.read() if not sys.stdin.isatty() else ""
req = json.loads(_raw) if _raw.strip() else {}
N = int(req.get("examples", 300))
seed = int(req.get("seed", 0))
results, failures = {}, []
S = dict(max_examples=N, deadline=None, derandomize=True, suppress_health_check=list(HealthCheck), database=None)
prims = st.one_of(st.none(), st.booleans(), st.integers(), st.floats(allow_nan=False, allow_infinity=False), st.text())


def same(a, b):
    if type(a) is not type(b):
        return False
    if isinstance(a, (list, tuple)):
        return len(a) == len(b) and all(same(x, y) for x, y in zip(a, b))
    if isinstance(a, dict):
        return list(a.keys()) == list(b.keys()) and all(same(a[k], b[k]) for k in a)
    return a == b


def run(name, strat, prop):
    n = [0]

    @settings(**S)
    @given(strat)
    def t(x):
        n[0] += 1
        assert prop(x), x
    try:
        t()
        results[name] = n[0]
    except Exception as e:  # noqa: BLE001
        failures.append(f"{name}: {str(e)[:300]}")


run("json_primitives", st.recursive(prims, lambda c: st.lists(c, max_size=4), max_leaves=12), lambda x: same(json.loads(json.dumps(x, separators=(",", ":"))), x))
run("json_never_empty", prims, lambda x: len(json.dumps(x)) > 0)
run("json_str_keys", st.dictionaries(st.text(), prims, max_size=4), lambda d: same(json.loads(json.dumps(d)), d))
run("json_key_coercion", st.dictionaries(st.integers(), st.integers(), min_size=1, max_size=3), lambda d: all(isinstance(k, str) for k in json.loads(json.dumps(d))))
run("base64", st.binary(max_size=64), lambda b: base64.b64decode(base64.b64encode(b).decode("utf-8").encode("utf-8")) == b)
run("uuid", st.uuids(), lambda u: uuid.UUID(str(u)) == u)
run("decimal", st.decimals(allow_nan=False, allow_infinity=False), lambda d: Decimal(str(d)) == d and str(Decimal(str(d))) == str(d))
run("datetime_iso", st.datetimes(timezones=st.one_of(st.none(), st.just(datetime.UTC))), lambda t: datetime.datetime.fromisoformat(t.isoformat()) == t and not t.isoformat().endswith("Z"))
run("date_iso", st.dates(), lambda t: datetime.date.fromisoformat(t.isoformat()) == t)
run("fromtimestamp", st.integers(min_value=0, max_value=4_000_000_000_000), lambda ms: abs(datetime.datetime.fromtimestamp(ms / 1000, tz=datetime.UTC).timestamp() * 1000 - ms) < 1)
leaves = st.one_of(prims, st.binary(max_size=16), st.uuids(), st.decimals(allow_nan=False, allow_infinity=False), st.datetimes(timezones=st.just(datetime.UTC)), st.dates())
values = st.recursive(leaves, lambda c: st.one_of(st.lists(c, max_size=3), st.lists(c, max_size=3).map(tuple), st.dictionaries(st.text(max_size=3) | st.sampled_from(["t", "v"]), c, max_size=3)), max_leaves=10)
run("real_serializer_round_trip", values, lambda v: same(deserialize(None, serialize(None, v, "op", "arn"), "op", "arn"), v))
print(json.dumps({"ok": not failures, "examples_per_check": results, "failures": failures, "bound": f"{N} generated examples per check, nesting depth <= 3, derandomized"}))

"""Forced-schedule replay for C10.state.check_then_put_atomic on the REAL ExecutionState: a child's update passes the orphan test, then its
parent context completes (SUCCEED handed over) before the child's queue put happens - the child's update is enqueued AFTER its parent's
completion record.  The schedule is forced by wrapping the queue's put (no repository edit)."""
import json, os, sys, threading, logging
logging.disable(logging.CRITICAL)
from aws_durable_execution_sdk_python.identifier import OperationIdentifier
from aws_durable_execution_sdk_python.lambda_service import OperationSubType, OperationUpdate
from aws_durable_execution_sdk_python.state import ExecutionState


def main():
    st = ExecutionState("arn", "t0", {}, service_client=None)
    real_put = st._checkpoint_queue.put
    parent_done = threading.Event()
    order = []

    def slow_put(item):
        oid = item.operation_update.operation_id
        if oid == "child":
            t2.start()                 # the parent completes while the child sits between its orphan test and its put
            parent_done.wait(1.0)      # (with the put under the lock the parent cannot get in: we proceed after the timeout)
        order.append(oid + ":" + item.operation_update.action.value)
        real_put(item)
    st._checkpoint_queue.put = slow_put
    ctx = OperationIdentifier("ctx")
    st.create_checkpoint(OperationUpdate.create_context_start(ctx, OperationSubType.RUN_IN_CHILD_CONTEXT), is_sync=False)

    def complete_parent():
        try:
            st.create_checkpoint(OperationUpdate.create_context_succeed(ctx, "r", OperationSubType.RUN_IN_CHILD_CONTEXT), is_sync=False)
        finally:
            parent_done.set()
    t2 = threading.Thread(target=complete_parent, daemon=True)
    outcome = "accepted"
    try:
        st.create_checkpoint(OperationUpdate.create_step_start(OperationIdentifier("child", parent_id="ctx")), is_sync=False)
    except BaseException as e:  # noqa: BLE001
        outcome = type(e).__name__
    t2.join(3)
    bad = "ctx:SUCCEED" in order and "child:START" in order and order.index("child:START") > order.index("ctx:SUCCEED")
    print(json.dumps({"confirmed": bad, "enqueue_order": order, "child_outcome": outcome}))
    sys.stdout.flush()
    os._exit(0)


main()

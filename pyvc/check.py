"""Obligation bookkeeping, discharge, known findings, replay files, evidence, exit codes (DESIGN 2.11-2.14, 7)."""
from __future__ import annotations

import json
import os
import subprocess
import sys
import time
import traceback

import z3

from . import REPO, VERIF
from .values import Unsupported, simp

EXIT_HELD, EXIT_VIOLATION, EXIT_UNDECIDED, EXIT_FAULT = 0, 1, 2, 3


def load_known_findings():
    p = os.path.join(VERIF, "known_findings.json")
    if not os.path.exists(p):
        return []
    return json.load(open(p)).get("findings", [])


class Obligation:
    def __init__(self, name, desc=""):
        self.name, self.desc = name, desc
        self.vcs = 0
        self.discharged = 0
        self.refuted = []  # dicts: model, note, replay
        self.unknown = []
        self.solver_s = 0.0
        self.kind = "proved"  # or 'bounded'
        self.known = []  # known-finding ids matched
        self.backend = {}

    @property
    def verdict(self):
        if self.refuted:
            return "refuted"
        if self.unknown:
            return "unknown"
        if self.vcs == 0:
            return "vacuous"
        return "discharged"


class Check:
    def __init__(self, prop, tier="quick", seed=0):
        self.prop, self.tier, self.seed = prop, tier, seed
        self.t0 = time.time()
        self.obls = {}
        self.order = []
        self.functions = {}  # qualname -> mode
        self.assumptions = []
        self.trusted = []
        self.notes = []
        self.known = [f for f in load_known_findings() if f.get("property") == prop and not f.get("fixed")]
        self.known_printed = []
        self.violations = []
        self.undecided = []
        self.faults = []
        self.validated = 0
        self.paths = 0
        self.samples = []
        self.timeout_ms = 10_000 if tier == "quick" else 60_000
        self.bounded = []
        self.engine_stats = {}
        self.second = {"checked": 0, "agree": 0, "disagree": 0, "undecided": 0}

    # ------------------------------------------------------------------ registration
    def function(self, qualname, mode="verified"):
        self.functions[qualname] = mode

    def assume(self, text):
        if text not in self.assumptions:
            self.assumptions.append(text)

    def trust(self, text):
        if text not in self.trusted:
            self.trusted.append(text)

    def obligation(self, name, desc=""):
        if name not in self.obls:
            self.obls[name] = Obligation(name, desc)
            self.order.append(name)
        return self.obls[name]

    def known_region(self, obligation, region_id):
        """the known-findings entry for (obligation, region_id), or None"""
        for f in self.known:
            if f.get("obligation") == obligation and f.get("region") == region_id:
                return f
        return None

    # ------------------------------------------------------------------ discharge
    def solve(self, assertions, timeout_ms=None):
        """(result 'unsat'|'sat'|'unknown', model|None, seconds, backend)"""
        t0 = time.time()
        s = z3.Solver()
        s.set("timeout", timeout_ms or self.timeout_ms)
        s.add(*assertions)
        r = s.check()
        dt = time.time() - t0
        if r == z3.unsat:
            return "unsat", None, dt, "z3-5.1(api)"
        if r == z3.sat:
            return "sat", s.model(), dt, "z3-5.1(api)"
        # second opinion through SMT-LIB export
        smt = s.to_smt2()
        for cmd, tag in (["/usr/bin/z3", "-in", f"-T:{max(1, (timeout_ms or self.timeout_ms) // 1000)}"], "z3-4.8.12(cli)"), (["/usr/bin/cvc5", "--lang=smt2", "--strings-exp", f"--tlimit={timeout_ms or self.timeout_ms}"], "cvc5-1.0.3(cli)"):
            try:
                p = subprocess.run(cmd, input=smt, capture_output=True, text=True, timeout=(timeout_ms or self.timeout_ms) / 1000 + 5)
                out = p.stdout.strip().splitlines()[0] if p.stdout.strip() else ""
                if out == "unsat":
                    return "unsat", None, time.time() - t0, tag
            except Exception:
                pass
        return "unknown", None, time.time() - t0, "none"

    def prove(self, name, pc, goal, *, desc="", describe=None, replay=None, regions=None, sample=None, bounded=False, timeout_ms=None):
        """One verification condition of obligation `name`: pc => goal.
        regions: {region_id: z3 predicate} known-finding regions of the input space; the VC is proved on the
        complement of the regions listed in known_findings.json, and each listed region is confirmed to reproduce.
        describe(model) -> dict of concrete inputs for the replay file; replay(inputs) -> (confirmed: bool, text)."""
        ob = self.obligation(name, desc)
        if bounded:
            ob.kind = "bounded"
        ob.vcs += 1
        goal = simp(goal) if not isinstance(goal, bool) else z3.BoolVal(goal)
        excl = []
        active = {}
        for rid, pred in (regions or {}).items():
            f = self.known_region(name, rid)
            if f is not None:
                excl.append(z3.Not(pred))
                active[rid] = (f, pred)
        res, model, dt, be = self.solve(list(pc) + excl + [z3.Not(goal)], timeout_ms)
        ob.solver_s += dt
        ob.backend[be] = ob.backend.get(be, 0) + 1
        if res == "unsat":
            ob.discharged += 1
            if self.tier == "thorough":
                self.second_opinion(ob, list(pc) + excl + [z3.Not(goal)])
        elif res == "sat":
            inputs = describe(model) if describe else {"model": self.model_text(model)}
            entry = {"inputs": inputs, "model": self.model_text(model)}
            if replay is not None and not ob.refuted:
                try:
                    ok, text = replay(inputs)
                except Exception as e:  # replay harness fault: the violation is still reported
                    ok, text = False, f"replay harness error: {e!r}"
                entry["replay_confirmed"], entry["replay_output"] = ok, text
            ob.refuted.append(entry)
        else:
            ob.unknown.append({"note": "solver returned unknown / timeout", "seconds": dt})
        for rid, (f, pred) in active.items():
            r2, m2, dt2, _ = self.solve(list(pc) + [pred, z3.Not(goal)])
            ob.solver_s += dt2
            if r2 == "sat" and rid not in ob.known:
                ob.known.append(rid)
                line = f"KNOWN-FINDING: property={self.prop} {name} [{rid}] {f.get('what', '')}"
                if line not in self.known_printed:
                    self.known_printed.append(line)
        if sample is not None and len(self.samples) < 12:
            self.samples.append({"obligation": name, "vc": sample, "verdict": res, "seconds": round(dt, 4)})
        return res == "unsat"

    def second_opinion(self, ob, assertions):
        """thorough tier: every discharged VC is exported as SMT-LIB 2 and re-checked by an independent solver build (/usr/bin/z3 4.8.12);
        `sat` there is a solver disagreement -> checker fault (exit 3); unknown/timeout is recorded, not a verdict"""
        s = z3.Solver()
        s.add(*assertions)
        smt = s.to_smt2()
        try:
            p = subprocess.run(["/usr/bin/z3", "-in", "-T:20"], input=smt, capture_output=True, text=True, timeout=30)
            out = (p.stdout.strip().splitlines() or ["?"])[0]
        except Exception as e:  # noqa: BLE001
            out = f"error: {e!r}"
        self.second["checked"] += 1
        if out == "unsat":
            self.second["agree"] += 1
        elif out == "sat":
            self.second["disagree"] += 1
            self.faults.append(f"solver disagreement on {ob.name}: z3 5.1 says unsat, z3 4.8.12 says sat")
        else:
            self.second["undecided"] += 1

    def require_sat(self, name, pc, extra=(), desc=""):
        """vacuity / reachability guard: pc (and extra) must be satisfiable"""
        ob = self.obligation(name, desc)
        ob.vcs += 1
        res, _, dt, be = self.solve(list(pc) + list(extra))
        ob.solver_s += dt
        if res == "sat":
            ob.discharged += 1
            return True
        if res == "unsat":
            ob.refuted.append({"inputs": {}, "model": "", "note": "reachability guard failed: the precondition / case is unsatisfiable (vacuous contract)", "vacuity": True})
        else:
            ob.unknown.append({"note": "reachability guard undecided"})
        return False

    def canary(self, name, pc):
        """an obligation that MUST be refuted (assert False behind the precondition); proving it voids the run"""
        res, _, dt, _ = self.solve(list(pc) + [z3.BoolVal(True)])
        if res != "sat":
            self.faults.append(f"canary {name}: precondition unsatisfiable or undecided ({res}) - run is void")
        return res == "sat"

    def fault(self, text):
        self.faults.append(text)

    def undecide(self, text):
        self.undecided.append(text)

    @staticmethod
    def model_text(model):
        if model is None:
            return ""
        items = []
        for d in model.decls():
            n = d.name()
            if n.startswith("k!") or "!" in n and n.split("!")[0] in ("fstr", "stripped"):
                continue
            try:
                items.append(f"{n} = {model[d]}")
            except Exception:
                pass
        return "; ".join(sorted(items))[:4000]

    # ------------------------------------------------------------------ reporting
    def finish(self):
        wall = time.time() - self.t0
        evid_dir = os.environ.get("PYVC_EVIDENCE_DIR") or os.path.join(VERIF, "evidence")
        os.makedirs(evid_dir, exist_ok=True)
        replay_dir = os.path.join(os.environ.get("PYVC_REPLAY_DIR") or os.path.join(VERIF, "replays"), self.prop)
        lines = []
        n_obl = n_dis = 0
        n_bounded = 0
        obl_report = []
        violated = False
        for name in self.order:
            ob = self.obls[name]
            v = ob.verdict
            if ob.kind == "bounded":
                n_bounded += 1
            else:
                n_obl += 1
                if v == "discharged":
                    n_dis += 1
            obl_report.append({"obligation": name, "verdict": v, "vcs": ob.vcs, "vcs_discharged": ob.discharged, "kind": ob.kind, "solver_s": round(ob.solver_s, 3),
                               "backends": ob.backend, "known_findings": ob.known, "desc": ob.desc})
            if v == "refuted":
                violated = True
                os.makedirs(replay_dir, exist_ok=True)
                path = os.path.join(replay_dir, name.replace("/", "_") + ".json")
                first = ob.refuted[0]
                json.dump({"property": self.prop, "obligation": name, "description": ob.desc, "counterexamples": ob.refuted[:5], "solver": "z3 5.1 (python API)",
                           "tree": REPO}, open(path, "w"), indent=1, default=str)
                confirmed = first.get("replay_confirmed")
                suffix = "" if confirmed else " no-failing-input-found"
                lines.append(f"VIOLATION property={self.prop} replay={path}{suffix}")
                self.violations.append(name)
            elif v == "unknown":
                self.undecided.append(f"{name}: {ob.unknown[0]['note']}")
            elif v == "vacuous":
                self.faults.append(f"{name}: zero verification conditions generated")
        if n_obl == 0 and not self.faults and not self.undecided:
            self.faults.append("no obligations generated")
        for l in self.known_printed:
            print(l)
        for l in lines:
            print(l)
        for u in self.undecided:
            print(f"UNDECIDED property={self.prop} {u}")
        for f in self.faults:
            print(f"CHECKER-FAULT property={self.prop} {f}")
        from .calls import INLINED, SUMMARIZED
        for q in sorted(INLINED):
            if q not in self.functions:
                self.functions[q] = "executed (real body run symbolically, inlined at its call sites on the paths explored; covered by the callers' obligations)"
        for q in sorted(SUMMARIZED):
            if q not in self.functions:
                self.functions[q] = "contract used at call sites"
        coverage = {
            "obligations": n_obl, "discharged": n_dis,
            "checker_cmd": f"python3-vt -m pyvc check {self.prop} --tier {self.tier}",
            "trusted_base": self.trusted,
            "functions_under_contract": self.functions,
            "obligation_report": obl_report,
            "bounded_standins": self.bounded, "bounded_obligations": n_bounded,
            "paths_explored": self.paths,
            "traces_validated_against_impl": self.validated,
            "known_findings_printed": self.known_printed,
            "solver_seconds": round(sum(o.solver_s for o in self.obls.values()), 3),
            "engine_stats": self.engine_stats,
            "second_solver_recheck": dict(self.second, solver="/usr/bin/z3 4.8.12 via SMT-LIB2 export (thorough tier only)"),
            "samples": self.samples or [{"obligation": r["obligation"], "verdict": r["verdict"]} for r in obl_report[:8]],
            "notes": self.notes,
        }
        ev = {"property_id": self.prop, "tier": self.tier, "seed": self.seed, "level": "proof", "coverage": coverage,
              "assumptions": self.assumptions, "wall_s": round(wall, 2), "violations": len(self.violations)}
        json.dump(ev, open(os.path.join(evid_dir, f"{self.prop}.json"), "w"), indent=1, default=str)
        status = EXIT_FAULT if self.faults else EXIT_VIOLATION if violated else EXIT_UNDECIDED if self.undecided else EXIT_HELD
        print(f"[{self.prop}] obligations={n_obl} discharged={n_dis} bounded={n_bounded} violations={len(self.violations)} undecided={len(self.undecided)} "
              f"faults={len(self.faults)} known={len(self.known_printed)} paths={self.paths} validated={self.validated} wall={wall:.1f}s exit={status}")
        return status


# forced-schedule / boundary scenarios that once reproduced a genuine defect on the real code (known_findings.json, fixed entries):
# in the thorough tier they are run again on the CURRENT tree; a scenario that reproduces is reported as a violation of its property
NATIVE_REGRESSIONS = {
    "C06": [("lost_wakeup_replay.py", {}, "C06.produce.no_lost_wakeup.flag_before_drain")],
    "C10": [("orphan_race_replay.py", {}, "C10.state.check_then_put_atomic"), ("replay_orphan_replay.py", {}, "C10.state.history_links_registered"),
            ("replay_orphan_replay.py", {"paginated": True}, "C10.state.history_links_registered"),
            ("replay_orphan_replay.py", {"ready_step": True}, "C10.step.checked_before_user")],
    "C02": [("track_race_replay.py", {}, "C02.state.lock_discipline.operations")],
    "C17": [("track_race_replay.py", {}, "C17.state.lock_discipline.operations"), ("logger_replay.py", {}, "C17.lemma.boundary")],
    "C09": [("branch_publish_replay.py", {"transition": "complete"}, "C09.models.publish_order.complete"), ("branch_publish_replay.py", {"transition": "fail"}, "C09.models.publish_order.fail"),
            ("percentage_rounding_replay.py", {}, "C09.counters.exact_arithmetic.should_continue")],
}


def engine_selftest(chk):
    """conformance of the engine with CPython on the language subtleties behind earlier misses (tools/selftest_engine.py; < 1 s): an engine that
    excludes what CPython does is unsound, and nothing it 'proves' is reported"""
    if os.environ.get("PYVC_MATRIX_RUN") == "1":   # set only by tools/mutant_matrix.py (thousands of runs against scratch trees); never by a registered command
        return
    try:
        p_ = subprocess.run([sys.executable, os.path.join(VERIF, "tools", "selftest_engine.py")], capture_output=True, text=True, timeout=300)
        last = (p_.stdout.strip().splitlines() or [""])[-1]
        if p_.returncode != 0:
            chk.fault(f"engine conformance self-test failed: {p_.stdout[-400:]} {p_.stderr[-300:]}")
        else:
            chk.notes.append(last)
    except Exception as e:  # noqa: BLE001
        chk.fault(f"engine conformance self-test could not run: {e!r}")


def native_regressions(chk):
    try:  # the one syntactic rewrite of the extraction, executed natively next to the original (tools/selftest_normalise.py)
        p_ = subprocess.run([sys.executable, os.path.join(VERIF, "tools", "selftest_normalise.py")], capture_output=True, text=True, timeout=120)
        if p_.returncode != 0:
            chk.fault(f"normalisation self-test failed: {p_.stdout[-300:]} {p_.stderr[-300:]}")
        else:
            chk.notes.append(p_.stdout.strip().splitlines()[-1])
    except Exception as e:  # noqa: BLE001
        chk.fault(f"normalisation self-test could not run: {e!r}")
    for script, payload, obligation in NATIVE_REGRESSIONS.get(chk.prop, ()):
        name = f"{chk.prop}.native_regression.{script[:-3]}" + ("." + "_".join(f"{k}_{v}" for k, v in payload.items()) if payload else "")
        ob = chk.obligation(name, f"thorough tier cross-check (NOT a proof, bounded: one forced schedule): the scenario that once reproduced the defect behind {obligation} does not reproduce on the current tree")
        ob.kind = "bounded"
        ob.vcs += 1
        try:
            r = native(script, payload, timeout=180)
        except Exception as e:  # noqa: BLE001
            chk.fault(f"native regression {script} could not run: {e!r}")
            continue
        if r.get("confirmed"):
            ob.refuted.append({"inputs": {"script": script, "payload": payload}, "model": "", "replay_confirmed": True, "replay_output": r})
        else:
            ob.discharged += 1
            chk.validated += 1


class WallClockBudget(Exception):
    pass


def run_check(prop, fn, tier, seed):
    chk = Check(prop, tier, seed)
    budget = 600 if tier == "quick" else 5400   # the slowest check needs about 45 s (quick) / 4 min (thorough) on a loaded machine
    import signal

    def on_alarm(signum, frame):
        raise WallClockBudget()
    try:
        signal.signal(signal.SIGALRM, on_alarm)
        signal.alarm(budget)
    except (ValueError, AttributeError):
        pass
    try:
        engine_selftest(chk)
        fn(chk)
        if tier == "thorough":
            native_regressions(chk)
    except WallClockBudget:
        chk.undecide(f"wall-clock budget of {budget} s exceeded (path explosion on this code): nothing is claimed")
    except Unsupported as e:
        chk.undecide(f"unsupported construct: {e}")
        traceback.print_exc()
    except Exception as e:
        chk.fault(f"exception in checker: {e!r}")
        traceback.print_exc()
    try:
        signal.alarm(0)
    except (ValueError, AttributeError):
        pass
    return chk.finish()


def native(script, payload, timeout=120):
    """run a replay / cross-check script under the repository's interpreter; returns parsed JSON from stdout's last line"""
    env = dict(os.environ)
    env["PYTHONPATH"] = os.path.join(REPO, "src") + os.pathsep + VERIF
    p = subprocess.run(["/venv/bin/python", "-u", os.path.join(VERIF, "native", script)], input=json.dumps(payload), capture_output=True, text=True, timeout=timeout, env=env)
    out = p.stdout.strip().splitlines()
    if p.returncode != 0 or not out:
        raise RuntimeError(f"native {script} failed rc={p.returncode}: {p.stderr[-800:]}")
    return json.loads(out[-1])

"""Value model of the symbolic executor (DESIGN 2.4)."""
from __future__ import annotations

import itertools

import z3

ANY = z3.DeclareSort("Any")
DT = z3.DeclareSort("DateTime")
dt_ts = z3.Function("dt_ts", DT, z3.RealSort())  # seconds since the epoch, as a real (assumption A)
dt_off = z3.Function("dt_utcoffset", DT, z3.RealSort())  # utc offset of an aware datetime, seconds
any_truthy = z3.Function("any_truthy", ANY, z3.BoolSort())
STRSEQ = z3.SeqSort(z3.StringSort())

_counter = itertools.count()


def fresh_name(prefix):
    return f"{prefix}!{next(_counter)}"


_ENUM_SORTS = {}


def enum_sort(cls):
    """z3 EnumSort for an Enum class read from the source: (sort, {member: const}, {member: python value})"""
    if cls.key not in _ENUM_SORTS:
        members = cls.enum_members()
        tag = cls.key.replace(".", "_")
        sort, consts = z3.EnumSort(tag, [f"{tag}__{m}" for m, _ in members])  # constructor names must be unique across enums (SMT-LIB export)
        _ENUM_SORTS[cls.key] = (sort, dict(zip([m for m, _ in members], consts)), dict(members))
    return _ENUM_SORTS[cls.key]


class Sym:
    """symbolic scalar: kind in int|bool|real|str|any|dt|strlist|enum (then .cls is the ClassInfo)"""
    __slots__ = ("kind", "t", "cls")

    def __init__(self, kind, t, cls=None):
        self.kind, self.t, self.cls = kind, t, cls

    def __repr__(self):
        return f"Sym<{self.kind}:{self.t}>"


class MaybeUnbound:
    """a local variable bound on only one side of a merged `if`: bound iff cond holds (reading it otherwise raises UnboundLocalError)"""
    __slots__ = ("cond", "val")

    def __init__(self, cond, val):
        self.cond, self.val = cond, val

    def __repr__(self):
        return f"MaybeUnbound<{self.val!r}>"


class Opt:
    """value that may be None: none is a z3 Bool, val is the non-None alternative"""
    __slots__ = ("none", "val")

    def __init__(self, none, val):
        self.none, self.val = none, val

    def __repr__(self):
        return f"Opt({self.none}, {self.val})"


class Ref:
    """reference to a heap object; cls: ClassInfo | 'dict' | 'list' | 'set' | 'exc:<Name>' | 'symexc' | 'opaque:<name>'"""
    __slots__ = ("oid", "cls")

    def __init__(self, oid, cls):
        self.oid, self.cls = oid, cls

    def __repr__(self):
        return f"Ref#{self.oid}<{getattr(self.cls, 'name', self.cls)}>"

    def __eq__(self, o):
        return isinstance(o, Ref) and o.oid == self.oid

    def __hash__(self):
        return hash(self.oid)


class ClassRef:
    __slots__ = ("cls",)

    def __init__(self, cls):
        self.cls = cls

    def __repr__(self):
        return f"ClassRef<{self.cls.key}>"


class ExtRef:
    """external module / class / function, e.g. 'json', 'time.time', 'Exception'"""
    __slots__ = ("name",)

    def __init__(self, name):
        self.name = name

    def __repr__(self):
        return f"Ext<{self.name}>"

    def __eq__(self, o):
        return isinstance(o, ExtRef) and o.name == self.name

    def __hash__(self):
        return hash(self.name)


class FuncRef:
    __slots__ = ("f", "closure", "bound", "defcls")

    def __init__(self, f, closure=None, bound=None):
        self.f, self.closure, self.bound = f, closure, bound

    def __repr__(self):
        return f"FuncRef<{self.f.qualname}{' bound' if self.bound is not None else ''}>"


class BoundExt:
    """method of a builtin container / external object: (receiver value, method name)"""
    __slots__ = ("recv", "name")

    def __init__(self, recv, name):
        self.recv, self.name = recv, name

    def __repr__(self):
        return f"BoundExt<{self.recv}.{self.name}>"


class OpaqueFn:
    """opaque callable (user function, strategy, ...): calls are routed to the hooks of the check"""
    __slots__ = ("name", "info")

    def __init__(self, name, info=None):
        self.name, self.info = name, info

    def __repr__(self):
        return f"OpaqueFn<{self.name}>"


class Unsupported(Exception):
    """construct outside the supported subset: the function is undecided (exit 2), never a pass or a violation"""


class CannotMerge(Exception):
    pass


# ------------------------------------------------------------------------------------------------ z3 conversions
def is_sym(v, kind=None):
    return isinstance(v, Sym) and (kind is None or v.kind == kind)


def zbool(v):
    if isinstance(v, bool):
        return z3.BoolVal(v)
    if is_sym(v, "bool"):
        return v.t
    raise Unsupported(f"not a bool: {v!r}")


def zint(v):
    if isinstance(v, bool):
        return z3.IntVal(int(v))
    if isinstance(v, int):
        return z3.IntVal(v)
    if is_sym(v, "int"):
        return v.t
    if is_sym(v, "bool"):
        return z3.If(v.t, 1, 0)
    raise Unsupported(f"not an int: {v!r}")


def zreal(v):
    if isinstance(v, bool):
        return z3.RealVal(int(v))
    if isinstance(v, int):
        return z3.RealVal(v)
    if isinstance(v, float):
        if v == float("inf") or v != v or v == float("-inf"):
            raise Unsupported("non-finite float constant")
        return z3.RealVal(repr(v))
    if is_sym(v, "real"):
        return v.t
    if is_sym(v, "int"):
        return z3.ToReal(v.t)
    if is_sym(v, "bool"):
        return z3.If(v.t, z3.RealVal(1), z3.RealVal(0))
    raise Unsupported(f"not a real: {v!r}")


def zstr(v):
    if isinstance(v, str):
        return z3.StringVal(v)
    if is_sym(v, "str"):
        return v.t
    raise Unsupported(f"not a str: {v!r}")


def is_numeric(v):
    return isinstance(v, (int, float)) and not isinstance(v, bool) or is_sym(v, "int") or is_sym(v, "real") or isinstance(v, bool) or is_sym(v, "bool")


def is_realish(v):
    return isinstance(v, float) or is_sym(v, "real")


def is_concrete(v):
    return v is None or isinstance(v, (bool, int, float, str, bytes))


def fresh(kind, prefix, cls=None):
    n = fresh_name(prefix)
    if kind == "int":
        return Sym("int", z3.Int(n))
    if kind == "bool":
        return Sym("bool", z3.Bool(n))
    if kind == "real":
        return Sym("real", z3.Real(n))
    if kind == "str":
        return Sym("str", z3.String(n))
    if kind == "any":
        return Sym("any", z3.Const(n, ANY))
    if kind == "dt":
        return Sym("dt", z3.Const(n, DT))
    if kind == "strlist":
        return Sym("strlist", z3.Const(n, STRSEQ))
    if kind == "enum":
        return Sym("enum", z3.Const(n, enum_sort(cls)[0]), cls)
    raise Unsupported(kind)


def enum_member(cls, member):
    return Sym("enum", enum_sort(cls)[1][member], cls)


def simp(t):
    return z3.simplify(t)

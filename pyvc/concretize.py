"""Projection of a z3 model onto the symbolic inputs of a function: JSON description of concrete inputs that
native/build.py turns into real objects of the repository's classes (DESIGN 2.11)."""
from __future__ import annotations

import z3

from .loader import ClassInfo
from .values import ClassRef, ExtRef, FuncRef, OpaqueFn, Opt, Ref, Sym, dt_ts, enum_sort


def ev(model, t):
    return model.eval(t, model_completion=True)


def z3_to_py(val):
    if z3.is_int_value(val):
        return val.as_long()
    if z3.is_rational_value(val):
        n, d = val.numerator_as_long(), val.denominator_as_long()
        return n / d if d != 1 else float(n)
    if z3.is_true(val):
        return True
    if z3.is_false(val):
        return False
    if z3.is_string_value(val):
        return val.as_string()
    if z3.is_algebraic_value(val):
        return float(val.approx(10).as_fraction())
    return str(val)


def concretize(v, model, st, depth=0):
    if v is None or isinstance(v, (bool, int, float, str)):
        return v
    if isinstance(v, tuple):
        return {"__tuple__": [concretize(x, model, st, depth + 1) for x in v]}
    if isinstance(v, Opt):
        if z3.is_true(ev(model, v.none)):
            return None
        return concretize(v.val, model, st, depth)
    if isinstance(v, Sym):
        if v.kind == "enum":
            val = ev(model, v.t)
            for m, c in enum_sort(v.cls)[1].items():
                if z3.eq(val, c):
                    return {"__enum__": v.cls.key, "member": m}
            return {"__enum__": v.cls.key, "member": str(val)}
        if v.kind == "dt":
            from .values import dt_off
            return {"__dt__": z3_to_py(ev(model, dt_ts(v.t))), "off": z3_to_py(ev(model, dt_off(v.t)))}
        if v.kind == "any":
            return {"__any__": str(ev(model, v.t))}
        if v.kind == "strlist":
            val = ev(model, v.t)
            n = ev(model, z3.Length(v.t)).as_long()
            return [z3_to_py(ev(model, v.t[i])) for i in range(n)]
        return z3_to_py(ev(model, v.t))
    if isinstance(v, Ref):
        if v.oid not in st.heap:
            return {"__ref__": v.oid}
        stor = st.get(v)
        if isinstance(v.cls, ClassInfo):
            return {"__cls__": v.cls.key, "fields": {k: concretize(x, model, st, depth + 1) for k, x in stor.items() if not k.startswith("__")}}
        k = stor.get("__kind__")
        if k == "dict":
            return {"__dict__": {str(kk): concretize(x, model, st, depth + 1) for kk, (p, x) in stor["e"].items() if z3.is_true(ev(model, p))}}
        if k in ("list", "tuple", "set"):
            return [concretize(x, model, st, depth + 1) for x in stor["items"]]
        if k == "glist":
            n = ev(model, stor["len"]).as_long()
            return {"__glist__": n, "elem": concretize(stor["elem"], model, st, depth + 1)}
        if v.cls == "symexc":
            isa = {key: bool(z3.is_true(ev(model, a))) for key, (a, _) in stor["__isa__"].items()}
            return {"__symexc__": isa, "msg": concretize(stor["__msg__"], model, st), "typename": concretize(stor["__typename__"], model, st)}
        if isinstance(v.cls, str) and v.cls.startswith("exc:"):
            return {"__exc__": v.cls[4:], "args": [concretize(a, model, st, depth + 1) for a in stor.get("args", ())]}
        return {"__opaque__": str(v.cls)}
    if isinstance(v, (ClassRef, ExtRef, FuncRef, OpaqueFn)):
        return {"__callable__": repr(v)}
    return {"__unknown__": repr(v)}

"""Expression evaluation (mixin of Engine).  Every evaluator returns a list of (kind, value, state) with
kind 'val' or 'raise'; states in one list are pairwise independent."""
from __future__ import annotations

import ast

import z3

from . import ops
from .loader import ClassInfo
from .ops import F, T, is_none, mk_opt, strip_opt, truth
from .values import (BoundExt, CannotMerge, ClassRef, ExtRef, FuncRef, MaybeUnbound, OpaqueFn, Opt, Ref, Sym, Unsupported, enum_member, enum_sort,
                     fresh, is_concrete, is_sym, simp, zint, zstr)


class ExprMixin:
    # ------------------------------------------------------------------ helpers
    def branch(self, st, c):
        """[(taken: bool, state)] for the feasible sides of condition c (z3 Bool); forks only if both are"""
        c = simp(c)
        if z3.is_true(c):
            return [(True, st)]
        if z3.is_false(c):
            return [(False, st)]
        yes = self.feasible(st, c)
        no = self.feasible(st, z3.Not(c)) if yes else True  # pc is satisfiable on every explored path
        out = []
        if yes and no:
            s2 = st.fork()
            st.assume(c)
            s2.assume(simp(z3.Not(c)))
            return [(True, st), (False, s2)]
        if yes:
            st.assume(c)
            out.append((True, st))
        elif no:
            st.assume(simp(z3.Not(c)))
            out.append((False, st))
        return out

    def ev_seq(self, exprs, st, acc=()):
        if not exprs:
            return [("val", list(acc), st)]
        out = []
        for k, v, s in self.ev(exprs[0], st):
            if k == "raise":
                out.append((k, v, s))
            else:
                out.extend(self.ev_seq(exprs[1:], s, acc + (v,)))
        return out

    def then(self, results, fn):
        """monadic bind: apply fn(value, state) -> results to every 'val' result"""
        out = []
        for k, v, s in results:
            if k == "raise":
                out.append((k, v, s))
            else:
                out.extend(fn(v, s))
        return out

    def raise_ext(self, st, name, msg=""):
        ref = st.alloc("exc:" + name, {"args": (msg,), "__msg__": msg})
        return [("raise", ref, st)]

    def try_merge_results(self, base, c, r1, r2):
        """if both arms gave exactly one plain value and no new trace events, return a single merged result"""
        if not self.merging or len(r1) != 1 or len(r2) != 1 or r1[0][0] != "val" or r2[0][0] != "val":
            return None
        (_, v1, s1), (_, v2, s2) = r1[0], r2[0]
        return self.merge_states(base, c, s1, s2, [(v1, v2)])

    def merge_states(self, base, c, s1, s2, value_pairs):
        """returns ('val', [merged values], merged state) or None"""
        nb = len(base["trace"])
        if len(s1.trace) != nb or len(s2.trace) != nb or len(s1.frames) != len(s2.frames) or len(s1.exc_stack) != len(s2.exc_stack):
            return None
        if s1.ghost.keys() != s2.ghost.keys() or any(s1.ghost[k] is not s2.ghost[k] for k in s1.ghost):
            return None
        out = s1.fork()
        npc = len(base["pc"])
        out.pc = list(s1.pc[:npc])
        e1, e2 = s1.pc[npc:], s2.pc[npc:]
        try:
            vals = [ops.merge_values(c, a, b, s1, s2, out, base["heap"]) for a, b in value_pairs]
            for i, (f1, f2) in enumerate(zip(s1.frames, s2.frames)):
                nf = {}
                for k in set(f1) | set(f2):
                    if k in f1 and k in f2:
                        nf[k] = ops.merge_values(c, f1[k], f2[k], s1, s2, out, base["heap"])
                    elif k.startswith("__"):
                        nf[k] = f1[k] if k in f1 else f2[k]  # engine bookkeeping, not a program variable
                    else:
                        # a variable bound in one arm only: reading it later is an UnboundLocalError on the other arm (ev_Name splits the cases)
                        v_, bound = (f1[k], c) if k in f1 else (f2[k], z3.Not(c))
                        if isinstance(v_, MaybeUnbound):
                            v_, bound = v_.val, z3.And(bound, v_.cond)
                        nf[k] = MaybeUnbound(simp(bound), v_)
                out.frames[i] = nf
            for oid in set(s1.heap) | set(s2.heap):
                if oid in s1.heap and oid in s2.heap:
                    if s1.heap[oid] is not s2.heap[oid]:
                        out.heap[oid] = ops.merge_storage(c, s1.heap[oid], s2.heap[oid], s1, s2, out, base["heap"])
                elif oid in s2.heap:
                    out.heap[oid] = s2.heap[oid]
        except CannotMerge:
            return None
        if e1:
            out.pc.append(simp(z3.Implies(c, z3.And(e1))))
        if e2:
            out.pc.append(simp(z3.Implies(z3.Not(c), z3.And(e2))))
        self.stats["merges"] += 1
        return ("val", vals, out)

    def snapshot(self, st):
        return {"pc": list(st.pc), "trace": list(st.trace), "heap": dict(st.heap)}

    # ------------------------------------------------------------------ expressions
    def ev(self, e, st):
        m = getattr(self, "ev_" + type(e).__name__, None)
        if m is None:
            raise Unsupported(f"expression {type(e).__name__}: {ast.unparse(e)[:80]}")
        return m(e, st)

    def ev_Constant(self, e, st):
        if e.value is Ellipsis:
            return [("val", None, st)]
        return [("val", e.value, st)]

    def ev_Name(self, e, st):
        v = self.lookup(e.id, st, allow_maybe_unbound=True)
        if isinstance(v, MaybeUnbound):
            out = []
            for bound, s in self.branch(st, v.cond):
                if bound:
                    s.env[e.id] = v.val
                    out.append(("val", v.val, s))
                else:
                    out.extend(self.raise_ext(s, "UnboundLocalError", e.id))
            return out
        return [("val", v, st)]

    def lookup(self, name, st, allow_maybe_unbound=False):
        v = self._lookup(name, st)
        if isinstance(v, MaybeUnbound) and not allow_maybe_unbound:
            raise Unsupported(f"variable {name} is bound on only one side of an earlier `if` and is read where the two cases cannot be split")
        return v

    def _lookup(self, name, st):
        for fr in (st.env,):
            if name in fr:
                return fr[name]
        clo = st.env.get("__closure__")
        while clo is not None:
            # a closure captures the VARIABLE: its value is the current binding in the defining frame while that call is live, the last
            # binding it had when the call ended, and only otherwise (module-level lambdas, frames without an id) the snapshot taken at the def
            fid = clo.get("__frame_id__")
            if fid is not None:
                live = next((fr for fr in reversed(st.frames[:-1]) if fr.get("__frame_id__") == fid), None)
                if live is None:
                    live = st.ghost.get("__dead_frames__", {}).get(fid)
                if live is not None and name in live:
                    return live[name]
            if name in clo:
                return clo[name]
            owner = clo.get("__funcinfo__")
            if owner is not None:  # name bound in the defining frame after the def was executed: look at the live frame
                for fr in reversed(st.frames[:-1]):
                    if fr.get("__funcinfo__") is owner and name in fr:
                        return fr[name]
            clo = clo.get("__closure__")
        mod = st.env.get("__module__")
        if mod is not None:
            r = self.program.resolve_name(mod, name)
            if r is not None:
                return self.ns_value(r, name, st)
        if name in self.BUILTIN_NAMES:
            return ExtRef(name)
        raise Unsupported(f"unresolved name {name}")

    def ns_value(self, r, name, st):
        if r[0] == "class":
            return ClassRef(r[1])
        if r[0] == "func":
            return FuncRef(r[1])
        if r[0] in ("extmod", "ext"):
            return ExtRef(r[1])
        if r[0] == "const":
            key = (r[2].name, name)
            if key in self.const_overrides:
                return self.const_overrides[key](self, st)
            cache = st.ghost.get("__module_objects__", {})
            if key in cache:
                return cache[key]
            v = self.eval_const(r[1], r[2], st)
            if isinstance(v, Ref):
                # a module-level object exists once: every read on this path sees the same object.  A module-level container would carry
                # state from one call (and one invocation in a warm sandbox) to the next, which a per-call contract cannot see: rejected
                if isinstance(v.cls, str) and not v.cls.startswith("opaque:"):
                    raise Unsupported(f"module-level mutable container {key[0]}.{name} (state shared between calls is not modelled)")
                st.ghost["__module_objects__"] = {**cache, key: v}
            return v
        raise Unsupported(f"name {name} -> {r[0]}")

    def eval_const(self, node, module, st):
        """module-level constant: evaluated in an empty frame of that module (must be pure and single-path)"""
        st.frames.append({"__module__": module})
        try:
            res = self.ev(node, st)
        finally:
            st.frames.pop()
        if len(res) != 1 or res[0][0] != "val":
            raise Unsupported(f"module constant not single-valued: {ast.unparse(node)[:60]}")
        return res[0][1]

    def class_attr_value(self, ca, name, st):
        """value of a class-level attribute.  It is evaluated once, when the class is created, and the ONE object is shared by the class and
        all its instances; re-evaluating the expression at each read is only faithful for immutable values, so a heap object is rejected"""
        v = self.eval_const(ca[0], ca[1].module, st)
        if isinstance(v, Ref):
            raise Unsupported(f"class-level attribute {ca[1].key}.{name} is a mutable object shared by all instances (not modelled)")
        return v

    def ev_NamedExpr(self, e, st):
        def f(v, s):
            s.env[e.target.id] = v
            return [("val", v, s)]
        return self.then(self.ev(e.value, st), f)

    def ev_JoinedStr(self, e, st):
        parts = [v.value if isinstance(v, ast.FormattedValue) else v for v in e.values]

        def f(vals, s):
            pieces = []
            raised = []
            for node, v in zip(e.values, vals):
                if isinstance(node, ast.FormattedValue) and node.format_spec is not None:
                    for exc, cond in self.format_spec_failure(node, v, s):
                        alive = None
                        for taken, s_ in self.branch(s, cond):
                            if taken:
                                raised.extend(self.raise_ext(s_, exc, "format specification does not apply to the value"))
                            else:
                                alive = s_
                        if alive is None:
                            return raised
                        s = alive
            if raised:
                return raised + [("val", fresh("str", "fstr"), s)]
            for node, v in zip(e.values, vals):
                if isinstance(node, ast.FormattedValue) and (node.conversion != -1 or node.format_spec is not None):
                    return [("val", fresh("str", "fstr"), s)]
                p = self.to_str(v, s)
                if p is None:
                    return [("val", fresh("str", "fstr"), s)]
                pieces.append(p)
            if all(isinstance(p, str) for p in pieces):
                return [("val", "".join(pieces), s)]
            return [("val", Sym("str", simp(z3.Concat([zstr(p) for p in pieces]) if len(pieces) > 1 else zstr(pieces[0]))), s)]
        return self.then(self.ev_seq(parts, st), f)

    def format_spec_failure(self, node, v, st):
        """f'{v:SPEC}': (exception name, condition) when format(v, SPEC) raises, else None.  Presentation types are type-specific:
        d/x/o/b/c/n accept only integers (a float raises ValueError - unlike '%d', which truncates), e/f/g/% accept numbers, s accepts
        strings; None accepts no non-empty specification (TypeError).  A conversion (!r, !s, !a) makes the value a string first."""
        spec = node.format_spec
        if not (isinstance(spec, ast.JoinedStr) and all(isinstance(x, ast.Constant) for x in spec.values)):
            raise Unsupported("computed format specification")
        text = "".join(str(x.value) for x in spec.values)
        if not text:
            return []
        ty = text[-1] if text[-1].isalpha() or text[-1] == "%" else ""
        if node.conversion != -1:
            kinds = {"str": T}
        else:
            inner = v.val if isinstance(v, Opt) else v
            none = is_none(v)
            if isinstance(inner, bool) or isinstance(inner, int) or is_sym(inner, "int") or is_sym(inner, "bool"):
                k = "int"
            elif isinstance(inner, float) or is_sym(inner, "real"):
                k = "real"
            elif isinstance(inner, str) or is_sym(inner, "str"):
                k = "str"
            elif inner is None:
                k = "none"
            else:
                raise Unsupported(f"format specification {text!r} applied to a value of unknown type")
            kinds = {k: simp(z3.Not(none)), "none": none} if k != "none" else {"none": T}
        accepts = {"": ("int", "real", "str"), "s": ("str",)}
        for c_ in "dxXobcn":
            accepts[c_] = ("int",)
        for c_ in "eEfFgG%":
            accepts[c_] = ("int", "real")
        if ty not in accepts:
            raise Unsupported(f"format presentation type {ty!r}")
        bad_value = simp(z3.Or([c for k, c in kinds.items() if k != "none" and k not in accepts[ty]] or [F]))
        bad_none = simp(kinds.get("none", F))
        return [(exc, c) for exc, c in (("TypeError", bad_none), ("ValueError", bad_value)) if not z3.is_false(c)]

    def to_str(self, v, st):
        """str(v) for scalars; None if the text is not modelled (caller uses a fresh string)"""
        if isinstance(v, str):
            return v
        if isinstance(v, bool) or v is None:
            return str(v)
        if isinstance(v, int):
            return str(v)
        if is_sym(v, "str"):
            return v
        if is_sym(v, "int"):
            return Sym("str", ops.int_to_str(v.t))
        if isinstance(v, Opt):
            inner = self.to_str(v.val, st)
            if inner is None:
                return None
            return Sym("str", z3.If(v.none, z3.StringVal("None"), zstr(inner)))
        if isinstance(v, Ref) and (v.cls == "symexc" or (isinstance(v.cls, str) and v.cls.startswith("exc:")) or (isinstance(v.cls, ClassInfo) and v.cls.is_exception)):
            return self.exc_message(v, st)
        return None

    def exc_message(self, ref, st):
        s = st.get(ref)
        if ref.cls == "exc:KeyError":
            # str(KeyError(k)) is repr(k) - "'a'" for the key 'a' - not the key itself
            a_ = s.get("args", ())
            if len(a_) == 1 and (isinstance(a_[0], (str, int)) or a_[0] is None):
                return repr(a_[0])
            return "" if len(a_) == 0 else None
        if isinstance(ref.cls, ClassInfo) and ref.cls.find_method("__str__") is not None:
            return None                     # a user-defined __str__: the text is not modelled here (callers use an unconstrained string)
        if "__msg__" in s:
            return s["__msg__"]
        args = s.get("args", ())
        if len(args) == 1:
            m = args[0]
            if isinstance(m, str) or is_sym(m, "str"):
                return m
            if m is None:
                return "None"
            if isinstance(m, Opt) and (isinstance(m.val, str) or is_sym(m.val, "str")):
                return Sym("str", z3.If(m.none, z3.StringVal("None"), zstr(m.val)))
        if len(args) == 0:
            return ""
        return None

    def ev_Attribute(self, e, st):
        return self.then(self.ev(e.value, st), lambda o, s: self.getattr_(o, e.attr, s))

    def getattr_(self, o, name, st):
        if isinstance(o, Opt):
            out = []
            for none, s in self.branch(st, o.none):
                if none:
                    out.extend(self.raise_ext(s, "AttributeError", f"'NoneType' object has no attribute '{name}'"))
                else:
                    out.extend(self.getattr_(o.val, name, s))
            return out
        if o is None:
            return self.raise_ext(st, "AttributeError", f"'NoneType' object has no attribute '{name}'")
        if isinstance(o, Ref):
            if isinstance(o.cls, ClassInfo):
                stor = st.get(o)
                if name in stor:
                    return [("val", stor[name], st)]
                m = o.cls.find_method(name)
                if m is not None:
                    if "property" in m.decorators:
                        return self.call_func(m, [o], {}, st)
                    if "staticmethod" in m.decorators:
                        return [("val", FuncRef(m), st)]
                    if "classmethod" in m.decorators:
                        return [("val", FuncRef(m, bound=ClassRef(o.cls)), st)]
                    return [("val", FuncRef(m, bound=o), st)]
                ca = o.cls.find_class_attr(name)
                if ca is not None:
                    return [("val", self.class_attr_value(ca, name, st), st)]
                if o.cls.is_exception and name == "args":
                    return [("val", stor.get("args", ()), st)]
                if name == "__class__":
                    return [("val", ClassRef(o.cls), st)]
                if name in o.cls.assigned_fields() and not o.cls.is_dataclass and st.env.get("__init_of__") != o.oid:
                    # the real objects of this class HAVE this field (some method assigns it); a symbolic object of a contract that lacks it is an
                    # incomplete model, and an AttributeError here would be an artefact of the check, not a behaviour of the code
                    raise Unsupported(f"the symbolic {o.cls.name} of this contract has no field {name!r} although the class assigns it: the contract does not cover code that reads it")
                return self.raise_ext(st, "AttributeError", name)
            if isinstance(o.cls, str) and o.cls.startswith("opaque:"):
                return self.hooks.opaque_attr(self, st, o, name)
            if o.cls == "symexc" or (isinstance(o.cls, str) and o.cls.startswith("exc:")):
                stor = st.get(o)
                if name in stor:
                    return [("val", stor[name], st)]
                if name == "__class__":
                    return [("val", ("typeof", o), st)]
                return self.hooks.exc_attr(self, st, o, name)
            return [("val", BoundExt(o, name), st)]
        if isinstance(o, ClassRef):
            c = o.cls
            if c.is_enum and name in dict(c.enum_members()):
                return [("val", enum_member(c, name), st)]
            m = c.find_method(name)
            if m is not None:
                if "classmethod" in m.decorators:
                    return [("val", FuncRef(m, bound=o), st)]
                return [("val", FuncRef(m), st)]
            ca = c.find_class_attr(name)
            if ca is not None:
                return [("val", self.class_attr_value(ca, name, st), st)]
            if name == "__name__":
                return [("val", c.name, st)]
            raise Unsupported(f"class attribute {c.key}.{name}")
        if isinstance(o, ExtRef):
            return [("val", ExtRef(o.name + "." + name), st)]
        if isinstance(o, Sym):
            if o.kind == "enum":
                sort, consts, vals = enum_sort(o.cls)
                if name == "value":
                    for mname, cst in consts.items():
                        if z3.eq(simp(o.t), cst):
                            return [("val", vals[mname], st)]
                    sample = next(iter(vals.values()))
                    if all(isinstance(v, str) for v in vals.values()):
                        t = z3.StringVal("?")
                        for mname, cst in consts.items():
                            t = z3.If(o.t == cst, z3.StringVal(vals[mname]), t)
                        return [("val", Sym("str", simp(t)), st)]
                    raise Unsupported(f"enum value of non-string enum {o.cls.key} ({sample!r})")
                if name == "name":
                    for mname, cst in consts.items():
                        if z3.eq(simp(o.t), cst):
                            return [("val", mname, st)]
                    t = z3.StringVal("?")
                    for mname, cst in consts.items():
                        t = z3.If(o.t == cst, z3.StringVal(mname), t)
                    return [("val", Sym("str", simp(t)), st)]
                m = o.cls.find_method(name)
                if m is not None:
                    return [("val", FuncRef(m, bound=o), st)]
            return [("val", BoundExt(o, name), st)]
        if isinstance(o, (str, tuple)):
            return [("val", BoundExt(o, name), st)]
        if isinstance(o, tuple) and o and o[0] == "typeof":
            pass
        if isinstance(o, FuncRef):
            attrs = st.ghost.get("__func_attrs__", {}).get(id(o), {})
            if name in attrs:
                return [("val", attrs[name], st)]
            if name == "__name__":
                return [("val", o.f.name, st)]
            return self.raise_ext(st, "AttributeError", name)
        if isinstance(o, OpaqueFn):
            return self.hooks.opaque_fn_attr(self, st, o, name)
        raise Unsupported(f"attribute {name} of {o!r}")

    def ev_Tuple(self, e, st):
        return self.then(self.ev_seq(e.elts, st), lambda vals, s: [("val", tuple(vals), s)])

    def ev_List(self, e, st):
        return self.then(self.ev_seq(e.elts, st), lambda vals, s: [("val", s.alloc("list", {"__kind__": "list", "items": tuple(vals)}), s)])

    def ev_Set(self, e, st):
        return self.then(self.ev_seq(e.elts, st), lambda vals, s: [("val", s.alloc("set", {"__kind__": "set", "items": self.set_items(vals, s)}), s)])

    def set_items(self, vals, st):
        """members of a set built from vals: equal values are ONE member.  Two members whose equality the path condition does not decide
        would make the size of the set path-dependent: rejected"""
        out = []
        for v in vals:
            dup = False
            for w in out:
                eq = simp(ops.values_equal(st, v, w))
                if z3.is_true(eq):
                    dup = True
                    break
                if not z3.is_false(eq):
                    if not self.feasible(st, eq):
                        continue
                    if not self.feasible(st, z3.Not(eq)):
                        dup = True
                        break
                    raise Unsupported("set with members that may or may not be equal")
            if not dup:
                out.append(v)
        return tuple(out)

    def ev_Dict(self, e, st):
        if any(k is None for k in e.keys):
            # {**a, **b}: only for closed dicts with concrete keys
            def g(vals, s):
                ent = {}
                for k, v in zip(e.keys, vals):
                    if k is None:
                        if v is None or (isinstance(v, Ref) and v.cls == "dict"):
                            if v is not None:
                                src = s.get(v)
                                if src["open"]:
                                    raise Unsupported("** of open dict")
                                for kk, (p, vv) in src["e"].items():
                                    if kk in ent and not z3.is_true(p):
                                        raise Unsupported("** merge of maybe-present key")
                                    ent[kk] = (p, vv)
                        else:
                            raise Unsupported("** of non-dict")
                return [("val", s.alloc("dict", {"__kind__": "dict", "e": ent, "open": False}), s)]
            if all(k is None for k in e.keys):
                return self.then(self.ev_seq(e.values, st), g)
            raise Unsupported("mixed ** dict literal")

        def f(vals, s):
            n = len(e.keys)
            ks, vs = vals[:n], vals[n:]
            ent = {}
            for k, v in zip(ks, vs):
                if not is_concrete(k):
                    raise Unsupported("dict literal with symbolic key")
                ent[k] = (T, v)
            return [("val", s.alloc("dict", {"__kind__": "dict", "e": ent, "open": False}), s)]
        return self.then(self.ev_seq(list(e.keys) + list(e.values), st), f)

    def ev_UnaryOp(self, e, st):
        def f(v, s):
            if isinstance(e.op, ast.Not):
                t = simp(z3.Not(truth(s, v)))
                return [("val", True if z3.is_true(t) else False if z3.is_false(t) else Sym("bool", t), s)]
            if isinstance(e.op, ast.USub):
                if isinstance(v, (int, float)):
                    return [("val", -v, s)]
                return [("val", ops.binop(s, ast.Sub(), 0, v), s)]
            raise Unsupported("unary op")
        return self.then(self.ev(e.operand, st), f)

    def ev_BoolOp(self, e, st):
        is_and = isinstance(e.op, ast.And)

        def go(i, s):
            def f(v, s1):
                if i == len(e.values) - 1:
                    return [("val", v, s1)]
                t = simp(truth(s1, v))
                stop = simp(z3.Not(t)) if is_and else t  # condition under which v is the result
                if z3.is_true(stop):
                    return [("val", v, s1)]
                if z3.is_false(stop):
                    return go(i + 1, s1)
                can_stop = self.feasible(s1, stop)
                can_go = self.feasible(s1, z3.Not(stop)) if can_stop else True
                if can_stop and not can_go:
                    s1.assume(stop)
                    return [("val", v, s1)]
                if can_go and not can_stop:
                    s1.assume(simp(z3.Not(stop)))
                    return go(i + 1, s1)
                if not can_stop and not can_go:
                    return []
                base = self.snapshot(s1)
                sa, sb = s1.fork(), s1
                sa.assume(stop)
                sb.assume(simp(z3.Not(stop)))
                ra, rb = [("val", v, sa)], go(i + 1, sb)
                m = self.try_merge_results(base, stop, ra, rb)
                if m is not None:
                    return [("val", m[1][0], m[2])]
                return ra + rb
            return self.then(self.ev(e.values[i], s), f)
        return go(0, st)

    def ev_IfExp(self, e, st):
        def f(v, s):
            c = simp(truth(s, v))
            if z3.is_true(c):
                return self.ev(e.body, s)
            if z3.is_false(c):
                return self.ev(e.orelse, s)
            yes = self.feasible(s, c)
            no = self.feasible(s, z3.Not(c)) if yes else True
            if yes and not no:
                s.assume(c)
                return self.ev(e.body, s)
            if no and not yes:
                s.assume(simp(z3.Not(c)))
                return self.ev(e.orelse, s)
            if not yes and not no:
                return []
            base = self.snapshot(s)
            sa, sb = s.fork(), s
            sa.assume(c)
            sb.assume(simp(z3.Not(c)))
            ra, rb = self.ev(e.body, sa), self.ev(e.orelse, sb)
            m = self.try_merge_results(base, c, ra, rb)
            if m is not None:
                return [("val", m[1][0], m[2])]
            return ra + rb
        return self.then(self.ev(e.test, st), f)

    def ev_Compare(self, e, st):
        def f(vals, s):
            res_t = T
            left = vals[0]
            for op, right in zip(e.ops, vals[1:]):
                self.hooks.on_compare(self, s, e, op, left, right)
                r = self.compare_op(op, left, right, s)
                res_t = z3.And(res_t, r if not isinstance(r, bool) else z3.BoolVal(r)) if not isinstance(r, Sym) else z3.And(res_t, r.t)
                left = right
            res_t = simp(res_t)
            return [("val", True if z3.is_true(res_t) else False if z3.is_false(res_t) else Sym("bool", res_t), s)]
        return self.then(self.ev_seq([e.left] + list(e.comparators), st), f)

    def compare_op(self, op, a, b, st):
        if isinstance(op, (ast.In, ast.NotIn)):
            r = self.contains(b, a, st)
            return simp(z3.Not(r)) if isinstance(op, ast.NotIn) else r
        if not isinstance(op, (ast.Eq, ast.NotEq, ast.Is, ast.IsNot)):
            a, b = self.unopt(st, a), self.unopt(st, b)
            if isinstance(a, Opt) or isinstance(b, Opt) or a is None or b is None:
                raise Unsupported("ordering comparison with a possibly-None operand")
        return ops.compare(st, op, a, b)

    def contains(self, container, item, st):
        """z3 Bool: item in container"""
        if isinstance(container, Opt):
            container = container.val  # TypeError on None not modelled here; callers guard
        if isinstance(container, Ref):
            s = st.get(container)
            k = s.get("__kind__")
            if k in ("list", "set", "tuple"):
                return simp(z3.Or([ops.values_equal(st, item, x) for x in s["items"]])) if s["items"] else F
            if k == "dict":
                if is_concrete(item):
                    if item in s["e"]:
                        return s["e"][item][0]
                    if not s["open"]:
                        return F
                    return self.hooks.open_dict_has(self, st, container, item)
                if not s["open"]:
                    return simp(z3.Or([z3.And(p, ops.values_equal(st, item, kk)) for kk, (p, _) in s["e"].items()])) if s["e"] else F
            if k in self.container_models:
                return self.container_models[k].contains(self, st, container, item)
        if isinstance(container, tuple):
            return simp(z3.Or([ops.values_equal(st, item, x) for x in container])) if container else F
        if isinstance(container, str) or is_sym(container, "str"):
            return simp(z3.Contains(zstr(container), zstr(item)))
        raise Unsupported(f"`in` on {container!r}")

    def ev_BinOp(self, e, st):
        if isinstance(e.op, ast.BitOr):  # type unions in isinstance: str | int | float
            def u(vals, s):
                flat = []
                for v in vals:
                    flat.extend(v if isinstance(v, tuple) else [v])
                if all(isinstance(x, (ExtRef, ClassRef)) for x in flat):
                    return [("val", tuple(flat), s)]
                raise Unsupported("bitwise or")
            return self.then(self.ev_seq([e.left, e.right], st), u)
        def bo(vals, s):
            a, b = self.unopt(s, vals[0]), self.unopt(s, vals[1])
            if isinstance(e.op, (ast.Div, ast.FloorDiv, ast.Mod)) and not isinstance(a, str) and not is_sym(a, "str"):
                # x / 0, x // 0, x % 0 raise ZeroDivisionError (z3's division is total: the case must be split off explicitly)
                if isinstance(b, (int, float)) and not isinstance(b, bool):
                    if b == 0:
                        return self.raise_ext(s, "ZeroDivisionError", "division by zero")
                elif is_sym(b, "int") or is_sym(b, "real"):
                    out = []
                    alive = None
                    for zero, s_ in self.branch(s, b.t == 0):
                        if zero:
                            out.extend(self.raise_ext(s_, "ZeroDivisionError", "division by zero"))
                        else:
                            alive = s_
                    if alive is None:
                        return out
                    r = ops.binop(alive, e.op, a, b)
                    self.hooks.on_binop(self, alive, e, a, b, r)
                    return out + [("val", r, alive)]
            r = ops.binop(s, e.op, a, b)
            self.hooks.on_binop(self, s, e, a, b, r)
            return [("val", r, s)]
        return self.then(self.ev_seq([e.left, e.right], st), bo)

    def ev_Subscript(self, e, st):
        if isinstance(e.slice, ast.Slice):
            parts = [e.value] + [x for x in (e.slice.lower, e.slice.upper) if x is not None]

            def g(vals, s):
                lo = vals[1] if e.slice.lower is not None else None
                hi = vals[-1] if e.slice.upper is not None else None
                return self.slice_(vals[0], lo, hi, s)
            return self.then(self.ev_seq(parts, st), g)
        return self.then(self.ev_seq([e.value, e.slice], st), lambda vals, s: self.getitem(vals[0], vals[1], s))

    def slice_(self, o, lo, hi, st):
        if isinstance(o, str) and (lo is None or isinstance(lo, int)) and (hi is None or isinstance(hi, int)):
            return [("val", o[lo:hi], st)]
        if isinstance(o, str) or is_sym(o, "str"):
            t = zstr(o)
            n = z3.Length(t)
            if lo is None and isinstance(hi, int) and hi >= 0:
                return [("val", Sym("str", z3.SubString(t, 0, hi)), st)]
            if lo is None and isinstance(hi, int) and hi < 0:
                return [("val", Sym("str", z3.If(n + hi > 0, z3.SubString(t, 0, n + hi), z3.StringVal(""))), st)]
        raise Unsupported("slice")

    def getitem(self, o, k, st):
        if isinstance(o, Opt):
            out = []
            for none, s in self.branch(st, o.none):
                out.extend(self.raise_ext(s, "TypeError", "'NoneType' object is not subscriptable") if none else self.getitem(o.val, k, s))
            return out
        if isinstance(o, Ref):
            s = st.get(o)
            kind = s.get("__kind__")
            if kind == "dict":
                if is_concrete(k):
                    if k in s["e"]:
                        p, v = s["e"][k]
                        out = []
                        for present, s2 in self.branch(st, p):
                            out.extend([("val", v, s2)] if present else self.raise_ext(s2, "KeyError", repr(k)))
                        return out
                    if not s["open"]:
                        return self.raise_ext(st, "KeyError", repr(k))
                return self.hooks.open_dict_get(self, st, o, k)
            if kind in ("list", "tuple") and isinstance(k, int):
                try:
                    return [("val", s["items"][k], st)]
                except IndexError:
                    return self.raise_ext(st, "IndexError", "list index out of range")
            if kind == "glist":
                return self.hooks.glist_getitem(self, st, o, k)
            if kind in self.container_models:
                return self.container_models[kind].getitem(self, st, o, k)
        if isinstance(o, tuple) and isinstance(k, int):
            try:
                return [("val", o[k], st)]
            except IndexError:
                return self.raise_ext(st, "IndexError", "tuple index out of range")
        if isinstance(o, (ClassRef, ExtRef)):  # generic alias: InvokeConfig[P, R], MutableMapping[str, Any]
            return [("val", o, st)]
        raise Unsupported(f"subscript {o!r}[{k!r}]")

    def ev_Call(self, e, st):
        if any(isinstance(a, ast.Starred) for a in e.args) or any(k.arg is None for k in e.keywords):
            return self.ev_call_star(e, st)

        def f(fv, s):
            def g(vals, s2):
                n = len(e.args)
                return self.call_value(fv, vals[:n], dict(zip([k.arg for k in e.keywords], vals[n:])), s2, node=e)
            return self.then(self.ev_seq(list(e.args) + [k.value for k in e.keywords], s), g)
        # super().__init__(...) and logger calls are resolved syntactically
        if isinstance(e.func, ast.Attribute) and isinstance(e.func.value, ast.Name) and e.func.value.id == "logger" and "logger" not in st.env:
            return [("val", None, st)]
        return self.then(self.ev(e.func, st), f)

    def ev_call_star(self, e, st):
        def f(fv, s):
            exprs = [a.value if isinstance(a, ast.Starred) else a for a in e.args] + [k.value for k in e.keywords]

            def g(vals, s2):
                args, kwargs, maybe = [], {}, []
                for a, v in zip(e.args, vals):
                    if isinstance(a, ast.Starred):
                        args.extend(self.concrete_items(v, s2))
                    else:
                        args.append(v)
                for k, v in zip(e.keywords, vals[len(e.args):]):
                    if k.arg is None:
                        stor = s2.get(v)
                        for kk, (p, vv) in stor["e"].items():
                            if z3.is_false(simp(p)):
                                continue
                            if not z3.is_true(simp(p)):
                                maybe.append((kk, p, vv))   # a key that is present on some paths only: the call forks on its presence
                            else:
                                kwargs[kk] = vv
                    else:
                        kwargs[k.arg] = v

                def fork(i, s3, kw):
                    if i == len(maybe):
                        return self.call_value(fv, args, kw, s3, node=e)
                    kk, p, vv = maybe[i]
                    out = []
                    for present, s4 in self.branch(s3, p):
                        out.extend(fork(i + 1, s4, dict(kw, **{kk: vv}) if present else kw))
                    return out
                return fork(0, s2, kwargs)
            return self.then(self.ev_seq(exprs, s), g)
        return self.then(self.ev(e.func, st), f)

    def concrete_items(self, v, st):
        self.use_generator(v, st)
        if isinstance(v, tuple):
            return list(v)
        if isinstance(v, Ref) and st.get(v).get("__kind__") in ("list", "tuple", "set"):
            return list(st.get(v)["items"])
        raise Unsupported(f"iteration over {v!r}")

    def ev_Lambda(self, e, st):
        from .loader import FuncInfo
        fn = ast.FunctionDef(name="<lambda>", args=e.args, body=[ast.Return(value=e.body)], decorator_list=[], lineno=e.lineno, col_offset=0)
        fi = FuncInfo("<lambda>", fn, st.env.get("__module__"), None)
        st.env["__made_closure__"] = True
        return [("val", FuncRef(fi, closure=dict(st.env)), st)]

    # comprehensions ------------------------------------------------------------------------------------
    def ev_ListComp(self, e, st):
        return self.comp(e, st, "list")

    def ev_GeneratorExp(self, e, st):
        # a generator expression is evaluated like the list of its elements (its elements are computed eagerly: element expressions in the code
        # base are pure), but it can be traversed only ONCE: the result is marked and a second traversal is rejected (use_generator)
        out = []
        for k, v, s in self.comp(e, st, "list"):
            if k == "val" and isinstance(v, Ref):
                s.put(v, dict(s.get(v), __gen__=True))
            out.append((k, v, s))
        return out

    def use_generator(self, v, st):
        """called by everything that traverses an iterable: a generator object may be traversed once (a second traversal would silently yield
        nothing / the unconsumed rest in CPython - not modelled, so it is rejected)"""
        if isinstance(v, Ref):
            stor = st.get(v)
            if stor.get("__gen__"):
                if stor.get("__used__"):
                    raise Unsupported("a generator object is traversed a second time")
                st.put(v, dict(stor, __used__=True))

    def ev_SetComp(self, e, st):
        return self.comp(e, st, "set")

    def ev_DictComp(self, e, st):
        return self.comp(e, st, "dict")

    def comp(self, e, st, kind):
        if len(e.generators) != 1:
            raise Unsupported("nested comprehension")
        gen = e.generators[0]
        # a comprehension has its own scope: its loop variable neither overwrites nor leaks into the enclosing function's variable of that name
        targets = sorted({n.id for n in ast.walk(gen.target) if isinstance(n, ast.Name)})
        for lam in (x for part in ([e.key, e.value] if kind == "dict" else [e.elt]) + list(gen.ifs) for x in ast.walk(part) if isinstance(x, ast.Lambda)):
            own = {a.arg for a in lam.args.args + lam.args.kwonlyargs + lam.args.posonlyargs}
            if any(isinstance(x, ast.Name) and x.id in targets and x.id not in own for x in ast.walk(lam.body)):
                raise Unsupported("a lambda created in a comprehension captures the loop variable (every such lambda sees its LAST value)")
        missing = object()

        def f(it, s):
            saved = {n: s.env.get(n, missing) for n in targets}
            it = self.unopt(s, it)
            out = []
            for s_split in self.split_presence(it, s):
                out.extend(self.comp_over(e, gen, it, s_split, kind))
            for _, _, s_ in out:
                for n, v in saved.items():
                    if v is missing:
                        s_.env.pop(n, None)
                    else:
                        s_.env[n] = v
            return out
        return self.then(self.ev(gen.iter, st), f)

    def comp_over(self, e, gen, it, st, kind):
        if isinstance(it, Ref) and st.get(it).get("__kind__") == "glist":
            return self.hooks.glist_comp(self, st, e, gen, it, kind)
        if isinstance(it, Ref) and st.get(it).get("__kind__") in self.container_models:
            return self.container_models[st.get(it)["__kind__"]].comp(self, st, e, gen, it, kind)
        items = self.iter_items(it, st)
        elts = [e.key, e.value] if kind == "dict" else [e.elt]

        def go(i, s, acc):
            if i == len(items):
                if kind == "dict":
                    ent = {}
                    for a_ in acc:
                        k, v = a_[0], a_[1]
                        present = a_[2] if len(a_) > 2 else T
                        if not is_concrete(k):
                            raise Unsupported("dict comprehension with symbolic key")
                        if k in ent and not (z3.is_true(present) and z3.is_true(ent[k][0])):
                            raise Unsupported("dict comprehension: the same key produced twice under undecided filters")
                        ent[k] = (present, v)
                    return [("val", s.alloc("dict", {"__kind__": "dict", "e": ent, "open": False}), s)]
                return [("val", s.alloc(kind, {"__kind__": kind, "items": self.set_items([a[0] for a in acc], s) if kind == "set" else tuple(a[0] for a in acc)}), s)]
            outs = self.bind_target(gen.target, items[i], s)
            res = []
            for s1 in outs:
                def body(s2):
                    return self.then(self.ev_seq(elts, s2), lambda vals, s3: go(i + 1, s3, acc + (tuple(vals),)))
                if gen.ifs:
                    def cond(vals, s2):
                        c = simp(z3.And([truth(s2, v) for v in vals]))
                        if kind == "dict" and not z3.is_true(c) and not z3.is_false(c):
                            # {k: v for ... if c}: instead of one path per filter outcome, the entry is PRESENT IFF c (the dictionary model carries a
                            # presence condition per key) - sound when key and value are evaluated purely (one outcome, no event, nothing raised)
                            probe = s2.fork()
                            probe.assume(c)
                            n_tr = len(probe.trace)
                            pr = self.ev_seq(elts, probe)
                            if len(pr) == 1 and pr[0][0] == "val" and len(pr[0][2].trace) == n_tr and is_concrete(pr[0][1][0]) and len(pr[0][2].pc) == len(s2.pc) + 1 \
                                    and set(pr[0][2].heap) == set(s2.heap):
                                return go(i + 1, s2, acc + ((pr[0][1][0], pr[0][1][1], c),))
                        o = []
                        for taken, s3 in self.branch(s2, c):
                            o.extend(body(s3) if taken else go(i + 1, s3, acc))
                        return o
                    res.extend(self.then(self.ev_seq(gen.ifs, s1), cond))
                else:
                    res.extend(body(s1))
            return res
        return go(0, st, ())

    def split_presence(self, it, st):
        """A closed dictionary whose entries carry undecided presence conditions is about to be traversed: one state per combination of present /
        absent entries (each with the dictionary rewritten to definite keys), so that the traversal sees a definite key sequence.  The case split
        that a filtered comprehension avoided when the dictionary was built is made here, only where the keys are actually enumerated."""
        if not isinstance(it, Ref):
            return [st]
        stor = st.get(it)
        if stor.get("__kind__") != "dict" or stor.get("open"):
            return [st]
        maybe = [k for k, (p, _) in stor["e"].items() if not z3.is_true(simp(p))]
        if not maybe:
            return [st]
        if len(maybe) > 8:
            raise Unsupported("traversal of a dictionary with more than 8 maybe-present keys")
        states = [st]
        for k in maybe:
            nxt = []
            for s in states:
                p = s.get(it)["e"][k][0]
                for present, s2 in self.branch(s, p):
                    cur = s2.get(it)
                    e = dict(cur["e"])
                    if present:
                        e[k] = (T, e[k][1])
                    else:
                        del e[k]
                    s2.put(it, dict(cur, e=e))
                    nxt.append(s2)
            states = nxt
        return states

    def iter_items(self, it, st):
        """concrete sequence of element values of an iterable"""
        self.use_generator(it, st)
        if isinstance(it, Opt):
            raise Unsupported("iteration over maybe-None")
        if isinstance(it, tuple):
            return list(it)
        if isinstance(it, Ref):
            s = st.get(it)
            k = s.get("__kind__")
            if k in ("list", "tuple", "set"):
                return list(s["items"])
            if k == "dict" and not s["open"]:
                if all(z3.is_true(p) for p, _ in s["e"].values()):
                    return list(s["e"].keys())
                raise Unsupported("iteration over dict with maybe-present keys")
            if k == "dict_items":
                return list(s["items"])
        if isinstance(it, str):
            return list(it)
        raise Unsupported(f"iteration over {it!r}")

    def bind_target(self, target, v, st):
        """assign v to a comprehension/for target; returns list of states"""
        if isinstance(target, ast.Name):
            st.env[target.id] = v
            return [st]
        if isinstance(target, ast.Tuple) and isinstance(v, tuple) and len(v) == len(target.elts):
            for t, x in zip(target.elts, v):
                self.bind_target(t, x, st)
            return [st]
        raise Unsupported(f"target {ast.unparse(target)}")

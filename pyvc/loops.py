"""Loop contracts: a `while` / `for` loop is cut at a sidecar invariant (DESIGN 2.7).

Obligations generated per loop `name`:
  name.init  - the invariant holds when the loop is first reached
  name.step  - from ANY state satisfying invariant and guard, one execution of the REAL body re-establishes the invariant
               (on every path that falls through or `continue`s; `break`/`return`/`raise` leave the loop and are followed)
The code after the loop is executed from an arbitrary state satisfying invariant and not guard (or from the break states).
Termination is not proved."""
from __future__ import annotations

import ast

import z3

from .ops import truth
from .values import Unsupported, simp


def fitted(name, fn):
    """A sidecar invariant / havoc / variant talks about the loop's own variables.  When the code under the contract was restructured and a
    variable no longer exists, the contract says nothing about the new code: the check ends UNDECIDED (unsupported), it does not crash"""
    if fn is None:
        return None

    def guarded(*a, **k):
        try:
            return fn(*a, **k)
        except (KeyError, AttributeError, IndexError, TypeError) as e:
            raise Unsupported(f"the sidecar loop contract {name} does not fit the current code ({type(e).__name__}: {e}): the loop was restructured") from e
    return guarded


class LoopContract:
    def __init__(self, chk, name, inv, havoc, abstract=None, desc="", on_step=None, variant=None, variant_desc=""):
        inv, havoc, abstract, on_step, variant = (fitted(name, f_) for f_ in (inv, havoc, abstract, on_step, variant))
        self.chk, self.name, self.inv, self.havoc, self.abstract, self.desc = chk, name, inv, havoc, abstract, desc
        self.on_step = on_step
        self.variant, self.variant_desc = variant, variant_desc  # variant(eng, st) -> z3 Int: >= 0 whenever the body is entered and strictly smaller after it (termination)
        self.reached = 0

    def __call__(self, eng, node, st):
        chk = self.chk
        self.reached += 1
        if self.abstract:
            self.abstract(eng, st)
        chk.prove(self.name + ".init", st.pc, self.inv(eng, st), desc=f"loop invariant holds on entry: {self.desc}", sample=f"{self.name}: invariant at loop entry")
        self.havoc(eng, st)
        st.assume(self.inv(eng, st))
        if not eng.feasible(st, z3.BoolVal(True)):
            chk.fault(f"{self.name}: invariant is unsatisfiable after havoc (vacuous loop contract)")
            return []
        out = []
        if isinstance(node, ast.While):
            tests = eng.ev(node.test, st)
        else:
            raise Unsupported("LoopContract on for loops: use ForEach")
        for k, v, s in tests:
            if k == "raise":
                out.append(("raise", v, s))
                continue
            for taken, s1 in eng.branch(s, truth(s, v)):
                if not taken:
                    out.extend(eng.exec_block(node.orelse, s1) if node.orelse else [("fall", None, s1)])
                    continue
                v0 = self.variant(eng, s1) if self.variant else None
                for k2, v2, s2 in eng.exec_block(node.body, s1):
                    if k2 in ("fall", "continue"):
                        if self.on_step:
                            self.on_step(eng, s2)
                        if v0 is not None:
                            v1 = self.variant(eng, s2)
                            if isinstance(v0, tuple):   # lexicographic pair (a, b), both bounded below by 0
                                dec = z3.Or(z3.And(v0[0] >= 0, v1[0] < v0[0]), z3.And(v1[0] == v0[0], v0[1] >= 0, v1[1] < v0[1]))
                            else:
                                dec = z3.And(v0 >= 0, v1 < v0)
                            chk.prove(self.name + ".variant", s2.pc, dec,
                                      desc=f"termination: the variant is bounded below when the body is entered and strictly smaller (lexicographically for a pair) after every iteration that continues the loop ({self.variant_desc})")
                        chk.prove(self.name + ".step", s2.pc, self.inv(eng, s2), desc=f"loop body preserves the invariant: {self.desc}", sample=f"{self.name}: invariant after one arbitrary iteration")
                    elif k2 == "break":
                        out.append(("fall", None, s2))
                    else:
                        out.append((k2, v2, s2))
        return out


class ForEach:
    """per-element loop without loop-carried state: the body is executed once on a generic element (forall-introduction).
    The body may only append ghost events; its paths are recorded in a single 'foreach' event of the trace."""

    def __init__(self, chk, name, generic_element):
        self.chk, self.name, self.generic_element = chk, name, generic_element

    def __call__(self, eng, node, st):
        def f(it, s):
            elem, dom = self.generic_element(eng, s, it)
            base_trace = len(s.trace)
            base_heap = dict(s.heap)
            sb = s.fork()
            sb.assume(dom)
            bodies = []
            for s1 in eng.assign(node.target, elem, sb):
                for k2, v2, s2 in eng.exec_block(node.body, s1):
                    if k2 not in ("fall", "continue"):
                        self.chk.prove(self.name + ".total", s2.pc, z3.BoolVal(False), desc="per-element loop body neither raises nor leaves the loop")
                        continue
                    changed = [oid for oid in base_heap if s2.heap.get(oid) is not base_heap[oid]]
                    if changed:
                        raise Unsupported(f"{self.name}: per-element loop body writes shared state")
                    bodies.append((list(s2.pc[len(s.pc):]), list(s2.trace[base_trace:])))
            s.emit("foreach", over=it, elem=elem, bodies=bodies, name=self.name)
            return [("fall", None, s)]
        return eng.lift(eng.ev(node.iter, st), f)


class ForInvariant:
    """`for x in L` over a function-list (kind 'flist': symbolic length n, element function elem(st, i)) cut at an invariant over
    the number k of elements already processed: name.init (k = 0), name.step (k -> k+1); exit with k == n."""

    def __init__(self, chk, name, inv, havoc, desc=""):
        self.chk, self.name, self.inv, self.havoc, self.desc = chk, name, fitted(name, inv), fitted(name, havoc), desc

    def __call__(self, eng, node, st):
        chk = self.chk

        def f(it, s):
            stor = s.get(it)
            if stor.get("__kind__") != "flist":
                raise Unsupported("ForInvariant needs a function-list")
            n = stor["len"]
            chk.prove(self.name + ".init", s.pc, self.inv(eng, s, z3.IntVal(0)), desc=f"loop invariant holds before the first element: {self.desc}")
            k = z3.Int(eng_fresh("k"))
            self.havoc(eng, s)
            s.assume(z3.And(k >= 0, k <= n, self.inv(eng, s, k)))
            out = []
            for more, s1 in eng.branch(s, k < n):
                if not more:
                    out.extend(eng.exec_block(node.orelse, s1) if node.orelse else [("fall", None, s1)])
                    continue
                elem = stor["elem"](s1, k)
                for s2 in eng.assign(node.target, elem, s1):
                    for k2, v2, s3 in eng.exec_block(node.body, s2):
                        if k2 in ("fall", "continue"):
                            chk.prove(self.name + ".step", s3.pc, self.inv(eng, s3, k + 1), desc=f"processing one more element preserves the invariant: {self.desc}")
                        elif k2 == "break":
                            out.append(("fall", None, s3))
                        else:
                            out.append((k2, v2, s3))
            return out
        return eng.lift(eng.ev(node.iter, st), f)


def eng_fresh(prefix):
    from .values import fresh_name
    return fresh_name(prefix)

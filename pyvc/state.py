"""Path state of the symbolic executor: path condition, ghost trace, heap, frames.  States are forked by
copying (heap storages are treated as immutable and replaced on write), so sibling paths never share
mutable structure (DESIGN 2.15 lesson 1)."""
from __future__ import annotations

import itertools

import z3

from .values import Ref

_oid = itertools.count(1)


class Event:
    """ghost trace event"""
    __slots__ = ("kind", "d")

    def __init__(self, kind, **d):
        self.kind, self.d = kind, d

    def __repr__(self):
        return f"{self.kind}({', '.join(f'{k}={v}' for k, v in self.d.items())})"

    def __getattr__(self, k):
        try:
            return self.d[k]
        except KeyError:
            raise AttributeError(k) from None


class St:
    __slots__ = ("pc", "trace", "heap", "frames", "exc_stack", "ghost", "depth")

    def __init__(self):
        self.pc = []
        self.trace = []
        self.heap = {}
        self.frames = [{}]
        self.exc_stack = []
        self.ghost = {}  # named ghost values of the check (e.g. the current record of the operation)
        self.depth = 0

    def fork(self):
        s = St.__new__(St)
        s.pc = list(self.pc)
        s.trace = list(self.trace)
        s.heap = dict(self.heap)
        s.frames = [dict(f) for f in self.frames]
        s.exc_stack = list(self.exc_stack)
        s.ghost = dict(self.ghost)
        s.depth = self.depth
        return s

    # ---- frames
    @property
    def env(self):
        return self.frames[-1]

    # ---- heap
    def alloc(self, cls, storage):
        oid = next(_oid)
        self.heap[oid] = storage
        return Ref(oid, cls)

    def get(self, ref):
        return self.heap[ref.oid]

    def put(self, ref, storage):
        self.heap[ref.oid] = storage

    def setfield(self, ref, name, v):
        d = dict(self.heap[ref.oid])
        d[name] = v
        self.heap[ref.oid] = d

    def assume(self, c):
        if isinstance(c, bool):
            c = z3.BoolVal(c)
        if not z3.is_true(c):
            self.pc.append(c)

    def emit(self, kind, **d):
        e = Event(kind, **d)
        self.trace.append(e)
        return e

"""Primitive operations on values: truthiness, None-tests, equality, comparison, arithmetic, merge."""
from __future__ import annotations

import ast
import math

import z3

from .loader import ClassInfo
from .values import (ANY, CannotMerge, ClassRef, ExtRef, Opt, Ref, Sym, Unsupported, any_truthy, dt_off, dt_ts, enum_member, fresh,
                     is_concrete, is_realish, is_sym, simp, zbool, zint, zreal, zstr)

T, F = z3.BoolVal(True), z3.BoolVal(False)
any_is_none = z3.Function("any_is_none", ANY, z3.BoolSort())


def storage_truth(st, ref):
    s = st.get(ref)
    k = s.get("__kind__")
    if callable(s.get("__truth__")):
        return s["__truth__"](st)
    if k == "dict":
        if s["open"]:
            return z3.Bool(f"dict_nonempty#{ref.oid}")
        ps = [p for p, _ in s["e"].values()]
        return simp(z3.Or(ps)) if ps else F
    if k in ("list", "set", "tuple"):
        return z3.BoolVal(len(s["items"]) > 0)
    if k == "glist":
        return s["len"] > 0
    if k in ("deque", "rlist", "rqueue"):
        return s["len"] > 0
    if k == "zseq":
        return z3.Length(s["seq"]) > 0
    if k == "zset":
        return s["nonempty"](st) if callable(s.get("nonempty")) else z3.Bool(f"nonempty#{ref.oid}")
    return T  # plain objects (no __bool__/__len__ in the code in scope)


def truth(st, v):
    """z3 Bool: Python truthiness of v"""
    if v is None:
        return F
    if isinstance(v, bool):
        return z3.BoolVal(v)
    if isinstance(v, (int, float)):
        return z3.BoolVal(v != 0)
    if isinstance(v, (str, bytes, tuple)):
        return z3.BoolVal(len(v) > 0)
    if isinstance(v, Sym):
        if v.kind == "bool":
            return v.t
        if v.kind == "int":
            return v.t != 0
        if v.kind == "real":
            return v.t != 0
        if v.kind == "str":
            return z3.Length(v.t) > 0
        if v.kind == "strlist":
            return z3.Length(v.t) > 0
        if v.kind == "any":
            return any_truthy(v.t)
        return T  # enum members, datetimes
    if isinstance(v, Opt):
        return simp(z3.And(z3.Not(v.none), truth(st, v.val)))
    if isinstance(v, Ref):
        return storage_truth(st, v)
    return T  # classes, functions, ...


def is_none(v):
    if v is None:
        return T
    if isinstance(v, Opt):
        return v.none
    if is_sym(v, "any"):
        return any_is_none(v.t)
    return F


def strip_opt(v):
    return v.val if isinstance(v, Opt) else v


def mk_opt(none, val):
    none = simp(none)
    if z3.is_false(none):
        return val
    if z3.is_true(none) or val is None:
        return None
    if isinstance(val, Opt):
        return mk_opt(z3.Or(none, val.none), val.val)
    return Opt(none, val)


def as_z3(v):
    """scalar value -> (z3 term, sort-kind) or None"""
    if isinstance(v, bool):
        return z3.BoolVal(v), "bool"
    if isinstance(v, int):
        return z3.IntVal(v), "int"
    if isinstance(v, float):
        return zreal(v), "real"
    if isinstance(v, str):
        return z3.StringVal(v), "str"
    if isinstance(v, Sym):
        return v.t, v.kind if v.kind != "enum" else "enum:" + v.cls.key
    return None


def values_equal(st, a, b):
    """z3 Bool for Python `a == b` (identity for heap objects, except frozen dataclasses: structural)"""
    if a is b:
        if isinstance(a, (Sym, Opt)) or a is None or isinstance(a, (Ref, ClassRef)):
            return T
    if isinstance(a, Opt) or isinstance(b, Opt):
        na, nb = is_none(a), is_none(b)
        va, vb = strip_opt(a), strip_opt(b)
        inner = values_equal(st, va, vb) if va is not None and vb is not None else F
        return simp(z3.Or(z3.And(na, nb), z3.And(z3.Not(na), z3.Not(nb), inner)))
    ta, tb = _is_typeof(a), _is_typeof(b)
    if ta or tb:
        return typeof_equal(st, a, b, ta, tb)
    if a is None or b is None:
        if a is None and b is None:
            return T
        o = b if a is None else a
        return is_none(o)
    if is_concrete(a) and is_concrete(b):
        return z3.BoolVal(a == b)
    za, zb = as_z3(a), as_z3(b)
    if za and zb:
        (ta, ka), (tb, kb) = za, zb
        if ka == kb:
            return simp(ta == tb)
        num = {"int", "real", "bool"}
        if ka in num and kb in num:
            return simp(zreal(a) == zreal(b))
        return F
    if isinstance(a, Ref) and isinstance(b, Ref):
        if a.oid == b.oid:
            return T
        if isinstance(a.cls, ClassInfo) and a.cls is b.cls and a.cls.is_dataclass:
            sa, sb = st.get(a), st.get(b)
            return simp(z3.And([values_equal(st, sa[f[0]], sb[f[0]]) for f in a.cls.fields()]))
        ka, kb = st.get(a).get("__kind__"), st.get(b).get("__kind__")
        if ka is not None or kb is not None:
            return containers_equal(st, a, b, ka, kb)
        return F
    if isinstance(a, Ref) and isinstance(b, tuple) or isinstance(a, tuple) and isinstance(b, Ref):
        r, t_ = (a, b) if isinstance(a, Ref) else (b, a)
        k = st.get(r).get("__kind__")
        if k is None or k in ("list", "dict", "set"):
            return F                       # a tuple equals only a tuple
        raise Unsupported(f"== between a tuple and a {k}")
    if isinstance(a, ClassRef) and isinstance(b, ClassRef):
        return z3.BoolVal(a.cls is b.cls)
    if isinstance(a, tuple) and isinstance(b, tuple):
        if len(a) != len(b):
            return F
        return simp(z3.And([values_equal(st, x, y) for x, y in zip(a, b)]))
    if isinstance(a, ExtRef) and isinstance(b, ExtRef):
        return z3.BoolVal(a == b)
    return F


_IDENTITY_BY_VALUE_KINDS = ("bool", "enum")


def _value_typed(v):
    """operands whose identity CPython does not define by value: numbers, strings, bytes, tuples, datetimes (None, True/False and enum
    members are singletons; heap objects have an object identity in the model)"""
    if isinstance(v, bool) or v is None:
        return False
    if isinstance(v, (int, float, str, bytes, tuple)):
        return True
    return isinstance(v, Sym) and v.kind not in _IDENTITY_BY_VALUE_KINDS


def _is_typeof(v):
    return isinstance(v, tuple) and len(v) == 2 and v[0] == "typeof"


def _exact_type_name(st, v):
    """name (builtins) or ClassInfo (classes of the program) of type(v); None when the model does not determine it"""
    if v is None:
        return "NoneType"
    if isinstance(v, bool):
        return "bool"
    if isinstance(v, int):
        return "int"
    if isinstance(v, float):
        return "float"
    if isinstance(v, str):
        return "str"
    if isinstance(v, Sym):
        return {"int": "int", "bool": "bool", "str": "str", "dt": "datetime"}.get(v.kind) or (v.cls if v.kind == "enum" else None)
    if isinstance(v, Ref):
        if isinstance(v.cls, ClassInfo):
            return v.cls
        if isinstance(v.cls, str) and v.cls.startswith("exc:"):
            return v.cls[4:]
        k = st.get(v).get("__kind__")
        if k in ("list", "dict", "set", "tuple"):
            return k
        if k == "glist" and v.cls in ("list", "tuple"):
            return v.cls
    if isinstance(v, tuple) and not (v and isinstance(v[0], str)):
        return "tuple"
    return None


def typeof_equal(st, a, b, ta, tb):
    """type(x) == T / type(x) is T: an EXACT type test (bool is not int, a subclass is not its base)"""
    if ta and tb:
        na, nb = _exact_type_name(st, a[1]), _exact_type_name(st, b[1])
        if na is None or nb is None:
            raise Unsupported("type(x) == type(y) for a value whose exact type the model does not determine")
        return z3.BoolVal(na is nb if isinstance(na, ClassInfo) or isinstance(nb, ClassInfo) else na == nb)
    tv, other = (a[1], b) if ta else (b[1], a)
    if other is None:
        return F                        # a type object is never None
    if isinstance(other, Opt):
        raise Unsupported("type(x) compared with a possibly-None value")
    n = _exact_type_name(st, tv)
    if n is None:
        raise Unsupported("type(x) compared for a value whose exact type the model does not determine")
    if isinstance(other, ClassRef):
        return z3.BoolVal(n is other.cls)
    if isinstance(other, ExtRef):
        return z3.BoolVal(isinstance(n, str) and n == other.name.split(".")[-1])
    if other is None:
        return F
    raise Unsupported(f"type(x) compared with {other!r}")


def containers_equal(st, a, b, ka, kb):
    """== of built-in containers is STRUCTURAL (lists and tuples item by item in order, dicts and sets regardless of order); containers of
    different types are unequal.  Shapes the engine cannot compare (generic-element lists, container models, open dicts) are rejected"""
    sa, sb = st.get(a), st.get(b)
    if ka in ("list", "tuple") and kb in ("list", "tuple"):
        if ka != kb:
            return F
        if len(sa["items"]) != len(sb["items"]):
            return F
        return simp(z3.And([values_equal(st, x, y) for x, y in zip(sa["items"], sb["items"])] or [T]))
    if ka == "dict" and kb == "dict" and not sa["open"] and not sb["open"]:
        keys = list(sa["e"]) + [k for k in sb["e"] if k not in sa["e"]]
        conj = []
        for k in keys:
            pa, va = sa["e"].get(k, (F, None))
            pb, vb = sb["e"].get(k, (F, None))
            both = values_equal(st, va, vb) if k in sa["e"] and k in sb["e"] else F
            conj.append(z3.Or(z3.And(z3.Not(pa), z3.Not(pb)), z3.And(pa, pb, both)))
        return simp(z3.And(conj or [T]))
    if ka == "set" and kb == "set":
        ia, ib = sa["items"], sb["items"]
        if all(is_concrete(x) for x in ia + ib):
            return z3.BoolVal(set(ia) == set(ib))
        raise Unsupported("== of sets with symbolic members")
    if {ka, kb} <= {"list", "tuple", "dict", "set"} and ka != kb:
        return F
    raise Unsupported(f"== between containers of kind {ka} and {kb}")


def identical(st, a, b):
    """Python `a is b`.  Heap objects: object identity.  None / True / False / enum members: singletons, so by value.  Numbers, strings,
    bytes, tuples: identity is implementation-defined (small-int cache, interning of literals): the result is an unconstrained Boolean
    that can only be true when the values are equal - so code relying on `is` between such values is verified for both outcomes."""
    if isinstance(a, Ref) and isinstance(b, Ref):
        return z3.BoolVal(a.oid == b.oid)
    va, vb = strip_opt(a), strip_opt(b)
    if a is not b and va is not None and vb is not None and _value_typed(va) and _value_typed(vb):
        eq = values_equal(st, a, b)
        if z3.is_false(eq):
            return eq
        from .values import fresh_name
        same = z3.Bool(fresh_name("same_object"))
        na, nb = is_none(a), is_none(b)
        both_some = simp(z3.And(z3.Not(na), z3.Not(nb)))
        st.assume(z3.Implies(same, eq))
        return simp(z3.Or(z3.And(na, nb), z3.And(both_some, same)))
    return values_equal(st, a, b)


_CMP = {ast.Lt: lambda x, y: x < y, ast.LtE: lambda x, y: x <= y, ast.Gt: lambda x, y: x > y, ast.GtE: lambda x, y: x >= y}


def compare(st, op, a, b):
    """returns a value (python bool or Sym bool)"""
    if isinstance(op, (ast.Eq, ast.NotEq)):
        r = values_equal(st, a, b)
        r = simp(z3.Not(r)) if isinstance(op, ast.NotEq) else r
    elif isinstance(op, (ast.Is, ast.IsNot)):
        r = identical(st, a, b)
        r = simp(z3.Not(r)) if isinstance(op, ast.IsNot) else r
    elif type(op) in _CMP:
        f = _CMP[type(op)]
        if is_concrete(a) and is_concrete(b):
            try:
                return f(a, b)
            except TypeError as e:
                raise Unsupported(f"ordering comparison raises {e}") from e
        if is_sym(a, "dt") or is_sym(b, "dt"):
            r = f(dt_ts(a.t), dt_ts(b.t))
        elif is_realish(a) or is_realish(b):
            r = f(zreal(a), zreal(b))
        else:
            r = f(zint(a), zint(b))
        r = simp(r)
    else:
        raise Unsupported(f"compare op {op}")
    if z3.is_true(r):
        return True
    if z3.is_false(r):
        return False
    return Sym("bool", r)


def z_ceil(r):
    """ceil of a z3 real as z3 int"""
    i = z3.ToInt(r)
    return z3.If(z3.ToReal(i) == r, i, i + 1)


def int_to_str(t):
    return z3.If(t >= 0, z3.IntToStr(t), z3.Concat(z3.StringVal("-"), z3.IntToStr(-t)))


def binop(st, op, a, b):
    if is_concrete(a) and is_concrete(b) and a is not None and b is not None:
        try:
            if isinstance(op, ast.Add):
                return a + b
            if isinstance(op, ast.Sub):
                return a - b
            if isinstance(op, ast.Mult):
                return a * b
            if isinstance(op, ast.Div):
                return a / b
            if isinstance(op, ast.Pow):
                return a ** b
            if isinstance(op, ast.FloorDiv):
                return a // b
            if isinstance(op, ast.Mod):
                return a % b
        except Exception as e:  # e.g. ZeroDivisionError on constants
            raise Unsupported(f"constant arithmetic raised {e!r}") from e
    if isinstance(op, ast.Add) and (isinstance(a, str) or is_sym(a, "str")):
        return Sym("str", z3.Concat(zstr(a), zstr(b)))
    if is_sym(a, "dt") and is_sym(b, "dt") and isinstance(op, ast.Sub):
        return Sym("td", dt_ts(a.t) - dt_ts(b.t))   # timedelta as exact seconds (datetime arithmetic is integer microseconds: no rounding)
    if isinstance(op, ast.Add) and ((is_sym(a, "dt") and is_sym(b, "td")) or (is_sym(a, "td") and is_sym(b, "dt"))):
        d, t = (a, b) if is_sym(a, "dt") else (b, a)
        r = fresh("dt", "shifted")            # datetime + timedelta: exact (integer microseconds), same zone
        st.assume(z3.And(dt_ts(r.t) == dt_ts(d.t) + t.t, dt_off(r.t) == dt_off(d.t)))
        return r
    if is_sym(a, "td") and is_sym(b, "td") and isinstance(op, ast.FloorDiv):
        return Sym("int", z3.ToInt(a.t / b.t))      # floor of the exact quotient (divisor positive: a constant unit)
    if is_sym(a, "dt") or is_sym(b, "dt") or is_sym(a, "td") or is_sym(b, "td"):
        raise Unsupported("datetime arithmetic")
    real = is_realish(a) or is_realish(b) or isinstance(op, (ast.Div, ast.Pow))
    if isinstance(op, ast.Pow):
        # rate ** k: uninterpreted positive power (DESIGN C12); exact for the cases k == 0 and base == 1
        base, exp = zreal(a), zreal(b)
        p = z3.Function("pow", z3.RealSort(), z3.RealSort(), z3.RealSort())
        r = p(base, exp)
        st.assume(z3.Implies(base > 0, r > 0))
        st.assume(z3.Implies(exp == 0, r == 1))
        st.assume(z3.Implies(base == 1, r == 1))
        st.assume(z3.Implies(exp == 1, r == base))
        st.assume(z3.Implies(z3.And(base >= 1, exp >= 0), r >= 1))
        return Sym("real", r)
    if real:
        x, y = zreal(a), zreal(b)
        if isinstance(op, ast.Add):
            return Sym("real", x + y)
        if isinstance(op, ast.Sub):
            return Sym("real", x - y)
        if isinstance(op, ast.Mult):
            r = x * y
            if not (z3.is_rational_value(x) or z3.is_rational_value(y) or z3.is_int_value(x) or z3.is_int_value(y)):
                # valid facts about a product of two unknowns, given to the solver as lemma instances (nonlinear arithmetic needs prompting)
                st.assume(z3.Implies(z3.And(x >= 0, y >= 0), z3.And(r >= 0, z3.Implies(x <= 1, r <= y), z3.Implies(y <= 1, r <= x))))
            return Sym("real", r)
        if isinstance(op, ast.Div):
            return Sym("real", x / y)
    else:
        x, y = zint(a), zint(b)
        if isinstance(op, (ast.FloorDiv, ast.Mod)):
            # Python's floor division / modulo coincide with z3's integer div / mod for a positive divisor
            st.assume(y > 0) if False else None
            pos = simp(y > 0)
            if not z3.is_true(pos):
                s_ = z3.Solver(); s_.add(*st.pc); s_.add(z3.Not(y > 0))
                if s_.check() != z3.unsat:
                    raise Unsupported("floor division / modulo by a divisor not known to be positive")
            return Sym("int", x / y if isinstance(op, ast.FloorDiv) else x % y)
        if isinstance(op, ast.Add):
            return Sym("int", x + y)
        if isinstance(op, ast.Sub):
            return Sym("int", x - y)
        if isinstance(op, ast.Mult):
            return Sym("int", x * y)
    raise Unsupported(f"binop {op} on {a!r}, {b!r}")


# ------------------------------------------------------------------------------------------------ merge (if-conversion)
def merge_values(c, a, b, sa, sb, out, base_heap):
    """value equal to a (in state sa) if c else b (in state sb); new heap objects go to state `out`"""
    if a is b:
        return a
    if isinstance(a, Ref) and isinstance(b, Ref) and a.oid == b.oid:
        return a
    if is_concrete(a) and is_concrete(b) and type(a) is type(b) and a == b:
        return a
    if a is None and b is None:
        return None
    if a is None or b is None or isinstance(a, Opt) or isinstance(b, Opt):
        na, nb = is_none(a), is_none(b)
        va, vb = strip_opt(a), strip_opt(b)
        none = simp(z3.If(c, na, nb))
        if va is None:
            return mk_opt(none, vb)
        if vb is None:
            return mk_opt(none, va)
        return mk_opt(none, merge_values(c, va, vb, sa, sb, out, base_heap))
    za, zb = as_z3(a), as_z3(b)
    if za and zb:
        (ta, ka), (tb, kb) = za, zb
        if ka == kb:
            kind = a.kind if isinstance(a, Sym) else b.kind if isinstance(b, Sym) else ka
            cls = getattr(a, "cls", None) or getattr(b, "cls", None)
            return Sym(kind, simp(z3.If(c, ta, tb)), cls)
        if {ka, kb} <= {"int", "real"}:
            return Sym("real", simp(z3.If(c, zreal(a), zreal(b))))
        raise CannotMerge(f"{ka}/{kb}")
    if isinstance(a, Ref) and isinstance(b, Ref):
        if a.cls is not b.cls and a.cls != b.cls:
            raise CannotMerge("different classes")
        if a.oid in base_heap or b.oid in base_heap:
            raise CannotMerge("distinct pre-existing objects")
        s1, s2 = sa.get(a), sb.get(b)
        return out.alloc(a.cls, merge_storage(c, s1, s2, sa, sb, out, base_heap))
    if isinstance(a, tuple) and isinstance(b, tuple) and len(a) == len(b):
        return tuple(merge_values(c, x, y, sa, sb, out, base_heap) for x, y in zip(a, b))
    if isinstance(a, ClassRef) and isinstance(b, ClassRef) and a.cls is b.cls:
        return a
    raise CannotMerge(f"{type(a).__name__}/{type(b).__name__}")


def merge_storage(c, s1, s2, sa, sb, out, base_heap):
    if s1 is s2:
        return s1
    k1, k2 = s1.get("__kind__"), s2.get("__kind__")
    if k1 != k2:
        raise CannotMerge("storage kinds")
    if k1 == "dict":
        if s1["open"] != s2["open"]:
            raise CannotMerge("open/closed dict")
        e = {}
        keys = list(s1["e"]) + [k for k in s2["e"] if k not in s1["e"]]
        for k in keys:
            p1, v1 = s1["e"].get(k, (F, None))
            p2, v2 = s2["e"].get(k, (F, None))
            if k not in s2["e"]:
                v = v1
            elif k not in s1["e"]:
                v = v2
            else:
                v = merge_values(c, v1, v2, sa, sb, out, base_heap)
            e[k] = (simp(z3.If(c, p1, p2)), v)
        return {"__kind__": "dict", "e": e, "open": s1["open"]}
    if k1 in ("list", "tuple", "set"):
        if len(s1["items"]) != len(s2["items"]):
            raise CannotMerge("list lengths")
        return {"__kind__": k1, "items": tuple(merge_values(c, x, y, sa, sb, out, base_heap) for x, y in zip(s1["items"], s2["items"]))}
    if k1 is None:
        if set(s1) != set(s2):
            raise CannotMerge("object shapes")
        return {f: merge_values(c, s1[f], s2[f], sa, sb, out, base_heap) for f in s1}
    raise CannotMerge(f"storage {k1}")

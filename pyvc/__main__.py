"""python3-vt -m pyvc check <Cxx> [--tier quick|thorough]"""
import argparse
import importlib
import os
import sys

from . import VERIF
from .check import run_check

sys.path.insert(0, VERIF)
sys.setrecursionlimit(20000)


def main():
    ap = argparse.ArgumentParser()
    ap.add_argument("cmd", choices=["check"])
    ap.add_argument("prop")
    ap.add_argument("--tier", default=os.environ.get("VERIF_TIER", "quick"))
    a = ap.parse_args()
    seed = int(os.environ.get("VERIF_SEED", "0") or 0)
    mod = importlib.import_module("props." + a.prop.lower())
    sys.exit(run_check(a.prop, mod.run, a.tier if a.tier in ("quick", "thorough") else "quick", seed))


main()

"""pyvc - verification-condition generator for a subset of Python, run against the real sources of
aws-durable-execution-sdk-python (see /verif/DESIGN.md).  Runs under python3-vt (z3-solver)."""
import os

REPO = os.environ.get("PYVC_REPO", "/repo")
PKG = "aws_durable_execution_sdk_python"
SRC = os.path.join(REPO, "src", PKG)
VERIF = os.path.dirname(os.path.dirname(os.path.abspath(__file__)))

"""Statement execution (mixin of Engine).  exec_block returns a list of (kind, value, state) with kind in
fall | ret | raise | break | continue."""
from __future__ import annotations

import ast

import z3

from . import ops
from .loader import ClassInfo, FuncInfo
from .ops import F, T, is_none, truth
from .values import ClassRef, ExtRef, FuncRef, Opt, Ref, Sym, Unsupported, enum_member, is_concrete, is_sym, simp


class StmtMixin:
    def exec_block(self, stmts, st):
        if not stmts:
            return [("fall", None, st)]
        out = []
        for k, v, s in self.exec_stmt(stmts[0], st):
            if k == "fall":
                out.extend(self.exec_block(stmts[1:], s))
            else:
                out.append((k, v, s))
        return out

    def exec_stmt(self, n, st):
        self.stats["stmts"] += 1
        if self.stats["stmts"] > self.max_stmts:
            raise Unsupported("statement budget exceeded (path explosion)")
        m = getattr(self, "st_" + type(n).__name__, None)
        if m is None:
            raise Unsupported(f"statement {type(n).__name__}: {ast.unparse(n)[:80]}")
        return m(n, st)

    def lift(self, results, fn=None):
        """expression results -> statement results"""
        out = []
        for k, v, s in results:
            if k == "raise":
                out.append(("raise", v, s))
            else:
                out.extend(fn(v, s) if fn else [("fall", None, s)])
        return out

    def st_Pass(self, n, st):
        return [("fall", None, st)]

    def st_Expr(self, n, st):
        if isinstance(n.value, ast.Constant):
            return [("fall", None, st)]
        return self.lift(self.ev(n.value, st))

    def st_Import(self, n, st):
        for a in n.names:
            st.env[a.asname or a.name.split(".")[0]] = ExtRef(a.name)
        return [("fall", None, st)]

    def st_ImportFrom(self, n, st):
        return [("fall", None, st)]

    def st_Return(self, n, st):
        if n.value is None:
            return [("ret", None, st)]
        return self.lift(self.ev(n.value, st), lambda v, s: [("ret", v, s)])

    def st_Assign(self, n, st):
        def f(v, s):
            res = [s]
            for t in n.targets:
                nxt = []
                for s1 in res:
                    nxt.extend(self.assign(t, v, s1))
                res = nxt
            return res
        return self._assign_results(self.ev(n.value, st), f)

    def _assign_results(self, results, f):
        out = []
        for k, v, s in results:
            if k == "raise":
                out.append(("raise", v, s))
                continue
            for r in f(v, s):
                out.append(r if isinstance(r, tuple) else ("fall", None, r))
        return out

    def st_AnnAssign(self, n, st):
        if n.value is None:
            return [("fall", None, st)]
        return self._assign_results(self.ev(n.value, st), lambda v, s: self.assign(n.target, v, s))

    def st_AugAssign(self, n, st):
        load = ast.copy_location(ast.BinOp(left=self._as_load(n.target), op=n.op, right=n.value), n)
        return self._assign_results(self.ev(load, st), lambda v, s: self.assign(n.target, v, s))

    def _as_load(self, t):
        t2 = ast.parse(ast.unparse(t), mode="eval").body
        return t2

    def assign(self, target, v, st):
        """returns list of states or ('raise', exc, st) tuples"""
        if isinstance(target, ast.Name):
            st.env[target.id] = v
            return [st]
        if isinstance(target, (ast.Tuple, ast.List)):
            items = v if isinstance(v, tuple) else self.concrete_items(v, st)
            if len(items) != len(target.elts):
                raise Unsupported("unpack length")
            res = [st]
            for t, x in zip(target.elts, items):
                nxt = []
                for s in res:
                    nxt.extend(self.assign(t, x, s))
                res = nxt
            return res
        if isinstance(target, ast.Attribute):
            out = []
            for k, o, s in self.ev(target.value, st):
                if k == "raise":
                    out.append(("raise", o, s))
                    continue
                if isinstance(o, Opt):
                    alive = None
                    for none, s_ in self.branch(s, o.none):
                        if none:
                            out.extend(self.raise_ext(s_, "AttributeError", f"'NoneType' object has no attribute '{target.attr}'"))
                        else:
                            alive = s_
                    if alive is None:
                        continue
                    s = alive
                if o is None:
                    out.extend(self.raise_ext(s, "AttributeError", f"'NoneType' object has no attribute '{target.attr}'"))
                    continue
                o = ops.strip_opt(o)
                if isinstance(o, Ref) and (isinstance(o.cls, ClassInfo) or o.cls == "symexc" or str(o.cls).startswith("exc:")):
                    if isinstance(o.cls, ClassInfo) and o.cls.is_dataclass and o.cls.frozen and not s.env.get("__init_of__") == o.oid:
                        out.extend(self.raise_ext(s, "FrozenInstanceError", target.attr))
                        continue
                    if isinstance(o.cls, ClassInfo):
                        m_ = o.cls.find_method(target.attr)
                        if m_ is not None and "property" in m_.decorators:
                            # a property without setter (setters are not in the decorator allowlist): assignment raises
                            out.extend(self.raise_ext(s, "AttributeError", f"property '{target.attr}' has no setter"))
                            continue
                    s.setfield(o, target.attr, v)
                    self.hooks.on_store(self, s, o, target.attr, v)
                    out.append(s)
                elif isinstance(o, Ref) and str(o.cls).startswith("opaque:"):
                    out.extend(self.hooks.opaque_setattr(self, s, o, target.attr, v))
                elif isinstance(o, FuncRef):
                    fa = dict(s.ghost.get("__func_attrs__", {}))   # function attributes (durable_step's _original_name), keyed by the function object
                    fa[id(o)] = dict(fa.get(id(o), {}), **{target.attr: v})
                    s.ghost["__func_attrs__"] = fa
                    s.ghost.setdefault("__func_keepalive__", [])
                    s.ghost["__func_keepalive__"] = list(s.ghost["__func_keepalive__"]) + [o]
                    out.append(s)
                else:
                    raise Unsupported(f"attribute assignment on {o!r}")
            return out
        if isinstance(target, ast.Subscript):
            out = []
            for k, vals, s in self.ev_seq([target.value, target.slice], st):
                if k == "raise":
                    out.append(("raise", vals, s))
                    continue
                o, key = self.unopt(s, vals[0]), vals[1]
                if isinstance(o, Opt) or o is None:
                    raise Unsupported("item assignment on a possibly-None value")
                out.extend(self.setitem(o, key, v, s))
            return out
        raise Unsupported(f"assignment target {ast.unparse(target)}")

    def setitem(self, o, key, v, st):
        if isinstance(o, Ref):
            stor = st.get(o)
            kind = stor.get("__kind__")
            if kind == "dict" and is_concrete(key):
                e = dict(stor["e"])
                e[key] = (T, v)
                st.put(o, {"__kind__": "dict", "e": e, "open": stor["open"]})
                return [st]
            if kind in self.container_models:
                return self.container_models[kind].setitem(self, st, o, key, v)
        raise Unsupported(f"item assignment on {o!r}[{key!r}]")

    def st_Delete(self, n, st):
        raise Unsupported("del")

    def st_Assert(self, n, st):
        def f(v, s):
            out = []
            for ok, s2 in self.branch(s, truth(s, v)):
                out.extend([("fall", None, s2)] if ok else [("raise",) + self.raise_ext(s2, "AssertionError")[0][1:]])
            return out
        return self.lift(self.ev(n.test, st), f)

    # ------------------------------------------------------------------ conditionals with if-conversion
    def st_If(self, n, st):
        def f(v, s):
            return self.cond_exec(simp(truth(s, v)), lambda s1: self.exec_block(n.body, s1), lambda s1: self.exec_block(n.orelse, s1), s)
        return self.lift(self.ev(n.test, st), f)

    def cond_exec(self, c, then_fn, else_fn, s):
        self.stats["ifs"] += 1
        if z3.is_true(c):
            return then_fn(s)
        if z3.is_false(c):
            return else_fn(s)
        yes = self.feasible(s, c)
        no = self.feasible(s, z3.Not(c)) if yes else True
        if yes and not no:
            s.assume(c)
            return then_fn(s)
        if no and not yes:
            s.assume(simp(z3.Not(c)))
            return else_fn(s)
        if not yes and not no:
            return []
        base = self.snapshot(s)
        sa, sb = s.fork(), s
        sa.assume(c)
        sb.assume(simp(z3.Not(c)))
        ra, rb = then_fn(sa), else_fn(sb)
        if self.merging and len(ra) == 1 and len(rb) == 1 and ra[0][0] == "fall" and rb[0][0] == "fall":
            m = self.merge_states(base, c, ra[0][2], rb[0][2], [])
            if m is not None:
                return [("fall", None, m[2])]
        return ra + rb

    def st_Match(self, n, st):
        def f(subj, s):
            return self.match_cases(subj, n.cases, 0, s)
        return self.lift(self.ev(n.subject, st), f)

    def match_cases(self, subj, cases, i, st):
        if i == len(cases):
            return [("fall", None, st)]
        case = cases[i]
        cond, binds = self.pattern(case.pattern, subj, st)

        def then_fn(s):
            for k, v in binds.items():
                s.env[k] = v
            if case.guard is not None:
                def g(v, s2):
                    return self.cond_exec(simp(truth(s2, v)), lambda s3: self.exec_block(case.body, s3), lambda s3: self.match_cases(subj, cases, i + 1, s3), s2)
                return self.lift(self.ev(case.guard, s), g)
            return self.exec_block(case.body, s)
        return self.cond_exec(simp(cond), then_fn, lambda s: self.match_cases(subj, cases, i + 1, s), st)

    def pattern(self, p, subj, st):
        """(z3 condition, bindings)"""
        if isinstance(p, ast.MatchValue):
            res = self.ev(p.value, st)
            if len(res) != 1 or res[0][0] != "val":
                raise Unsupported("match value pattern")
            return ops.values_equal(st, subj, res[0][1]), {}
        if isinstance(p, ast.MatchSingleton):
            if p.value is None:
                return is_none(subj), {}
            return ops.identical(st, subj, p.value), {}
        if isinstance(p, ast.MatchOr):
            cs = [self.pattern(q, subj, st) for q in p.patterns]
            if any(b for _, b in cs):
                raise Unsupported("bindings in or-pattern")
            return z3.Or([c for c, _ in cs]), {}
        if isinstance(p, ast.MatchAs):
            if p.pattern is None:
                return T, ({p.name: subj} if p.name else {})
            c, b = self.pattern(p.pattern, subj, st)
            if p.name:
                b = dict(b)
                b[p.name] = subj
            return c, b
        if isinstance(p, ast.MatchClass) and not p.patterns and not p.kwd_patterns:
            res = self.ev(p.cls, st)
            if len(res) != 1 or res[0][0] != "val":
                raise Unsupported("match class pattern")
            return self.isinstance_(subj, res[0][1], st), {}
        raise Unsupported(f"pattern {ast.dump(p)[:60]}")

    # ------------------------------------------------------------------ exceptions
    def st_Raise(self, n, st):
        if n.exc is None:
            if not st.exc_stack:
                raise Unsupported("bare raise outside handler")
            return [("raise", st.exc_stack[-1], st)]

        def f(v, s):
            if isinstance(v, ClassRef) or (isinstance(v, ExtRef)):
                out = []
                for k, e, s2 in self.call_value(v, [], {}, s):
                    out.append(("raise", e, s2))
                return out
            if isinstance(v, Opt):
                out = []
                for none, s2 in self.branch(s, v.none):
                    out.extend([("raise",) + self.raise_ext(s2, "TypeError", "exceptions must derive from BaseException")[0][1:]] if none else [("raise", v.val, s2)])
                return out
            return [("raise", v, s)]
        return self.lift(self.ev(n.exc, st), f)

    def st_Try(self, n, st):
        def run_finally(results):
            if not n.finalbody:
                return results
            out = []
            for k, v, s in results:
                for k2, v2, s2 in self.exec_block(n.finalbody, s):
                    out.append((k, v, s2) if k2 == "fall" else (k2, v2, s2))
            return out
        out = []
        for k, v, s in self.exec_block(n.body, st):
            if k == "raise":
                out.extend(self.handle(n.handlers, 0, v, s))
            elif k == "fall" and n.orelse:
                out.extend(self.exec_block(n.orelse, s))
            else:
                out.append((k, v, s))
        return run_finally(out)

    def handle(self, handlers, i, exc, st):
        if i == len(handlers):
            return [("raise", exc, st)]
        h = handlers[i]
        if h.type is None:
            c = T
        else:
            res = self.ev(h.type, st)
            if len(res) != 1 or res[0][0] != "val":
                raise Unsupported("except clause type")
            c = self.isinstance_(exc, res[0][1], st)
        out = []
        for taken, s in self.branch(st, c):
            if taken:
                if h.name:
                    s.env[h.name] = exc
                s.exc_stack.append(exc)
                for k, v, s2 in self.exec_block(h.body, s):
                    if s2.exc_stack and s2.exc_stack[-1] is exc:
                        s2.exc_stack.pop()
                    out.append((k, v, s2))
            else:
                out.extend(self.handle(handlers, i + 1, exc, s))
        return out

    def st_With(self, n, st):
        if len(n.items) != 1:
            inner = ast.With(items=n.items[1:], body=n.body)
            ast.copy_location(inner, n)
            outer = ast.With(items=n.items[:1], body=[inner])
            ast.copy_location(outer, n)
            return self.st_With(outer, st)
        item = n.items[0]

        def f(cm, s):
            return self.with_cm(cm, item.optional_vars, n.body, s)
        return self.lift(self.ev(item.context_expr, st), f)

    def with_cm(self, cm, var, body, st):
        out = []
        for k, entered, s in self.cm_enter(cm, st):
            if k == "raise":
                out.append(("raise", entered, s))
                continue
            if var is not None:
                sts = self.assign(var, entered, s)
            else:
                sts = [s]
            for s1 in sts:
                for k2, v2, s2 in self.exec_block(body, s1):
                    for k3, v3, s3 in self.cm_exit(cm, v2 if k2 == "raise" else None, s2):
                        if k3 == "raise":
                            out.append(("raise", v3, s3))
                        elif k2 == "raise" and ops.truth(s3, v3) is not F and not z3.is_false(simp(truth(s3, v3))):
                            # __exit__ returned a possibly-true value: exception may be swallowed
                            for sw, s4 in self.branch(s3, truth(s3, v3)):
                                out.append(("fall", None, s4) if sw else (k2, v2, s4))
                        else:
                            out.append((k2, v2, s3))
        return out

    def cm_enter(self, cm, st):
        if isinstance(cm, Ref) and isinstance(cm.cls, ClassInfo) and cm.cls.find_method("__enter__"):
            return self.call_func(cm.cls.find_method("__enter__"), [cm], {}, st)
        return self.hooks.cm_enter(self, st, cm)

    def cm_exit(self, cm, exc, st):
        if isinstance(cm, Ref) and isinstance(cm.cls, ClassInfo) and cm.cls.find_method("__exit__"):
            args = [cm, None, None, None] if exc is None else [cm, ("typeof", exc), exc, None]
            return self.call_func(cm.cls.find_method("__exit__"), args, {}, st)
        return self.hooks.cm_exit(self, st, cm, exc)

    # ------------------------------------------------------------------ loops
    def st_For(self, n, st):
        key = (st.env.get("__func__"), "for", self.loop_ordinal(st, n))
        if key in self.loop_handlers:
            return self.loop_handlers[key](self, n, st)

        def f(it, s):
            it = self.unopt(s, it)
            if isinstance(it, Ref) and hasattr(self.container_models.get(s.get(it).get("__kind__")), "for_loop"):
                return self.container_models[s.get(it)["__kind__"]].for_loop(self, s, n, it)
            if isinstance(it, Ref) and s.get(it).get("__kind__") == "glist":
                return self.hooks.glist_for(self, s, n, it)
            out = []
            for s_split in self.split_presence(it, s):
                out.extend(self.unroll(n, self.iter_items(it, s_split), 0, s_split))
            return out
        return self.lift(self.ev(n.iter, st), f)

    def unroll(self, n, items, i, st):
        if i == len(items):
            return self.exec_block(n.orelse, st) if n.orelse else [("fall", None, st)]
        out = []
        for s in self.assign(n.target, items[i], st):
            if isinstance(s, tuple):
                out.append(s)
                continue
            for k, v, s2 in self.exec_block(n.body, s):
                if k in ("fall", "continue"):
                    out.extend(self.unroll(n, items, i + 1, s2))
                elif k == "break":
                    out.append(("fall", None, s2))
                else:
                    out.append((k, v, s2))
        return out

    def st_While(self, n, st):
        key = (st.env.get("__func__"), "while", self.loop_ordinal(st, n))
        if key in self.loop_handlers:
            return self.loop_handlers[key](self, n, st)
        # a loop that has no contract at its position may be a loop the check knows by its SHAPE (e.g. the same drain loop moved into a helper):
        # a matcher inspects the loop and the current state and returns the contract to apply, or None
        for matcher in getattr(self, "loop_matchers", ()):
            h = matcher(self, n, st)
            if h is not None:
                return h(self, n, st)
        return self.while_unroll(n, st, self.unroll_bound)

    def while_unroll(self, n, st, budget):
        """bounded unrolling (only used where a check says so; paths exceeding the bound are cut and counted)"""
        def f(v, s):
            out = []
            for taken, s1 in self.branch(s, truth(s, v)):
                if not taken:
                    out.extend(self.exec_block(n.orelse, s1) if n.orelse else [("fall", None, s1)])
                    continue
                if budget <= 0:
                    if not self.allow_cut:
                        raise Unsupported("while loop without invariant")
                    self.stats["cut_paths"] += 1
                    continue
                for k, v2, s2 in self.exec_block(n.body, s1):
                    if k in ("fall", "continue"):
                        out.extend(self.while_unroll(n, s2, budget - 1))
                    elif k == "break":
                        out.append(("fall", None, s2))
                    else:
                        out.append((k, v2, s2))
            return out
        return self.lift(self.ev(n.test, st), f)

    def loop_ordinal(self, st, node):
        fi = st.env.get("__funcinfo__")
        if fi is None:
            return -1
        kind = type(node)
        loops = [x for x in ast.walk(fi.node) if isinstance(x, kind)]
        loops.sort(key=lambda x: (x.lineno, x.col_offset))
        for i, x in enumerate(loops):
            if x is node:
                return i
        return -1

    def st_Break(self, n, st):
        return [("break", None, st)]

    def st_Continue(self, n, st):
        return [("continue", None, st)]

    def st_FunctionDef(self, n, st):
        outer = st.env.get("__funcinfo__")
        fi = FuncInfo(n.name, n, st.env.get("__module__"), None)
        fi.qualname = (outer.qualname if outer else "?") + ".<locals>." + n.name
        fi.cls = outer.cls if outer else None
        st.env["__made_closure__"] = True
        st.env[n.name] = FuncRef(fi, closure=dict(st.env))  # snapshot; names bound later in the defining frame are found live (expr.lookup)
        return [("fall", None, st)]

    def st_Global(self, n, st):
        raise Unsupported("global")

    def st_Nonlocal(self, n, st):
        raise Unsupported("nonlocal")

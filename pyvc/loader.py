"""Loads the repository's modules as ASTs (never imports them) and builds class / function tables.

Dropped by extraction (DESIGN 2.2): docstrings, type annotations (kept only as strings to type
symbolic inputs), `if TYPE_CHECKING:` imports (kept only for name->class resolution of annotations).
"""
from __future__ import annotations

import ast
import builtins
import concurrent.futures
import json
import os
import queue

from . import PKG, SRC


class _AccumulateLoops(ast.NodeTransformer):
    """Mechanical normalisation applied to every function before it is executed (part of the extraction, DESIGN 2.2):
         for T in ITER:                      X.extend([E for T in ITER if C])
             [if C:]            ==>
                 X.append(E)
    for a plain local name X that occurs neither in ITER, C nor E.  The two forms differ only in when the appends happen relative to the
    evaluation of later elements (E / C do not read X) and in how much of X is filled when E raises (X is a local of the aborted frame)."""

    def visit_For(self, node):
        self.generic_visit(node)
        if node.orelse or len(node.body) != 1:
            return node
        stmt, cond = node.body[0], None
        if isinstance(stmt, ast.If) and not stmt.orelse and len(stmt.body) == 1:
            stmt, cond = stmt.body[0], stmt.test
        if not (isinstance(stmt, ast.Expr) and isinstance(stmt.value, ast.Call) and isinstance(stmt.value.func, ast.Attribute) and stmt.value.func.attr == "append"
                and isinstance(stmt.value.func.value, ast.Name) and len(stmt.value.args) == 1 and not stmt.value.keywords):
            return node
        x = stmt.value.func.value.id
        parts = [node.iter, stmt.value.args[0]] + ([cond] if cond is not None else [])
        if any(isinstance(n, ast.Name) and n.id == x for p_ in parts for n in ast.walk(p_)):
            return node
        if any(isinstance(n, (ast.Yield, ast.YieldFrom, ast.Await, ast.NamedExpr)) for p_ in parts for n in ast.walk(p_)):
            return node
        comp = ast.ListComp(elt=stmt.value.args[0], generators=[ast.comprehension(target=node.target, iter=node.iter, ifs=[cond] if cond is not None else [], is_async=0)])
        new = ast.Expr(value=ast.Call(func=ast.Attribute(value=ast.Name(id=x, ctx=ast.Load()), attr="extend", ctx=ast.Load()), args=[comp], keywords=[]))
        return ast.fix_missing_locations(ast.copy_location(new, node))


class FuncInfo:
    def __init__(self, name, node, module, cls=None):
        node = _AccumulateLoops().visit(node)
        self.name, self.node, self.module, self.cls = name, node, module, cls
        self.decorators = []
        for d in node.decorator_list:
            if isinstance(d, ast.Name):
                self.decorators.append(d.id)
            elif isinstance(d, ast.Attribute):
                self.decorators.append(d.attr)
            elif isinstance(d, ast.Call) and isinstance(d.func, ast.Name):
                self.decorators.append(d.func.id)
            elif isinstance(d, ast.Call) and isinstance(d.func, ast.Attribute):
                self.decorators.append(d.func.attr)
            else:
                self.decorators.append(ast.unparse(d))
        self.qualname = f"{module.name}.{cls.name}.{name}" if cls else f"{module.name}.{name}"
        body = node.body
        if body and isinstance(body[0], ast.Expr) and isinstance(body[0].value, ast.Constant) and isinstance(body[0].value.value, str):
            body = body[1:]
        self.body = body
        a = node.args
        self.params = [x.arg for x in a.posonlyargs + a.args]
        self.kwonly = [x.arg for x in a.kwonlyargs]
        self.vararg = a.vararg.arg if a.vararg else None
        self.kwarg = a.kwarg.arg if a.kwarg else None
        self.defaults = dict(zip(self.params[len(self.params) - len(a.defaults):], a.defaults))
        for k, d in zip(self.kwonly, a.kw_defaults):
            if d is not None:
                self.defaults[k] = d
        self.annotations = {x.arg: ast.unparse(x.annotation) for x in a.posonlyargs + a.args + a.kwonlyargs if x.annotation is not None}

    def __repr__(self):
        return f"<func {self.qualname}>"


class ClassInfo:
    def __init__(self, name, node, module):
        self.name, self.node, self.module = name, node, module
        self.base_exprs = []
        for b in node.bases:
            if isinstance(b, ast.Subscript):
                b = b.value
            self.base_exprs.append(ast.unparse(b))
        self.methods = {}
        self.own_fields = []  # (name, annotation str, default ast | None)
        self.class_attrs = {}  # name -> ast expr
        self.is_dataclass = False
        self.frozen = False
        for d in node.decorator_list:
            if (isinstance(d, ast.Name) and d.id == "dataclass") or (isinstance(d, ast.Call) and isinstance(d.func, ast.Name) and d.func.id == "dataclass"):
                self.is_dataclass = True
                if isinstance(d, ast.Call):
                    for kw in d.keywords:
                        if kw.arg == "frozen" and isinstance(kw.value, ast.Constant):
                            self.frozen = bool(kw.value.value)
        for s in node.body:
            if isinstance(s, ast.FunctionDef):
                self.methods[s.name] = FuncInfo(s.name, s, module, self)
            elif isinstance(s, ast.AnnAssign) and isinstance(s.target, ast.Name):
                self.own_fields.append((s.target.id, ast.unparse(s.annotation), s.value))
                if s.value is not None:
                    self.class_attrs[s.target.id] = s.value
            elif isinstance(s, ast.Assign) and len(s.targets) == 1 and isinstance(s.targets[0], ast.Name):
                self.class_attrs[s.targets[0].id] = s.value
        self.bases = []  # resolved later: ClassInfo | 'ext:Name'
        self.key = f"{module.name}.{name}"

    def __repr__(self):
        return f"<class {self.key}>"

    # ---- hierarchy
    def mro(self):
        out = [self]
        for b in self.bases:
            if isinstance(b, ClassInfo):
                for c in b.mro():
                    if c not in out:
                        out.append(c)
        return out

    def ext_bases(self):
        out = []
        for c in self.mro():
            for b in c.bases:
                if isinstance(b, str) and b not in out:
                    out.append(b)
        return out

    @property
    def is_enum(self):
        return any(b in ("ext:Enum", "ext:StrEnum", "ext:IntEnum") for b in self.ext_bases())

    @property
    def is_exception(self):
        return any(b[4:] in EXT_EXC for b in self.ext_bases())

    def enum_members(self):
        out = []
        for s in self.node.body:
            if isinstance(s, ast.Assign) and len(s.targets) == 1 and isinstance(s.targets[0], ast.Name):
                try:
                    out.append((s.targets[0].id, ast.literal_eval(s.value)))
                except Exception:
                    pass
        return out

    def find_method(self, name):
        for c in self.mro():
            if name in c.methods:
                return c.methods[name]
        return None

    def assigned_fields(self):
        """names assigned as `self.<name> = ...` anywhere in the class or its bases (the instance fields the real code creates)"""
        if not hasattr(self, "_assigned_fields"):
            names = set()
            for c in self.mro():
                for m in c.methods.values():
                    for n in ast.walk(m.node):
                        tgt = n.targets if isinstance(n, ast.Assign) else [n.target] if isinstance(n, (ast.AnnAssign, ast.AugAssign)) else []
                        for t in tgt:
                            if isinstance(t, ast.Attribute) and isinstance(t.value, ast.Name) and t.value.id == "self":
                                names.add(t.attr)
            self._assigned_fields = names
        return self._assigned_fields

    def find_class_attr(self, name):
        for c in self.mro():
            if name in c.class_attrs:
                return c.class_attrs[name], c
        return None

    def fields(self):
        """dataclass fields including inherited ones, base first"""
        out, seen = [], {}
        for c in reversed(self.mro()):
            if not c.is_dataclass:
                continue
            for f in c.own_fields:
                if f[0] in seen:
                    out[seen[f[0]]] = f + (c,)
                else:
                    seen[f[0]] = len(out)
                    out.append(f + (c,))
        return out

    def is_subclass_of(self, other):
        """other: ClassInfo or 'ext:Name'"""
        if isinstance(other, ClassInfo):
            return other in self.mro()
        name = other[4:]
        for b in self.ext_bases():
            if ext_subclass(b[4:], name):
                return True
        return False


EXT_EXC = {n: getattr(builtins, n) for n in dir(builtins) if isinstance(getattr(builtins, n), type) and issubclass(getattr(builtins, n), BaseException)}
EXT_EXC["queue.Empty"] = queue.Empty
EXT_EXC["Empty"] = queue.Empty
EXT_EXC["json.JSONDecodeError"] = json.JSONDecodeError
EXT_EXC["JSONDecodeError"] = json.JSONDecodeError
EXT_EXC["CancelledError"] = concurrent.futures.CancelledError


def ext_subclass(a, b):
    if a == b:
        return True
    if a in EXT_EXC and b in EXT_EXC:
        return issubclass(EXT_EXC[a], EXT_EXC[b])
    if b == "object":
        return True
    return False


class ModuleInfo:
    def __init__(self, name, path):
        self.name, self.path = name, path
        self.source = open(path, encoding="utf-8").read()
        self.tree = ast.parse(self.source)
        self.ns = {}  # name -> ('class', ClassInfo) | ('func', FuncInfo) | ('const', ast) | ('import', module, name) | ('extmod', dotted) | ('ext', dotted)
        self.classes, self.funcs = {}, {}

    def __repr__(self):
        return f"<module {self.name}>"


class Program:
    def __init__(self, src=SRC):
        self.src = src
        self.modules = {}
        for root, _, files in os.walk(src):
            for f in sorted(files):
                if f.endswith(".py"):
                    path = os.path.join(root, f)
                    rel = os.path.relpath(path, src)[:-3].replace(os.sep, ".")
                    if rel.endswith("__init__"):
                        rel = rel[: -len("__init__")].rstrip(".") or "__init__"
                    self.modules[rel] = ModuleInfo(rel, path)
        for m in self.modules.values():
            self._scan(m, m.tree.body)
        for m in self.modules.values():
            for c in m.classes.values():
                for b in c.base_exprs:
                    r = self.resolve_name(m, b.split(".")[-1]) if "." not in b else None
                    if r and r[0] == "class":
                        c.bases.append(r[1])
                    else:
                        c.bases.append("ext:" + b.split(".")[-1] if b.split(".")[-1] not in ("Empty",) else "ext:" + b)

    def _scan(self, m, body):
        for s in body:
            if isinstance(s, ast.ClassDef):
                c = ClassInfo(s.name, s, m)
                m.classes[s.name] = c
                m.ns[s.name] = ("class", c)
            elif isinstance(s, ast.FunctionDef):
                f = FuncInfo(s.name, s, m)
                m.funcs[s.name] = f
                m.ns[s.name] = ("func", f)
            elif isinstance(s, ast.ImportFrom):
                mod = s.module or ""
                for a in s.names:
                    nm = a.asname or a.name
                    if mod.startswith(PKG):
                        m.ns[nm] = ("import", mod[len(PKG):].lstrip(".") or "__init__", a.name)
                    else:
                        m.ns[nm] = ("ext", f"{mod}.{a.name}")
            elif isinstance(s, ast.Import):
                for a in s.names:
                    m.ns[a.asname or a.name.split(".")[0]] = ("extmod", a.name if a.asname else a.name.split(".")[0])
            elif isinstance(s, ast.Assign) and len(s.targets) == 1 and isinstance(s.targets[0], ast.Name):
                m.ns[s.targets[0].id] = ("const", s.value)
            elif isinstance(s, ast.AnnAssign) and isinstance(s.target, ast.Name) and s.value is not None:
                m.ns[s.target.id] = ("const", s.value)
            elif isinstance(s, ast.If):  # if TYPE_CHECKING: imports are used for annotation resolution only
                self._scan(m, s.body)

    def resolve_name(self, m, name, depth=0):
        e = m.ns.get(name)
        if e is None or depth > 8:
            return None
        if e[0] == "import":
            target = self.modules.get(e[1])
            if target is None:
                return None
            return self.resolve_name(target, e[2], depth + 1) or ("unresolved", e[1], e[2])
        if e[0] == "const":
            return ("const", e[1], m)
        return e

    def cls(self, key):
        """'state.CheckpointedResult' -> ClassInfo"""
        mod, _, name = key.rpartition(".")
        return self.modules[mod].classes[name]

    def func(self, key):
        """'suspend.suspend_with_optional_resume_delay' or 'state.ExecutionState.create_checkpoint'"""
        parts = key.split(".")
        for i in range(len(parts) - 1, 0, -1):
            mod = ".".join(parts[:i])
            if mod in self.modules:
                m = self.modules[mod]
                rest = parts[i:]
                if len(rest) == 1:
                    return m.funcs[rest[0]]
                if len(rest) == 2:
                    return m.classes[rest[0]].methods[rest[1]]
        raise KeyError(key)

    def nested_func(self, outer: FuncInfo, name):
        """a def nested directly (at any depth of statements) in outer"""
        for n in ast.walk(outer.node):
            if isinstance(n, ast.FunctionDef) and n.name == name and n is not outer.node:
                f = FuncInfo(name, n, outer.module, outer.cls)
                f.qualname = outer.qualname + ".<locals>." + name
                return f
        raise KeyError(name)

    def all_classes(self):
        for m in self.modules.values():
            yield from m.classes.values()

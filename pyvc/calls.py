"""Calls: source functions (inlined or replaced by a registered summary/contract), constructors, isinstance,
builtins and methods of builtin containers (mixin of Engine)."""
from __future__ import annotations

import ast
import itertools

import z3

from . import ops
from .loader import EXT_EXC, ClassInfo, ext_subclass
from .ops import F, T, is_none, mk_opt, strip_opt, truth
from .values import (BoundExt, ClassRef, ExtRef, FuncRef, OpaqueFn, Opt, Ref, Sym, Unsupported, dt_ts, enum_member, enum_sort, fresh,
                     is_concrete, is_sym, simp, zint, zreal, zstr)


PLAIN_DECORATORS = {"classmethod", "staticmethod", "property", "abstractmethod", "dataclass", "overload", "wraps"}
MEMO_DECORATORS = {"cache", "lru_cache"}
INLINED = {}     # qualname -> number of times the REAL body was executed symbolically in this process
SUMMARIZED = {}  # qualname -> number of call sites answered by the callee's contract


_FRAME_IDS = itertools.count(1)


class CallMixin:
    BUILTIN_NAMES = {"isinstance", "len", "str", "int", "float", "bool", "max", "min", "type", "getattr", "hasattr", "any", "all", "sum", "tuple",
                     "list", "dict", "set", "range", "enumerate", "zip", "super", "next", "iter", "bytes", "repr", "sorted", "abs", "callable",
                     "Exception", "BaseException", "object", "NotImplementedError", "bytearray", "memoryview", "frozenset"} | set(EXT_EXC)

    # ------------------------------------------------------------------ dispatch
    def call_value(self, f, args, kwargs, st, node=None):
        if isinstance(f, Opt):
            out = []
            for none, s in self.branch(st, f.none):
                out.extend(self.raise_ext(s, "TypeError", "'NoneType' object is not callable") if none else self.call_value(f.val, args, kwargs, s, node))
            return out
        if isinstance(f, FuncRef):
            a = ([f.bound] if f.bound is not None else []) + list(args)
            return self.call_func(f.f, a, kwargs, st, closure=f.closure)
        if isinstance(f, ClassRef):
            return self.construct(f.cls, args, kwargs, st)
        if isinstance(f, ExtRef):
            return self.call_ext(f.name, args, kwargs, st, node)
        if isinstance(f, BoundExt):
            return self.call_bound_ext(f.recv, f.name, args, kwargs, st)
        if isinstance(f, OpaqueFn):
            return self.hooks.opaque_call(self, st, f, args, kwargs)
        if isinstance(f, Ref) and isinstance(f.cls, ClassInfo) and f.cls.find_method("__call__"):
            return self.call_func(f.cls.find_method("__call__"), [f] + list(args), kwargs, st)
        if isinstance(f, Ref) and str(f.cls).startswith("opaque:"):
            return self.hooks.opaque_call(self, st, OpaqueFn(f.cls[7:], f), args, kwargs)
        raise Unsupported(f"call of {f!r}")

    def call_func(self, fi, args, kwargs, st, closure=None):
        q = fi.qualname
        if q in self.summaries:
            r = self.summaries[q](self, st, args, kwargs)
            if r is not None:
                SUMMARIZED[q] = SUMMARIZED.get(q, 0) + 1  # None: the summary does not apply to these arguments -> the real body is executed
                return r
        if st.depth > 60:
            raise Unsupported(f"recursion depth at {q}")
        INLINED[q] = INLINED.get(q, 0) + 1
        for d in fi.decorators:
            if d in MEMO_DECORATORS and not st.ghost.get("__in_memo__") == q:
                return self.call_memoized(fi, args, kwargs, st, closure)
            if d not in PLAIN_DECORATORS and d not in MEMO_DECORATORS:
                raise Unsupported(f"decorator @{d} on {q}: its effect on the function is not modelled")
        frame = {"__module__": fi.module, "__func__": q, "__funcinfo__": fi, "__frame_id__": next(_FRAME_IDS)}
        if closure is not None:
            frame["__closure__"] = closure
        params = list(fi.params)
        args = list(args)
        if len(args) > len(params):
            if fi.vararg:
                frame[fi.vararg] = tuple(args[len(params):])
                args = args[: len(params)]
            else:
                return self.raise_ext(st, "TypeError", f"{fi.name}() takes {len(params)} positional arguments")
        elif fi.vararg:
            frame[fi.vararg] = ()
        for p, a in zip(params, args):
            frame[p] = a
        extra = {}
        for k, v in kwargs.items():
            if k in params or k in fi.kwonly:
                if k in frame:
                    return self.raise_ext(st, "TypeError", f"multiple values for argument {k}")
                frame[k] = v
            elif fi.kwarg:
                extra[k] = v
            else:
                return self.raise_ext(st, "TypeError", f"unexpected keyword argument {k}")
        if fi.kwarg:
            frame[fi.kwarg] = st.alloc("dict", {"__kind__": "dict", "e": {k: (T, v) for k, v in extra.items()}, "open": False})
        missing = [p for p in params + fi.kwonly if p not in frame]
        for p in missing:
            if p not in fi.defaults:
                return self.raise_ext(st, "TypeError", f"{fi.name}() missing argument {p}")
        # defaults are evaluated in the module scope (all defaults in scope are constants / None); a MUTABLE default object is created once
        # at definition time and shared by every call - not modelled: undecided rather than silently treated as fresh per call
        for p in missing:
            if isinstance(fi.defaults[p], (ast.Dict, ast.List, ast.Set, ast.ListComp, ast.DictComp, ast.SetComp)) or (
                    isinstance(fi.defaults[p], ast.Call) and isinstance(fi.defaults[p].func, ast.Name) and fi.defaults[p].func.id in ("dict", "list", "set", "defaultdict", "deque")):
                raise Unsupported(f"mutable default argument {p} of {q} (one object shared by all calls)")
        for p in missing:
            st.frames.append({"__module__": fi.module})
            try:
                r = self.ev(fi.defaults[p], st)
            finally:
                st.frames.pop()
            if len(r) != 1 or r[0][0] != "val":
                raise Unsupported("default value")
            frame[p] = r[0][1]
        if fi.cls is not None and fi.name == "__init__" and args:
            frame["__init_of__"] = args[0].oid if isinstance(args[0], Ref) else None
        if fi.name == "__post_init__" and args:
            frame["__init_of__"] = args[0].oid if isinstance(args[0], Ref) else None
        st.frames.append(frame)
        st.depth += 1
        self.stats["calls"] += 1
        out = []
        nframes = len(st.frames)
        for k, v, s in self.exec_block(fi.body, st):
            assert len(s.frames) == nframes, (q, len(s.frames), nframes)
            done = s.frames.pop()
            if done.get("__made_closure__"):
                # closures capture VARIABLES, not values: a closure that outlives this call sees the last binding of each captured name
                s.ghost["__dead_frames__"] = {**s.ghost.get("__dead_frames__", {}), done["__frame_id__"]: done}
            s.depth -= 1
            if k == "raise":
                out.append(("raise", v, s))
            elif k in ("ret", "fall"):
                out.append(("val", v if k == "ret" else None, s))
            else:
                raise Unsupported(f"{k} outside loop in {q}")
        return out

    # ------------------------------------------------------------------ construction
    def construct(self, cls, args, kwargs, st):
        if cls.is_enum:
            return self.enum_lookup(cls, args[0], st)
        if any(b == "ext:ABC" or (isinstance(b, ClassInfo) and b.is_subclass_of("ext:ABC")) for b in cls.mro() for b in [b] + list(b.bases)):
            abstract = sorted({n for c in cls.mro() for n, m in c.methods.items() if "abstractmethod" in m.decorators and "abstractmethod" in cls.find_method(n).decorators})
            if abstract:
                return self.raise_ext(st, "TypeError", f"Can't instantiate abstract class {cls.name} with abstract method(s) {', '.join(abstract)}")
        if cls.is_exception:
            ref = st.alloc(cls, {"args": tuple(args)})
            init = cls.find_method("__init__")
            if init is None:
                return [("val", ref, st)]
            return self.then(self.call_func(init, [ref] + list(args), kwargs, st), lambda _, s: [("val", ref, s)])
        if cls.is_dataclass:
            fl = cls.fields()
            stor = {}
            names = [f[0] for f in fl]
            if len(args) > len(names):
                return self.raise_ext(st, "TypeError", f"{cls.name}() too many arguments")
            for n, a in zip(names, args):
                stor[n] = a
            for k, v in kwargs.items():
                if k not in names or k in stor:
                    return self.raise_ext(st, "TypeError", f"{cls.name}() unexpected or duplicate argument {k}")
                stor[k] = v
            res = [st]
            for n, ann, dflt, owner in fl:
                if n in stor:
                    continue
                if dflt is None:
                    return self.raise_ext(st, "TypeError", f"{cls.name}() missing argument {n}")
                nxt = []
                for s in res:
                    for k, v, s2 in self.field_default(dflt, owner, s):
                        if k == "raise":
                            raise Unsupported("raising default factory")
                        s2.ghost.setdefault("__ctor__", {})
                        nxt.append((v, s2))
                if len(nxt) != 1:
                    raise Unsupported("forking default factory")
                stor[n] = nxt[0][0]
                res = [nxt[0][1]]
            s = res[0]
            ref = s.alloc(cls, stor)
            s.ghost.pop("__ctor__", None)
            pi = cls.find_method("__post_init__")
            if pi is not None:
                return self.then(self.call_func(pi, [ref], {}, s), lambda _, s2: [("val", ref, s2)])
            return [("val", ref, s)]
        # ordinary class
        ref = st.alloc(cls, {})
        init = cls.find_method("__init__")
        if init is None:
            if args or kwargs:
                if any(b in ("ext:Protocol", "ext:ABC") for b in cls.ext_bases()) and not args:
                    return [("val", ref, st)]
                return self.raise_ext(st, "TypeError", f"{cls.name}() takes no arguments")
            return [("val", ref, st)]
        return self.then(self.call_func(init, [ref] + list(args), kwargs, st), lambda _, s: [("val", ref, s)])

    def field_default(self, dflt, owner, st):
        if isinstance(dflt, ast.Call) and isinstance(dflt.func, ast.Name) and dflt.func.id == "field":
            kw = {k.arg: k.value for k in dflt.keywords}
            st.frames.append({"__module__": owner.module})
            try:
                if "default_factory" in kw:
                    r = self.then(self.ev(kw["default_factory"], st), lambda f, s: self.call_value(f, [], {}, s))
                elif "default" in kw:
                    r = self.ev(kw["default"], st)
                else:
                    raise Unsupported("field() without default")
            finally:
                pass
            for _, _, s in r:
                s.frames.pop()
            return r
        st.frames.append({"__module__": owner.module})
        r = self.ev(dflt, st)
        for _, _, s in r:
            s.frames.pop()
        return r

    def enum_lookup(self, cls, v, st):
        sort, consts, vals = enum_sort(cls)
        if isinstance(v, Opt):
            out = []
            for none, s in self.branch(st, v.none):
                out.extend(self.raise_ext(s, "ValueError", f"None is not a valid {cls.name}") if none else self.enum_lookup(cls, v.val, s))
            return out
        if is_sym(v, "enum") and v.cls is cls:
            return [("val", v, st)]
        if is_concrete(v):
            for m, pv in vals.items():
                if pv == v and type(pv) is type(v):
                    return [("val", enum_member(cls, m), st)]
            return self.raise_ext(st, "ValueError", f"{v!r} is not a valid {cls.name}")
        if is_sym(v, "str"):
            r = fresh("enum", cls.name, cls)
            valid = z3.Or([z3.And(r.t == c, v.t == z3.StringVal(vals[m])) for m, c in consts.items() if isinstance(vals[m], str)])
            anyv = z3.Or([v.t == z3.StringVal(vals[m]) for m in consts if isinstance(vals[m], str)])
            out = []
            for ok, s in self.branch(st, anyv):
                if ok:
                    s.assume(valid)
                    out.append(("val", r, s))
                else:
                    out.extend(self.raise_ext(s, "ValueError", f"not a valid {cls.name}"))
            return out
        if v is None:
            return self.raise_ext(st, "ValueError", f"None is not a valid {cls.name}")
        raise Unsupported(f"enum lookup {cls.name}({v!r})")

    # ------------------------------------------------------------------ isinstance
    def class_of_pattern(self, c):
        """normalise the second argument of isinstance / an except clause into a list of class descriptors"""
        if isinstance(c, tuple):
            out = []
            for x in c:
                out.extend(self.class_of_pattern(x))
            return out
        if isinstance(c, ClassRef):
            return [c.cls]
        if isinstance(c, ExtRef):
            return [c.name]
        if isinstance(c, Ref) and c.cls == "uniontype":
            return self.class_of_pattern(tuple(self.heap_items(c)))
        raise Unsupported(f"class pattern {c!r}")

    def isinstance_(self, v, c, st):
        return simp(z3.Or([self.isinstance1(v, d, st) for d in self.class_of_pattern(c)]))

    SCALAR_TYPES = {"str": ("str",), "int": ("int", "bool"), "bool": ("bool",), "float": ("real",)}

    def isinstance1(self, v, d, st):
        name = d if isinstance(d, str) else None
        if name:
            name = name.split(".")[-1] if name.split(".")[-1] in EXT_EXC or name in ("re.Pattern",) else name
        if isinstance(v, Opt):
            return simp(z3.And(z3.Not(v.none), self.isinstance1(v.val, d, st)))
        if v is None:
            return z3.BoolVal(name == "object")
        if name == "object":
            return T
        if isinstance(v, Ref):
            if isinstance(v.cls, ClassInfo):
                return z3.BoolVal(v.cls.is_subclass_of(d if isinstance(d, ClassInfo) else "ext:" + name))
            if v.cls == "symexc":
                return self.symexc_isa(v, d, st)
            if isinstance(v.cls, str) and v.cls.startswith("exc:"):
                if isinstance(d, ClassInfo):
                    return F
                return z3.BoolVal(ext_subclass(v.cls[4:], name))
            if v.cls in ("dict", "list", "set", "tuple"):
                return z3.BoolVal(name == v.cls or (name in ("MutableMapping", "collections.abc.MutableMapping", "Mapping") and v.cls == "dict"))
            if isinstance(v.cls, str) and v.cls.startswith("opaque:"):
                return self.hooks.opaque_isinstance(self, st, v, d)
            return F
        if isinstance(v, bool):
            return z3.BoolVal(name in ("bool", "int"))
        if isinstance(v, int):
            return z3.BoolVal(name == "int")
        if isinstance(v, float):
            return z3.BoolVal(name == "float")
        if isinstance(v, str):
            return z3.BoolVal(name == "str")
        if isinstance(v, tuple):
            return z3.BoolVal(name == "tuple")
        if isinstance(v, Sym):
            if v.kind == "enum":
                return z3.BoolVal(isinstance(d, ClassInfo) and v.cls.is_subclass_of(d) or (name == "str" and "ext:StrEnum" in v.cls.ext_bases()))
            if v.kind == "any":
                return self.hooks.any_isinstance(self, st, v, d)
            if v.kind == "dt":
                return z3.BoolVal(name in ("datetime", "datetime.datetime", "date", "datetime.date"))
            kinds = self.SCALAR_TYPES.get(name)
            return z3.BoolVal(bool(kinds) and v.kind in kinds)
        if isinstance(v, (FuncRef, OpaqueFn, ClassRef, ExtRef, BoundExt)):
            return F
        raise Unsupported(f"isinstance({v!r}, {d!r})")

    def symexc_isa(self, ref, d, st):
        """isa-atom of a symbolic-class exception, constrained by the class hierarchy read from the source"""
        key = d.key if isinstance(d, ClassInfo) else d.split(".")[-1]
        if key == "BaseException":
            return T
        stor = st.get(ref)
        atoms = stor["__isa__"]
        if key not in atoms:
            a = z3.Bool(f"exc{ref.oid}_isa_{key}")
            atoms = dict(atoms)
            # hierarchy axioms against every atom created so far
            for k2, (a2, d2) in atoms.items():
                if self.desc_subclass(d, d2):
                    st.assume(z3.Implies(a, a2))
                elif self.desc_subclass(d2, d):
                    st.assume(z3.Implies(a2, a))
                else:
                    st.assume(z3.Not(z3.And(a, a2)))  # single inheritance among the classes the code names
            atoms[key] = (a, d)
            st.setfield(ref, "__isa__", atoms)
            for c in stor.get("__never__", ()):  # classes this exception is known not to be
                if self.desc_subclass(d, c) :
                    st.assume(z3.Not(a))
        return atoms[key][0]

    def desc_subclass(self, a, b):
        if isinstance(a, ClassInfo):
            return a.is_subclass_of(b if isinstance(b, ClassInfo) else "ext:" + b.split(".")[-1])
        if isinstance(b, ClassInfo):
            return False
        return ext_subclass(a.split(".")[-1], b.split(".")[-1])

    def call_memoized(self, fi, args, kwargs, st, closure):
        """functools.cache / lru_cache: equal arguments return the SAME object as the first call (the body is not executed again)"""
        q = fi.qualname
        if kwargs:  # normalise to positional order (functools keys on the call shape; equal values in the same shape hit the cache)
            args = list(args)
            for p_ in fi.params[len(args):]:
                if p_ in kwargs:
                    args.append(kwargs[p_])
                else:
                    break
            if len(args) != len(fi.params) - 0 and any(k_ not in fi.params for k_ in kwargs):
                raise Unsupported(f"memoized {q} called with unknown keywords")
            kwargs = {}

        def same(a, b):
            if isinstance(a, Ref) or isinstance(b, Ref):
                return isinstance(a, Ref) and isinstance(b, Ref) and a.oid == b.oid
            if is_sym(a) and is_sym(b):
                return a.kind == b.kind and z3.eq(simp(a.t), simp(b.t))
            if is_sym(a) or is_sym(b) or isinstance(a, Opt) or isinstance(b, Opt):
                return None
            return type(a) is type(b) and a == b
        # functools hashes the arguments: a list / dict / set (also inside a frozen dataclass or a tuple) raises TypeError
        cond = simp(z3.Or([self.unhashable_cond(st, a) for a in args] + [F]))
        if not z3.is_false(cond) and st.ghost.get("__hash_ok__") != q:
            out = []
            for bad, s_ in self.branch(st, cond):
                if bad:
                    out.extend(self.raise_ext(s_, "TypeError", "unhashable type"))
                else:
                    s_.ghost["__hash_ok__"] = q   # on this path the arguments are hashable
                    for k_, v_, s2_ in self.call_memoized(fi, args, kwargs, s_, closure):
                        s2_.ghost["__hash_ok__"] = None
                        out.append((k_, v_, s2_))
            return out
        table = st.ghost.get("__memo__", {}).get(q, ())
        for a0, r0 in table:
            eqs = [same(x, y) for x, y in zip(a0, args)] if len(a0) == len(args) else [False]
            if all(e is True for e in eqs):
                st.emit("memo_hit", func=q)
                return [("val", r0, st)]
            if any(e is None for e in eqs) or (all(e is not False for e in eqs)):
                raise Unsupported(f"memoized {q}: cannot decide whether the arguments equal an earlier call's")
            if not any(e is False for e in eqs):
                raise Unsupported(f"memoized {q}: undecided argument comparison")
        out = []
        prev = st.ghost.get("__in_memo__")
        st.ghost["__in_memo__"] = q
        for k, v, s in self.call_func(fi, args, kwargs, st, closure):
            s.ghost["__in_memo__"] = prev
            if k == "val":
                memo = dict(s.ghost.get("__memo__", {}))
                memo[q] = tuple(memo.get(q, ())) + ((tuple(args), v),)
                s.ghost["__memo__"] = memo
            out.append((k, v, s))
        return out

    def unhashable_cond(self, st, v, depth=0):
        """z3 Bool: hash(v) raises TypeError (v is, or contains through tuples / frozen dataclasses, a list, dict or set)"""
        if depth > 12:
            return F
        if isinstance(v, Opt):
            return z3.And(z3.Not(v.none), self.unhashable_cond(st, v.val, depth + 1))
        if isinstance(v, tuple):
            return z3.Or([self.unhashable_cond(st, x, depth + 1) for x in v] + [F])
        if is_sym(v, "strlist"):
            return T  # a list[str] value
        if isinstance(v, Ref):
            stor = st.get(v)
            k = stor.get("__kind__")
            if k in ("list", "dict", "set", "glist", "gdict") and v.cls != "tuple":
                return T
            if k in ("tuple",) or v.cls == "tuple":
                return z3.Or([self.unhashable_cond(st, x, depth + 1) for x in stor.get("items", ())] + [F])
            from .loader import ClassInfo as _CI
            if isinstance(v.cls, _CI) and v.cls.is_dataclass:
                if not v.cls.frozen:
                    return T  # eq=True without frozen=True: __hash__ is None
                return z3.Or([self.unhashable_cond(st, x, depth + 1) for n_, x in stor.items() if not n_.startswith("__")] + [F])
        return F

    def new_symexc(self, st, prefix="exc", never=()):
        msg = fresh("str", prefix + "_msg")
        tn = fresh("str", prefix + "_type")
        return st.alloc("symexc", {"__isa__": {}, "__msg__": msg, "__typename__": tn, "args": (msg,), "__never__": tuple(never)})

    def heap_items(self, ref):
        raise Unsupported("uniontype")

    # ------------------------------------------------------------------ builtins / externals
    def call_ext(self, name, args, kwargs, st, node=None):
        h = self.hooks.ext_call(self, st, name, args, kwargs)
        if h is not None:
            return h
        short = name
        if kwargs and short in self.BUILTIN_NAMES and short not in ("dict", "enumerate", "max", "min") and short.split(".")[-1] not in EXT_EXC:
            # the models of the builtins below read positional arguments only: a keyword argument (sorted(key=), sum(start=), int(base=), ...) changes the result
            raise Unsupported(f"builtin {short} called with keyword argument(s) {sorted(kwargs)}")
        if short == "isinstance":
            t = self.isinstance_(args[0], args[1], st)
            return [("val", True if z3.is_true(t) else False if z3.is_false(t) else Sym("bool", t), st)]
        if short == "len":
            return self.len_(args[0], st)
        if short == "str":
            if not args:
                return [("val", "", st)]
            r = self.to_str(args[0], st)
            return [("val", r if r is not None else fresh("str", "str_of"), st)]
        if short == "bool":
            t = simp(truth(st, args[0])) if args else F
            return [("val", True if z3.is_true(t) else False if z3.is_false(t) else Sym("bool", t), st)]
        if short == "int":
            v = args[0]
            if isinstance(v, (int, float)):
                return [("val", int(v), st)]
            if is_sym(v, "int"):
                return [("val", v, st)]
            if is_sym(v, "real"):
                # truncation toward zero
                i = z3.ToInt(v.t)
                return [("val", Sym("int", z3.If(v.t >= 0, i, z3.If(z3.ToReal(i) == v.t, i, i + 1))), st)]
            raise Unsupported(f"int({v!r})")
        if short == "float":
            v = args[0]
            if isinstance(v, str) and v == "inf":
                return [("val", Sym("real", z3.Real("INF")), st)]  # +infinity: a constant above every finite value the check constrains below it
            if isinstance(v, (int, float)):
                return [("val", float(v), st)]
            return [("val", Sym("real", zreal(v)), st)]
        if short in ("max", "min"):
            if set(kwargs) - {"default"} or (len(args) > 1 and kwargs):
                raise Unsupported(f"{short} with keyword argument(s) {sorted(kwargs)}")
            vals = list(args) if len(args) > 1 else self.concrete_items(args[0], st)
            vals = [self.unopt(st, v) for v in vals]  # Optional operands: usable once the path condition excludes None
            if not vals:
                if "default" in kwargs:
                    return [("val", kwargs["default"], st)]
                return self.raise_ext(st, "ValueError", f"{short}() arg is an empty sequence")
            acc = vals[0]
            for v in vals[1:]:
                if is_concrete(acc) and is_concrete(v):
                    acc = max(acc, v) if short == "max" else min(acc, v)
                    continue
                real = ops.is_realish(acc) or ops.is_realish(v)
                x, y = (zreal(acc), zreal(v)) if real else (zint(acc), zint(v))
                acc = Sym("real" if real else "int", simp(z3.If(x >= y, x, y) if short == "max" else z3.If(x <= y, x, y)))
            return [("val", acc, st)]
        if short == "repr" and len(args) == 1:
            v = args[0]
            if isinstance(v, (str, int, float, bool)) or v is None:
                return [("val", repr(v), st)]
            if is_sym(v, "int"):
                return [("val", Sym("str", ops.int_to_str(v.t)), st)]
            if isinstance(v, Sym) and v.kind in ("real", "str", "bool", "any"):
                return [("val", fresh("str", "repr_text"), st)]      # some text (its content is not modelled)
            raise Unsupported(f"repr of {v!r}")
        if short in ("math.isfinite", "math.isnan", "math.isinf") and len(args) == 1:
            v = args[0]
            if isinstance(v, (int, float)) and not isinstance(v, bool):
                import math
                return [("val", getattr(math, short.split(".")[1])(v), st)]
            if is_sym(v, "int") or is_sym(v, "bool") or isinstance(v, bool):
                return [("val", short == "math.isfinite", st)]
            if is_sym(v, "real"):
                # a float is a real number OR one of inf / -inf / nan: the reals of the model stand for the finite floats, and whether a given float
                # is one of the three special values is an uninterpreted predicate of it (nothing is assumed about which floats are finite)
                fin = z3.Function("float_is_finite", z3.RealSort(), z3.BoolSort())(v.t)
                nan = z3.Function("float_is_nan", z3.RealSort(), z3.BoolSort())(v.t)
                st.assume(z3.Implies(nan, z3.Not(fin)))
                t = {"math.isfinite": fin, "math.isnan": nan, "math.isinf": z3.And(z3.Not(fin), z3.Not(nan))}[short]
                return [("val", Sym("bool", simp(t)), st)]
            raise Unsupported(f"{short} of {v!r}")
        if short in ("math.ceil",):
            v = args[0]
            if isinstance(v, (int, float)):
                import math
                return [("val", math.ceil(v), st)]
            if is_sym(v, "int"):
                return [("val", v, st)]
            return [("val", Sym("int", ops.z_ceil(zreal(v))), st)]
        if short == "type":
            return [("val", ("typeof", args[0]), st)]
        if short == "getattr":
            o, nm = args[0], args[1]
            if not isinstance(nm, str):
                raise Unsupported("getattr with symbolic name")
            return self.getattr_default(o, nm, args[2] if len(args) > 2 else "__nodefault__", st)
        if short == "hasattr":
            r = self.getattr_default(args[0], args[1], "__nodefault__", st.fork())
            return [("val", all(k == "val" for k, _, _ in r), st)]
        if short in ("any", "all") and isinstance(args[0], Ref) and st.get(args[0]).get("__kind__") == "glist":
            self.use_generator(args[0], st)
            g = st.get(args[0])
            b = fresh("bool", short + "_of_generic")
            et = truth(st, g["elem"])
            # generic element: all(...) true => the generic element is true (or the list is empty); any(...) false => the generic element is false
            st.assume(z3.Implies(b.t, z3.Or(g["len"] == 0, et)) if short == "all" else z3.Implies(z3.Not(b.t), z3.Or(g["len"] == 0, z3.Not(et))))
            st.assume(z3.Implies(g["len"] == 0, b.t if short == "all" else z3.Not(b.t)))
            if short == "all":
                # forall-introduction over the generic element: if an earlier all(...) over a list of the same length implies this element
                # predicate for the generic element, it implies this all(...)
                for (b0, et0, len0) in st.ghost.get("__alls__", ()):
                    if z3.eq(simp(len0), simp(g["len"])) and not self.feasible(st, z3.And(et0, z3.Not(et))):
                        st.assume(z3.Implies(b0, b.t))
                st.ghost["__alls__"] = tuple(st.ghost.get("__alls__", ())) + ((b.t, et, g["len"]),)
            return [("val", b, st)]
        if short in ("any", "all"):
            items = self.concrete_items(args[0], st)
            ts = [truth(st, x) for x in items]
            t = simp((z3.Or if short == "any" else z3.And)(ts)) if ts else z3.BoolVal(short == "all")
            return [("val", True if z3.is_true(t) else False if z3.is_false(t) else Sym("bool", t), st)]
        if short == "sum":
            items = self.concrete_items(args[0], st)
            acc = 0
            for x in items:
                acc = ops.binop(st, ast.Add(), acc, x)
            return [("val", acc, st)]
        if short == "tuple" and args and isinstance(args[0], Ref) and st.get(args[0]).get("__kind__") == "glist":
            g = st.get(args[0])
            return [("val", st.alloc("tuple", {"__kind__": "glist", "len": g["len"], "elem": g["elem"]}), st)]
        if short == "tuple":
            return [("val", tuple(self.concrete_items(args[0], st)) if args else (), st)]
        if short == "list":
            return [("val", st.alloc("list", {"__kind__": "list", "items": tuple(self.concrete_items(args[0], st)) if args else ()}), st)]
        if short == "set":
            return [("val", st.alloc("set", {"__kind__": "set", "items": self.set_items(self.concrete_items(args[0], st), st) if args else ()}), st)]
        if short == "dict":
            if len(args) == 1 and not kwargs and isinstance(args[0], Ref) and st.get(args[0]).get("__kind__") in self.container_models:
                return self.container_models[st.get(args[0])["__kind__"]].method(self, st, args[0], "copy", [], {})  # dict(m): a snapshot with the same content
            if not args and not kwargs:
                return [("val", st.alloc("dict", {"__kind__": "dict", "e": {}, "open": False}), st)]
            if len(args) == 1 and not kwargs and isinstance(args[0], Ref) and st.get(args[0]).get("__kind__") == "dict" and not st.get(args[0])["open"]:
                # dict(d): SHALLOW copy - the values (nested dicts / lists) stay shared with d
                return [("val", st.alloc("dict", {"__kind__": "dict", "e": dict(st.get(args[0])["e"]), "open": False}), st)]
        if short == "range":
            if all(isinstance(a, int) for a in args):
                return [("val", tuple(range(*args)), st)]
            if len(args) == 1 and is_sym(args[0], "int"):
                # range(n) with symbolic n: generic-element list whose element is an arbitrary index j with 0 <= j < n
                j = fresh("int", "range_index")
                st.assume(z3.Implies(args[0].t > 0, z3.And(j.t >= 0, j.t < args[0].t)))
                n = z3.If(args[0].t > 0, args[0].t, 0)
                return [("val", st.alloc("list", {"__kind__": "glist", "len": n, "elem": j, "is_range": True}), st)]
        if short == "enumerate" and (len(args) > 1 or kwargs):
            start = args[1] if len(args) > 1 else kwargs.get("start")
            if set(kwargs) - {"start"} or not isinstance(start, int) or isinstance(start, bool):
                raise Unsupported("enumerate with a symbolic start")
            return [("val", tuple((i, x) for i, x in enumerate(self.concrete_items(args[0], st), start)), st)]
        if short == "enumerate" and isinstance(args[0], Ref) and st.get(args[0]).get("__kind__") == "glist":
            g = st.get(args[0])
            j = fresh("int", "enum_index")
            st.assume(z3.Implies(g["len"] > 0, z3.And(j.t >= 0, j.t < g["len"])))
            return [("val", st.alloc("list", {"__kind__": "glist", "len": g["len"], "elem": (j, g["elem"]), "is_range": True}), st)]
        if short == "enumerate":
            return [("val", tuple((i, x) for i, x in enumerate(self.concrete_items(args[0], st))), st)]
        if short == "zip":
            return [("val", tuple(zip(*[self.concrete_items(a, st) for a in args])), st)]
        if short == "callable":
            a0 = self.unopt(st, args[0])
            if isinstance(a0, Opt):
                inner = isinstance(a0.val, (FuncRef, OpaqueFn, ClassRef, BoundExt))
                return [("val", Sym("bool", simp(z3.Not(a0.none))) if inner else False, st)]
            if isinstance(a0, ExtRef):
                if a0.name in self.BUILTIN_NAMES:
                    return [("val", True, st)]
                raise Unsupported(f"callable({a0.name})")
            if isinstance(a0, Ref) and isinstance(a0.cls, ClassInfo) and a0.cls.find_method("__call__") is not None:
                return [("val", True, st)]
            return [("val", isinstance(a0, (FuncRef, OpaqueFn, ClassRef, BoundExt)), st)]
        if short == "time.time":
            return [("val", self.now(st), st)]
        if short in ("datetime.datetime.now", "datetime.now"):
            d = fresh("dt", "now")
            st.assume(dt_ts(d.t) == self.now(st).t)
            return [("val", d, st)]
        if short in ("datetime.UTC", "datetime.timezone.utc"):
            return [("val", ExtRef("UTC"), st)]
        if short.split(".")[-1] in EXT_EXC or short in ("Exception", "BaseException"):
            nm = short.split(".")[-1]
            ref = st.alloc("exc:" + nm, {"args": tuple(args)})
            return [("val", ref, st)]
        if short in ("cast", "typing.cast"):
            return [("val", args[1], st)]
        if short in ("TypeVar", "typing.TypeVar", "ParamSpec", "typing.ParamSpec"):
            return [("val", ExtRef("typevar"), st)]
        if short in ("datetime.datetime", "datetime") and args and all(isinstance(a, int) for a in args) and set(kwargs) <= {"tzinfo"}:
            tz = kwargs.get("tzinfo")
            if isinstance(tz, ExtRef) and tz.name.split(".")[-1] in ("UTC", "utc"):
                import calendar
                from .values import dt_off
                full = list(args) + [1, 1, 0, 0, 0][len(args) - 1:] if len(args) < 6 else list(args[:6])
                full = (list(args) + [0] * 6)[:6]
                secs = calendar.timegm((full[0], full[1], full[2], full[3], full[4], full[5], 0, 0, 0))
                d = fresh("dt", "const")   # a concrete UTC instant (S: proleptic Gregorian seconds since the epoch)
                st.assume(dt_ts(d.t) == secs + (args[6] if len(args) > 6 else 0) / 1_000_000)
                st.assume(dt_off(d.t) == 0)
                return [("val", d, st)]
            raise Unsupported("datetime constructor with a zone other than UTC")
        if short in ("datetime.timedelta", "timedelta") and not args and all(isinstance(v_, (int, float)) or is_sym(v_, "int") for v_ in kwargs.values()):
            # exact: integer (or constant) multiples of a unit; a symbolic FLOAT argument would be rounded to microseconds and is not modelled
            unit = {"days": "86400", "hours": "3600", "minutes": "60", "seconds": "1", "milliseconds": "1/1000", "microseconds": "1/1000000"}
            if not set(kwargs) <= set(unit):
                raise Unsupported("timedelta unit")
            total = z3.Sum([(z3.ToReal(v_.t) if is_sym(v_, "int") else z3.RealVal(str(v_))) * z3.RealVal(unit[k_]) for k_, v_ in kwargs.items()] + [z3.RealVal(0)])
            return [("val", Sym("td", simp(total)), st)]
        if short == "re.escape" and args:
            return [("val", fresh("str", "regex_escaped"), st)]   # S: some string (the literal, escaped)
        if short == "re.compile":
            return [("val", st.alloc("opaque:re.Pattern", {"pattern": args[0]}), st)]
        if short == "logging.getLogger":
            return [("val", st.alloc("opaque:stdlogger", {}), st)]
        if short == "super":
            fi = st.env.get("__funcinfo__")
            selfv = st.env.get(fi.params[0]) if fi and fi.params else None
            return [("val", ("super", fi.cls, selfv), st)]
        raise Unsupported(f"external call {name}")

    def now(self, st):
        t = fresh("real", "clock")
        prev = st.ghost.get("__clock__")
        if prev is not None:
            st.assume(t.t >= prev.t)
        else:
            st.assume(t.t >= 0)
        st.ghost["__clock__"] = t
        st.emit("clock", t=t)
        return t

    def getattr_default(self, o, nm, default, st):
        o2 = strip_opt(o)
        if isinstance(o, Opt) or o is None:
            if o is None:
                return [("val", default, st)] if default != "__nodefault__" else self.raise_ext(st, "AttributeError", nm)
            out = []
            for none, s in self.branch(st, o.none):
                if none:
                    out.extend([("val", default, s)] if default != "__nodefault__" else self.raise_ext(s, "AttributeError", nm))
                else:
                    out.extend(self.getattr_default(o2, nm, default, s))
            return out
        if isinstance(o2, (FuncRef, OpaqueFn)) and default != "__nodefault__":
            return self.hooks.func_attr(self, st, o2, nm, default)
        res = self.getattr_(o2, nm, st)
        if default == "__nodefault__":
            return res
        out = []
        for k, v, s in res:
            if k == "raise" and self.is_ext_exc(v, "AttributeError"):
                out.append(("val", default, s))
            else:
                out.append((k, v, s))
        return out

    def is_ext_exc(self, v, name):
        return isinstance(v, Ref) and v.cls == "exc:" + name

    def len_(self, v, st):
        if isinstance(v, tuple) and v and isinstance(v[0], str) and v[0] in ("bytes_of", "b64", "typeof", "super", "superext"):
            return self.hooks.len_of(self, st, v)  # engine pseudo-values are not Python tuples
        if isinstance(v, (str, tuple, bytes)):
            return [("val", len(v), st)]
        if is_sym(v, "str"):
            # len() of a symbolic string is an uninterpreted length (>= 0, zero iff empty), decoupled from the sequence theory
            # (z3 would otherwise build witnesses of e.g. 262145 characters for `len(s) > CHECKPOINT_SIZE_LIMIT`)
            slen = z3.Function("slen", z3.StringSort(), z3.IntSort())
            n = slen(v.t)
            st.assume(z3.And(n >= 0, (n == 0) == (v.t == z3.StringVal(""))))
            return [("val", Sym("int", n), st)]
        if is_sym(v, "strlist"):
            return [("val", Sym("int", z3.Length(v.t)), st)]
        if isinstance(v, Ref):
            s = st.get(v)
            k = s.get("__kind__")
            if k in ("list", "tuple", "set"):
                return [("val", len(s["items"]), st)]
            if k == "dict" and not s["open"]:
                ps = [p for p, _ in s["e"].values()]
                if all(z3.is_true(p) for p in ps):
                    return [("val", len(ps), st)]
                return [("val", Sym("int", z3.Sum([z3.If(p, 1, 0) for p in ps])), st)]
            if k in ("glist", "deque", "rlist", "rqueue"):
                return [("val", Sym("int", s["len"]), st)]
            if k == "zseq":
                return [("val", Sym("int", z3.Length(s["seq"])), st)]
            if k in self.container_models:
                return self.container_models[k].len(self, st, v)
        if isinstance(v, Opt):
            out = []
            for none, s in self.branch(st, v.none):
                out.extend(self.raise_ext(s, "TypeError", "object of type 'NoneType' has no len()") if none else self.len_(v.val, s))
            return out
        return self.hooks.len_of(self, st, v)

    # ------------------------------------------------------------------ methods of builtin values
    def call_bound_ext(self, recv, name, args, kwargs, st):
        if isinstance(recv, Ref):
            stor = st.get(recv)
            k = stor.get("__kind__")
            if k == "dict":
                return self.dict_method(recv, stor, name, args, kwargs, st)
            if k == "list":
                return self.list_method(recv, stor, name, args, kwargs, st)
            if k == "glist" and name == "index" and len(args) == 1:
                # list.index(x): the position of the FIRST element equal to x - some position of the list, not necessarily the one x came from
                r = fresh("int", "first_equal_position")
                st.assume(z3.And(r.t >= 0, r.t < stor["len"]))
                return [("val", r, st)]
            if k == "set":
                return self.set_method(recv, stor, name, args, kwargs, st)
            if k in self.container_models:
                return self.container_models[k].method(self, st, recv, name, args, kwargs)
        if isinstance(recv, str) or is_sym(recv, "str"):
            return self.str_method(recv, name, args, kwargs, st)
        if is_sym(recv, "dt"):
            if name == "timestamp":
                return [("val", Sym("real", dt_ts(recv.t)), st)]
            if name == "astimezone" and not args and not kwargs:
                from .values import dt_off
                d = fresh("dt", "astimezone")  # the same instant, expressed in the local zone (S)
                st.assume(dt_ts(d.t) == dt_ts(recv.t))
                return [("val", d, st)]
            if name == "replace" and set(kwargs) == {"tzinfo"} and isinstance(kwargs["tzinfo"], ExtRef) and kwargs["tzinfo"].name.split(".")[-1] in ("UTC", "utc"):
                from .values import dt_off
                d = fresh("dt", "replaced")  # same wall-clock fields, zone forced to UTC: the instant moves by the old offset
                st.assume(dt_ts(d.t) == dt_ts(recv.t) + dt_off(recv.t))
                st.assume(dt_off(d.t) == 0)
                return [("val", d, st)]
        if is_sym(recv, "any"):
            return self.hooks.any_method(self, st, recv, name, args, kwargs)
        if isinstance(recv, tuple):
            return self.hooks.pseudo_method(self, st, recv, name, args, kwargs)
        raise Unsupported(f"method {name} of {recv!r}")

    def dict_method(self, recv, stor, name, args, kwargs, st):
        if name == "get":
            k = args[0]
            dflt = args[1] if len(args) > 1 else None
            if is_concrete(k):
                if k in stor["e"]:
                    p, v = stor["e"][k]
                    if z3.is_true(p):
                        return [("val", v, st)]
                    if z3.is_false(p):
                        return [("val", dflt, st)]
                    try:
                        base = self.snapshot(st)
                        m = ops.merge_values(p, v, dflt, st, st, st, base["heap"])
                        return [("val", m, st)]
                    except Exception:
                        out = []
                        for present, s in self.branch(st, p):
                            out.append(("val", v if present else dflt, s))
                        return out
                if not stor["open"]:
                    return [("val", dflt, st)]
            return self.hooks.open_dict_get(self, st, recv, k, dflt)
        if name in ("items", "keys", "values") and not stor["open"] and not all(z3.is_true(p) for p, _ in stor["e"].values()):
            out = []
            for s_split in self.split_presence(recv, st):
                out.extend(self.dict_method(recv, s_split.get(recv), name, args, kwargs, s_split))
            return out
        if name == "items":
            if stor["open"] or not all(z3.is_true(p) for p, _ in stor["e"].values()):
                raise Unsupported("items() of dict with maybe-present keys")
            return [("val", tuple((k, v) for k, (p, v) in stor["e"].items()), st)]
        if name == "keys":
            return [("val", tuple(self.iter_items(recv, st)), st)]
        if name == "values":
            if stor["open"] or not all(z3.is_true(p) for p, _ in stor["e"].values()):
                raise Unsupported("values() of dict with maybe-present keys")
            return [("val", tuple(v for p, v in stor["e"].values()), st)]
        if name == "setdefault" and 1 <= len(args) <= 2 and not stor["open"] and is_concrete(args[0]):
            k = args[0]
            dflt = args[1] if len(args) > 1 else None
            if k in stor["e"]:
                p, v = stor["e"][k]
                if z3.is_true(simp(p)):
                    return [("val", v, st)]
                out = []
                for present, s in self.branch(st, p):
                    cur = s.get(recv)
                    e = dict(cur["e"])
                    e[k] = (T, v if present else dflt)
                    s.put(recv, dict(cur, e=e))
                    out.append(("val", v if present else dflt, s))
                return out
            e = dict(stor["e"])
            e[k] = (T, dflt)
            st.put(recv, dict(stor, e=e))
            return [("val", dflt, st)]
        if name == "copy":
            return [("val", st.alloc("dict", stor), st)]
        if name == "update" and len(args) == 1 and isinstance(args[0], Ref) and st.get(args[0]).get("__kind__") == "dict":
            src = st.get(args[0])
            if src["open"] or not all(z3.is_true(p) for p, _ in src["e"].values()):
                raise Unsupported("update from dict with maybe-present keys")
            e = dict(stor["e"])
            e.update(src["e"])
            st.put(recv, {"__kind__": "dict", "e": e, "open": stor["open"]})
            return [("val", None, st)]
        raise Unsupported(f"dict.{name}")

    def list_method(self, recv, stor, name, args, kwargs, st):
        if name == "append":
            st.put(recv, {"__kind__": "list", "items": stor["items"] + (args[0],)})
            return [("val", None, st)]
        if name == "extend":
            a0 = args[0]
            if isinstance(a0, Ref) and st.get(a0).get("__kind__") not in ("list", "tuple", "set"):
                if stor["items"]:
                    raise Unsupported("extend of a non-empty list with a symbolic list")
                st.put(recv, dict(st.get(a0)))   # [] extended by a symbolic / generic list IS that list (storages are values)
                return [("val", None, st)]
            st.put(recv, {"__kind__": "list", "items": stor["items"] + tuple(self.concrete_items(a0, st))})
            return [("val", None, st)]
        if name == "copy":
            return [("val", st.alloc("list", stor), st)]
        raise Unsupported(f"list.{name}")

    def set_method(self, recv, stor, name, args, kwargs, st):
        raise Unsupported(f"set.{name}")

    def str_method(self, recv, name, args, kwargs, st):
        if isinstance(recv, str) and all(isinstance(a, str) for a in args) and name in ("startswith", "endswith", "strip", "encode", "lower", "upper"):
            return [("val", getattr(recv, name)(*args), st)]
        t = zstr(recv)
        if name == "startswith":
            return [("val", Sym("bool", z3.PrefixOf(zstr(args[0]), t)), st)]
        if name == "endswith":
            return [("val", Sym("bool", z3.SuffixOf(zstr(args[0]), t)), st)]
        if name == "encode":
            return [("val", ("bytes_of", recv), st)]
        if name == "strip":
            return [("val", self.hooks.str_strip(self, st, recv), st)]
        if name == "join" and len(args) == 1 and not kwargs:
            # sep.join(items): the items must all be str - join does NOT convert (TypeError on the first item that is not a str)
            try:
                items = self.iter_items(args[0], st)
            except Unsupported:
                items = None
            if items is None:
                maybe_bad, definitely_bad = True, False
            else:
                definitely_bad = any(not (isinstance(x, str) or is_sym(x, "str")) and not isinstance(x, Opt) and not is_sym(x, "any") for x in items)
                maybe_bad = definitely_bad or any(isinstance(x, Opt) or is_sym(x, "any") for x in items)
            if definitely_bad:
                return self.raise_ext(st, "TypeError", "sequence item: expected str instance")
            out = []
            if maybe_bad:
                out.extend(self.raise_ext(st.fork(), "TypeError", "sequence item: expected str instance"))
            if items is not None and not maybe_bad:
                parts = []
                for i, x in enumerate(items):
                    if i:
                        parts.append(recv)
                    parts.append(x)
                if all(isinstance(p_, str) for p_ in parts):
                    return [("val", "".join(parts), st)]
                return [("val", Sym("str", simp(z3.Concat([zstr(p_) for p_ in parts])) if len(parts) > 1 else zstr(parts[0])), st)]
            return out + [("val", fresh("str", "joined"), st)]
        raise Unsupported(f"str.{name}")

"""The symbolic executor: Engine = expressions + statements + calls, plus default hooks, symbolic input
construction from class annotations and the path-summary API used by the property checks."""
from __future__ import annotations

import re
import time

import z3

from . import ops
from .calls import CallMixin
from .expr import ExprMixin
from .loader import ClassInfo, Program
from .ops import F, T, mk_opt
from .state import St
from .stmt import StmtMixin
from .values import (BoundExt, ClassRef, ExtRef, FuncRef, OpaqueFn, Opt, Ref, Sym, Unsupported, fresh, fresh_name, is_sym, simp)


class Hooks:
    """Default behaviour at the boundary of the modelled subset.  Checks subclass this."""

    def opaque_attr(self, eng, st, ref, name):
        stor = st.get(ref)
        if name in stor:
            return [("val", stor[name], st)]
        return [("val", OpaqueFn(f"{ref.cls[7:]}.{name}", ref), st)]

    def opaque_setattr(self, eng, st, ref, name, v):
        st.setfield(ref, name, v)
        return [st]

    def opaque_fn_attr(self, eng, st, fn, name):
        raise Unsupported(f"attribute {name} of opaque callable {fn.name}")

    def func_attr(self, eng, st, fn, name, default):
        """getattr(func, name, default) on a function value"""
        attrs = st.ghost.get("__func_attrs__", {}).get(id(fn), {})
        if name in attrs:
            return [("val", attrs[name], st)]
        if name == "__name__" and hasattr(fn, "f"):
            return [("val", fn.f.name, st)]
        return [("val", default, st)]

    def exc_attr(self, eng, st, ref, name):
        """an attribute of an exception object of arbitrary class that the model knows nothing about: it may not exist (AttributeError), or hold
        an arbitrary value (possibly None) - both outcomes are explored; the value is remembered so that a second read sees the same one"""
        if name.startswith("__"):
            raise Unsupported(f"attribute {name} of exception {ref!r}")
        s_missing = st.fork()
        v = mk_opt(z3.Bool(fresh_name(f"exc.{name}.is_none")), fresh("any", f"exc_{name}"))
        st.setfield(ref, name, v)
        return [("val", v, st)] + eng.raise_ext(s_missing, "AttributeError", name)

    def opaque_call(self, eng, st, fn, args, kwargs):
        """default: an unknown callable returns an arbitrary value or raises an arbitrary exception; recorded in the trace"""
        if fn.name.startswith("Unmodelled."):
            raise Unsupported(f"use of a field that the contract's symbolic object does not model ({fn.name})")
        st.emit("call", name=fn.name, args=tuple(args), kwargs=dict(kwargs))
        s2 = st.fork()
        exc = eng.new_symexc(s2, fn.name.replace(".", "_"))
        s2.emit("raised", name=fn.name, exc=exc)
        return [("val", fresh("any", fn.name.replace(".", "_") + "_ret"), st), ("raise", exc, s2)]

    def ext_call(self, eng, st, name, args, kwargs):
        return None

    def open_dict_get(self, eng, st, ref, key, default=None):
        raise Unsupported(f"lookup of {key!r} in an open/symbolic dict")

    def open_dict_has(self, eng, st, ref, key):
        raise Unsupported(f"membership of {key!r} in an open dict")

    def glist_getitem(self, eng, st, ref, k):
        raise Unsupported("index into generic list")

    def glist_comp(self, eng, st, e, gen, it, kind):
        """comprehension over a generic-element list: body executed once on the generic element (forall-introduction)"""
        stor = st.get(it)
        if gen.ifs or kind != "list":
            raise Unsupported("filtered / non-list comprehension over generic list")
        sts = eng.bind_target(gen.target, stor["elem"], st)
        out = []
        for s in sts:
            for k, v, s2 in eng.ev(e.elt, s):
                if k == "raise":
                    out.append((k, v, s2))
                else:
                    out.append(("val", s2.alloc("list", {"__kind__": "glist", "len": stor["len"], "elem": v}), s2))
        return out

    def on_binop(self, eng, st, node, a, b, result):
        """called after every arithmetic binary operation (for provenance tracking such as 'this value went through a rounded division')"""
        return None

    def on_compare(self, eng, st, node, op, a, b):
        return None

    def on_store(self, eng, st, ref, name, value):
        """called after every attribute store `ref.name = value` on a modelled object (for invariants that must hold at every single write)"""
        return None

    def glist_for(self, eng, st, node, it):
        raise Unsupported("for over generic list without a loop contract")

    def cm_enter(self, eng, st, cm):
        if isinstance(cm, Ref) and cm.cls in ("opaque:Lock", "opaque:lock"):
            return [("val", cm, st)]
        raise Unsupported(f"context manager {cm!r}")

    def cm_exit(self, eng, st, cm, exc):
        if isinstance(cm, Ref) and cm.cls in ("opaque:Lock", "opaque:lock"):
            return [("val", None, st)]
        raise Unsupported(f"context manager {cm!r}")

    def opaque_isinstance(self, eng, st, v, d):
        key = d.key if isinstance(d, ClassInfo) else d
        return z3.Bool(f"isinst_{v.oid}_{key}")

    def any_isinstance(self, eng, st, v, d):
        key = d.key if isinstance(d, ClassInfo) else d
        f = z3.Function("any_isinstance_" + re.sub(r"\W", "_", key), ops.ANY, z3.BoolSort())
        return f(v.t)

    def any_method(self, eng, st, recv, name, args, kwargs):
        raise Unsupported(f"method {name} of an arbitrary value")

    def pseudo_method(self, eng, st, recv, name, args, kwargs):
        raise Unsupported(f"method {name} of {recv!r}")

    def len_of(self, eng, st, v):
        raise Unsupported(f"len({v!r})")

    def str_strip(self, eng, st, s):
        r = fresh("str", "stripped")
        st.assume(z3.Length(r.t) <= z3.Length(ops.zstr(s)))
        return r


class Engine(ExprMixin, StmtMixin, CallMixin):
    def __init__(self, program: Program | None = None, hooks: Hooks | None = None, merging=True):
        self.program = program or Program()
        self.hooks = hooks or Hooks()
        self.merging = merging
        self.summaries = {}  # qualname -> fn(engine, st, args, kwargs) -> results   (callee contract used at call sites)
        self.loop_handlers = {}  # (qualname, 'for'|'while', ordinal) -> fn(engine, node, st) -> stmt results
        self.container_models = {}
        self.const_overrides = {}
        self.stats = {"stmts": 0, "ifs": 0, "merges": 0, "calls": 0, "feasibility_queries": 0, "cut_paths": 0, "solver_s": 0.0}
        self.max_stmts = 150_000   # the largest check executes < 10 000 statements per engine; a runaway exploration (e.g. unbounded recursion) stops here as 'unsupported'
        self.unroll_bound = 0
        self.allow_cut = False
        self.feas_timeout_ms = 20_000

    # ------------------------------------------------------------------ solver
    def feasible(self, st, c):
        self.stats["feasibility_queries"] += 1
        t0 = time.time()
        s = z3.Solver()
        s.set("timeout", self.feas_timeout_ms)
        s.add(*st.pc)
        s.add(c)
        r = s.check()
        self.stats["solver_s"] += time.time() - t0
        if r == z3.unknown:
            return True  # keep the path: over-approximation is sound for proving
        return r == z3.sat

    def unopt(self, st, v):
        """strip the Optional wrapper when the path condition excludes None"""
        while isinstance(v, Opt) and not self.feasible(st, v.none):
            st.assume(z3.Not(v.none))
            v = v.val
        return v

    # ------------------------------------------------------------------ attribute access on pseudo values
    def getattr_(self, o, name, st):
        if isinstance(o, tuple) and o and o[0] == "typeof":
            v = self.unopt(st, o[1])
            if isinstance(v, Opt):
                raise Unsupported("type(x).__name__ of a possibly-None value")
            if name == "__name__":
                if v is None:
                    return [("val", "NoneType", st)]
                if isinstance(v, (bool, int, float, str)):
                    return [("val", type(v).__name__, st)]
                if isinstance(v, Sym) and v.kind in ("int", "bool", "str"):
                    return [("val", v.kind, st)]
                if isinstance(v, Ref):
                    if isinstance(v.cls, ClassInfo):
                        return [("val", v.cls.name, st)]
                    if v.cls == "symexc":
                        return [("val", st.get(v)["__typename__"], st)]
                    if isinstance(v.cls, str) and v.cls.startswith("exc:"):
                        return [("val", v.cls[4:], st)]
                return [("val", fresh("str", "typename"), st)]
            raise Unsupported(f"type(...).{name}")
        if isinstance(o, tuple) and o and o[0] == "super":
            _, cls, selfv = o
            mro = selfv.cls.mro() if isinstance(selfv, Ref) and isinstance(selfv.cls, ClassInfo) else cls.mro()
            after = mro[mro.index(cls) + 1:] if cls in mro else []
            for c in after:
                if name in c.methods:
                    return [("val", FuncRef(c.methods[name], bound=selfv), st)]
            return [("val", BoundExt(("superext", selfv), name), st)]
        return ExprMixin.getattr_(self, o, name, st)

    def call_bound_ext(self, recv, name, args, kwargs, st):
        if isinstance(recv, tuple) and recv and recv[0] == "superext":
            selfv = recv[1]
            if name == "__init__":
                if isinstance(selfv, Ref) and (isinstance(selfv.cls, ClassInfo) and selfv.cls.is_exception):
                    st.setfield(selfv, "args", tuple(args))
                return [("val", None, st)]
            raise Unsupported(f"super().{name}")
        return CallMixin.call_bound_ext(self, recv, name, args, kwargs, st)

    # ------------------------------------------------------------------ symbolic inputs from annotations
    ALIASES = {"OperationPayload": "str", "ReplayChildren": "bool", "TimeoutSeconds": "int", "Numeric": "float"}

    def sym_of_type(self, ann, name, st, module=None, depth=0):
        """fully symbolic, well-typed value of the annotated type (well-typedness of inputs is the implicit precondition)"""
        ann = ann.strip()
        ann = self.ALIASES.get(ann, ann)
        parts = self._split_union(ann)
        if len(parts) > 1:
            non = [p for p in parts if p != "None"]
            if len(non) == 1 and "None" in parts:
                inner = self.sym_of_type(non[0], name, st, module, depth)
                return mk_opt(z3.Bool(fresh_name(name + ".is_none")), inner)
            if set(non) <= {"int", "float"}:
                v = fresh("real", name)
                return mk_opt(z3.Bool(fresh_name(name + ".is_none")), v) if "None" in parts else v
            raise Unsupported(f"union type {ann}")
        if ann == "str":
            return fresh("str", name)
        if ann == "int":
            return fresh("int", name)
        if ann == "bool":
            return fresh("bool", name)
        if ann == "float":
            return fresh("real", name)
        if ann in ("datetime.datetime", "datetime"):
            d = fresh("dt", name)
            from .values import dt_off
            st.assume(z3.And(dt_off(d.t) > -86400, dt_off(d.t) < 86400))  # well-typed aware datetime
            return d
        if ann == "list[str]":
            return fresh("strlist", name)
        if ann in ("Any", "T", "R", "P", "U", "object", "ResultType", "CallableType"):
            return fresh("any", name)
        m = re.match(r"^list\[(.*)\]$", ann)
        if m:
            elem = self.sym_of_type(m.group(1), name + "[i]", st, module, depth + 1)
            n = z3.Int(fresh_name(name + ".len"))
            st.assume(n >= 0)
            return st.alloc("list", {"__kind__": "glist", "len": n, "elem": elem})
        base = ann.split("[")[0]
        cls = self.find_class(base, module)
        if cls is not None:
            if cls.is_enum:
                return fresh("enum", name, cls)
            if cls.is_dataclass:
                stor = {}
                for fname, fann, _, owner in cls.fields():
                    stor[fname] = self.sym_of_type(fann, f"{name}.{fname}", st, owner.module, depth + 1)
                return st.alloc(cls, stor)
        if ann.startswith("Callable"):
            return OpaqueFn(name)
        raise Unsupported(f"symbolic input of type {ann}")

    @staticmethod
    def _split_union(ann):
        out, depth, cur = [], 0, ""
        for ch in ann:
            if ch == "[":
                depth += 1
            elif ch == "]":
                depth -= 1
            if ch == "|" and depth == 0:
                out.append(cur.strip())
                cur = ""
            else:
                cur += ch
        out.append(cur.strip())
        return out

    def find_class(self, name, module=None):
        if module is not None:
            r = self.program.resolve_name(module, name)
            if r and r[0] == "class":
                return r[1]
        hits = [c for c in self.program.all_classes() if c.name == name]
        if len(hits) == 1:
            return hits[0]
        if len(hits) > 1:
            non_proto = [c for c in hits if "ext:Protocol" not in c.ext_bases()]
            if len(non_proto) == 1:
                return non_proto[0]
        return None

    # ------------------------------------------------------------------ running a function
    def new_state(self):
        return St()

    def run(self, fi, args, kwargs=None, st=None, closure=None):
        """all path summaries of the real body of fi: list of (kind 'val'|'raise', value, state)"""
        st = st or St()
        return self.call_func(fi, args, kwargs or {}, st, closure=closure)

    def method(self, cls_key, name):
        return self.program.cls(cls_key).find_method(name)

"""Contracts of the checkpoint batcher: ExecutionState._collect_checkpoint_batch (three loop invariants) and
ExecutionState.checkpoint_batches_forever (outer loop invariant, per-element loops, drain loops) - C05, C03, C06, C11."""
from __future__ import annotations

import z3

from pyvc import ops
from pyvc.engine import Engine, Hooks
from pyvc.loops import ForEach, LoopContract
from pyvc.ops import F, T, is_none, mk_opt, strip_opt
from pyvc.state import St
from pyvc.values import ClassRef, ExtRef, OpaqueFn, Opt, Ref, Sym, Unsupported, fresh, fresh_name, is_sym, simp

from . import qmodel
from .qmodel import PSUM, QueueHooksMixin, RangeModel, apply_foreach, element, generic_element_of, ghost_arrays, is_async, is_empty

COLLECT = "state.ExecutionState._collect_checkpoint_batch"
FOREVER = "state.ExecutionState.checkpoint_batches_forever"


class BatcherHooks(Hooks, QueueHooksMixin):
    def opaque_attr(self, eng, st, ref, name):
        r = self.q_attr(eng, st, ref, name)
        if r is not None:
            return r
        return Hooks.opaque_attr(self, eng, st, ref, name)

    def opaque_call(self, eng, st, fn, args, kwargs):
        r = self.q_call(eng, st, fn, args, kwargs)
        if r is not None:
            return r
        n = fn.name
        if n == "StopEvent.is_set":
            b = z3.Bool(fresh_name("stopped"))
            prev = st.ghost.get("stopped")
            if prev is not None:
                st.assume(z3.Implies(prev, b))  # an Event stays set (nothing in scope clears it)
            st.ghost["stopped"] = b
            return [("val", Sym("bool", b), st)]
        if n == "DurableServiceClient.checkpoint":
            st.emit("api_call", token=kwargs.get("checkpoint_token"), updates=kwargs.get("updates"), arn=kwargs.get("durable_execution_arn"))
            s2 = st.fork()
            exc = eng.new_symexc(s2, "api")
            s2.assume(eng.symexc_isa(exc, "Exception", s2))  # B/S: the client raises Exceptions (CheckpointError); other BaseExceptions kill the thread (outside the model)
            s2.emit("api_failed", exc=exc)
            tok = fresh("str", "token")
            ops_seq = st.alloc("list", {"__kind__": "zseq", "seq": z3.Const(fresh_name("resp_ops"), z3.SeqSort(z3.IntSort()))})
            nes = st.alloc("opaque:NewExecutionState", {"operations": ops_seq, "next_marker": eng.sym_of_type("str | None", "resp_marker", st)})
            out = st.alloc("opaque:CheckpointOutput", {"checkpoint_token": tok, "new_execution_state": nes})
            st.ghost["last_token"] = tok
            st.trace[-1].d["result"] = out
            return [("val", out, st), ("raise", exc, s2)]
        if n == "FailedEvent.set":
            st.emit("failed_set", err=args[0] if args else None)
            return [("val", None, st)]
        return Hooks.opaque_call(self, eng, st, fn, args, kwargs)

    def ext_call(self, eng, st, name, args, kwargs):
        return None


def new_range(st, cls, kind, name, start=None, length=None, grows=False):
    return st.alloc(cls, {"__kind__": kind, "start": start if start is not None else z3.Int(fresh_name(name + ".start")), "len": length if length is not None else z3.Int(fresh_name(name + ".len")), "name": name, "grows": grows})


def make_state_obj(eng, st, chk, prefix):
    P = eng.program
    eng.container_models["rqueue"] = eng.container_models["rlist"] = RangeModel(chk, prefix)
    cfg = eng.sym_of_type("CheckpointBatcherConfig", "cfg", st, P.modules["state"])
    c = st.get(cfg)
    st.assume(z3.And(c["max_batch_operations"].t >= 1, c["max_batch_size_bytes"].t >= 0))
    d = z3.Int("d0")
    ol = z3.Int("ol0")
    st.assume(z3.And(d >= 0, ol >= 0, ol <= 1))
    ml = z3.Int("ml0")
    st.assume(ml >= 0)
    overflow = new_range(st, "rqueue", "rqueue", "overflow", start=d, length=ol)
    main = new_range(st, "rqueue", "rqueue", "main", start=d + ol, length=ml, grows=True)
    self_ = st.alloc(P.cls("state.ExecutionState"), {
        "durable_execution_arn": fresh("str", "arn"), "_current_checkpoint_token": fresh("str", "token0"),
        "_service_client": st.alloc("opaque:DurableServiceClient", {}), "_batcher_config": cfg,
        "_checkpoint_queue": main, "_overflow_queue": overflow,
        "_checkpointing_stopped": st.alloc("opaque:StopEvent", {}), "_checkpointing_failed": st.alloc("opaque:FailedEvent", {})})
    return self_, {"d": d, "ol": ol, "cfg": c, "main": main, "overflow": overflow}


def size_summary(eng, st, args, kwargs):
    i = qmodel.elem_idx(st, args[-1])
    st.assume(qmodel.psum_axioms(i))
    return [("val", Sym("int", qmodel.size(i)), st)]


# ------------------------------------------------------------------------------------------------ _collect_checkpoint_batch
def collect_loops(chk, eng, g, prefix):
    d, ol = g["d"], g["ol"]
    max_ops, max_bytes = g["cfg"]["max_batch_operations"].t, g["cfg"]["max_batch_size_bytes"].t

    def rl(st, name):
        return st.get(st.env[name])

    def q(st, ref):
        return st.get(ref)

    def to_rlist(eng_, st):
        b = st.env.get("batch")
        if isinstance(b, Ref) and st.get(b).get("__kind__") == "list":
            if st.get(b)["items"]:
                raise Unsupported("non-empty concrete batch")
            st.env["batch"] = new_range(st, "list", "rlist", "batch", length=z3.IntVal(0))

    def havoc_common(st, names=("batch",)):
        st.env["batch"] = new_range(st, "list", "rlist", "batch")
        st.env["total_size"] = fresh("int", "total_size")

    # loop 0: overflow drain ---------------------------------------------------------------------------
    def inv0(eng_, st):
        b, O, M = rl(st, "batch"), q(st, g["overflow"]), q(st, g["main"])
        n = b["len"]
        return z3.And(n >= 0, n <= max_ops, z3.Implies(n > 0, b["start"] == d), O["len"] >= 0, O["len"] + n == ol, z3.Implies(O["len"] > 0, O["start"] == d + n),
                      ops.zint(st.env["total_size"]) == PSUM(d + n) - PSUM(d), M["start"] == d + ol, M["len"] >= 0,
                      z3.Or(PSUM(d + n) - PSUM(d) <= max_bytes, n <= 1))

    def havoc0(eng_, st):
        havoc_common(st)
        st.put(g["overflow"], dict(q(st, g["overflow"]), start=z3.Int(fresh_name("O.start")), len=z3.Int(fresh_name("O.len"))))

    # loop 1: blocking get of the first element -------------------------------------------------------------
    def inv1(eng_, st):
        b, O, M = rl(st, "batch"), q(st, g["overflow"]), q(st, g["main"])
        snap = st.ghost["snap1"]
        return z3.And(b["len"] == 0, ops.zint(st.env["total_size"]) == 0, O["start"] == snap["Os"], O["len"] == snap["Ol"], M["start"] == snap["Ms"], M["len"] >= 0)

    def abstract1(eng_, st):
        O, M = q(st, g["overflow"]), q(st, g["main"])
        st.ghost["snap1"] = {"Os": O["start"], "Ol": O["len"], "Ms": M["start"]}

    def havoc1(eng_, st):
        havoc_common(st)
        st.put(g["main"], dict(q(st, g["main"]), len=z3.Int(fresh_name("M.len"))))

    # loop 2: batching window ---------------------------------------------------------------------------------
    def abstract2(eng_, st):
        b, O = rl(st, "batch"), q(st, g["overflow"])
        st.ghost["snap2"] = {"bs": b["start"], "Os": O["start"], "Ol": O["len"]}

    def inv2(eng_, st):
        b, O, M = rl(st, "batch"), q(st, g["overflow"]), q(st, g["main"])
        snap = st.ghost["snap2"]
        n, bs = b["len"], snap["bs"]
        return z3.And(n >= 1, n <= max_ops, b["start"] == bs, M["start"] == bs + n, M["len"] >= 0, O["start"] == snap["Os"], O["len"] == snap["Ol"],
                      ops.zint(st.env["total_size"]) == PSUM(bs + n) - PSUM(bs), z3.Or(PSUM(bs + n) - PSUM(bs) <= max_bytes, n <= 1))

    def havoc2(eng_, st):
        havoc_common(st)
        st.put(g["main"], dict(q(st, g["main"]), start=z3.Int(fresh_name("M.start")), len=z3.Int(fresh_name("M.len"))))
        for v in ("remaining_time", "additional_op", "op_size"):
            st.env.pop(v, None)

    eng.loop_handlers[(COLLECT, "while", 0)] = LoopContract(chk, f"{prefix}.collect.loop_overflow_drain", inv0, havoc0, abstract=to_rlist, desc="batch is the run [d, d+n) taken from the overflow queue, n <= 1, sizes accounted",
                                                             variant=lambda e_, s_: q(s_, g["overflow"])["len"], variant_desc="length of the overflow queue (only this thread writes it)")
    eng.loop_handlers[(COLLECT, "while", 1)] = LoopContract(chk, f"{prefix}.collect.loop_first_element", inv1, havoc1, abstract=abstract1, desc="nothing is taken until the first element arrives")
    eng.loop_handlers[(COLLECT, "while", 2)] = LoopContract(chk, f"{prefix}.collect.loop_window", inv2, havoc2, abstract=abstract2, desc="batch is the contiguous run ending where the main queue starts; size and count limits hold",
                                                             variant=lambda e_, s_: max_ops - rl(s_, "batch")["len"], variant_desc="room left in the batch: every iteration that continues appends one update")


def collect_post(st, g, batch_ref):
    """the contract of _collect_checkpoint_batch written from the statement of C05 (used as obligations here, assumed at the call site in the consumer)"""
    d, ol = g["d"], g["ol"]
    c = g["cfg"]
    b, O, M = st.get(batch_ref), st.get(g["overflow"]), st.get(g["main"])
    n = b["len"]
    dn = d + n
    return {
        "fifo_progress": z3.And(n >= 0, z3.Implies(n > 0, b["start"] == d)),
        "queues_consistent": z3.Or(z3.And(O["len"] == 0, M["start"] == dn), z3.And(O["len"] == 1, O["start"] == dn, M["start"] == dn + 1)),
        "limits": z3.And(n <= c["max_batch_operations"].t, z3.Or(PSUM(dn) - PSUM(d) <= c["max_batch_size_bytes"].t, n <= 1)),
        "overflow_small": z3.And(O["len"] >= 0, O["len"] <= 1),
        "empty_only_when_stopped": z3.Implies(n == 0, st.ghost.get("stopped", F)),
    }


DESC = {"fifo_progress": "a non-empty batch starts with the next undelivered element (an element waiting in the overflow queue goes first)",
        "queues_consistent": "batch ++ overflow ++ main is the original overflow ++ main ++ arrivals: nothing lost, duplicated or reordered across batch and overflow boundaries",
        "limits": "at most max_batch_operations elements; total size within max_batch_size_bytes unless the batch is a single element",
        "overflow_small": "the overflow queue never holds more than one element",
        "empty_only_when_stopped": "an empty batch is returned only after the stop signal was observed"}


def check_collect(chk, prefix="C05"):
    done = getattr(chk, "_listed", None)
    if done is None:
        done = chk._listed = set()
    if "collect_run" in done:
        return None
    done.add("collect_run")
    done.add("collect")
    eng = Engine(hooks=BatcherHooks())
    st = St()
    self_, g = make_state_obj(eng, st, chk, prefix + ".collect")
    eng.summaries["state.ExecutionState._calculate_operation_size"] = size_summary
    collect_loops(chk, eng, g, prefix)
    chk.function(COLLECT, "verified (three loop invariants)")
    chk.function("state.ExecutionState._calculate_operation_size", "trusted summary: size >= 0, 0 for empty checkpoints")
    chk.require_sat(f"{prefix}.collect.pre_satisfiable", st.pc)
    fi = eng.program.func(COLLECT)
    res = eng.run(fi, [self_], st=st)
    chk.paths += len(res)
    for k, v, s in res:
        if k == "raise":
            chk.prove(f"{prefix}.collect.total", s.pc, F, desc="_collect_checkpoint_batch does not raise")
            continue
        b = v
        if not (isinstance(b, Ref) and s.get(b).get("__kind__") == "rlist"):
            # the early `return batch` of an untouched concrete empty list
            if isinstance(b, Ref) and s.get(b).get("__kind__") == "list" and not s.get(b)["items"]:
                b = new_range(s, "list", "rlist", "batch", length=z3.IntVal(0))
            else:
                chk.prove(f"{prefix}.collect.total", s.pc, F, desc="_collect_checkpoint_batch returns the batch list it built (the model's range list, or the untouched empty list)")
                continue
        def replay_native(inputs):
            from pyvc.check import native
            r_ = native("batcher_bounded.py", {"max_items": 3}, timeout=300)
            return (not r_.get("ok")), r_
        for name, goal in collect_post(s, g, b).items():
            chk.prove(f"{prefix}.collect.{name}", s.pc, goal, desc=DESC[name], sample=f"_collect_checkpoint_batch exit path: {name}", replay=replay_native,
                      describe=lambda m: {"note": "replayed by the native conformance run over small queues (native/batcher_bounded.py); solver model: " + chk.model_text(m)[:600]})
    for k in eng.stats:
        chk.engine_stats[k] = chk.engine_stats.get(k, 0) + eng.stats[k]
    return eng


# ------------------------------------------------------------------------------------------------ checkpoint_batches_forever
def woken_range(st, lo, hi, name="i", err=None, before=None):
    """z3: every synchronous element with index in [lo, hi) has had its completion event set; with `err` given: and the error it was set with is
    err (unless the element had already been released before, array `before`)"""
    W, We = ghost_arrays(st)
    i = z3.Int(fresh_name(name))
    body = z3.Select(W, i)
    if err is not None:
        body = z3.And(body, z3.Or(z3.Select(before, i) if before is not None else F, z3.Select(We, i) == err))
    return z3.ForAll([i], z3.Implies(z3.And(i >= lo, i < hi, z3.Not(is_async(i))), body))


def check_consumer(chk, prefix, want=("C03", "C05", "C06", "C01")):
    done = getattr(chk, "_listed", None)
    if done is None:
        done = chk._listed = set()
    # the consumer is verified AGAINST the contracts of _collect_checkpoint_batch and fetch_paginated_operations: a check that relies on the consumer
    # discharges those two contracts as well (once), instead of leaving them to a sibling check
    if "collect" not in done:
        done.add("collect")
        check_collect(chk, prefix)
    if "merge" not in done:
        done.add("merge")
        from . import state_contracts as _S
        _S.merge_all_pages(chk, prefix)
    eng = Engine(hooks=BatcherHooks())
    st = St()
    self_, g0 = make_state_obj(eng, st, chk, prefix + ".consumer")
    P = eng.program
    chk.function(FOREVER, "verified (outer loop invariant, per-element loops by generic element, two drain-loop invariants)")
    chk.function(COLLECT, "contract used at the call site (verified in C05.collect.*)")
    chk.function("state.ExecutionState.fetch_paginated_operations", "contract used at the call site (verified in C01.state.merge_all_pages)")
    st.ghost["d"] = g0["d"]
    st.ghost["last_token"] = st.get(self_)["_current_checkpoint_token"]
    ghost_arrays(st)
    st.ghost["W"] = z3.Array("W0", z3.IntSort(), z3.BoolSort())
    st.ghost["Werr"] = z3.Array("Werr0", z3.IntSort(), z3.IntSort())
    st.assume(woken_range(st, 0, g0["d"]))
    cfg = g0["cfg"]

    def O(st_):
        return st_.get(g0["overflow"])

    def M(st_):
        return st_.get(g0["main"])

    # contract of _collect_checkpoint_batch at the call site -------------------------------------------
    def collect_summary(eng_, st_, args, kwargs):
        d = st_.ghost["d"]
        ol = O(st_)["len"]
        g = dict(g0, d=d, ol=ol)
        st_.put(g0["overflow"], dict(O(st_), start=z3.Int(fresh_name("O.start")), len=z3.Int(fresh_name("O.len"))))
        st_.put(g0["main"], dict(M(st_), start=z3.Int(fresh_name("M.start")), len=z3.Int(fresh_name("M.len"))))
        b = new_range(st_, "list", "rlist", "batch")
        stopped = z3.Bool(fresh_name("stopped"))
        if st_.ghost.get("stopped") is not None:
            st_.assume(z3.Implies(st_.ghost["stopped"], stopped))
        st_.ghost["stopped"] = stopped
        for goal in collect_post(st_, g, b).values():
            st_.assume(goal)
        st_.assume(M(st_)["len"] >= 0)
        st_.ghost["batch_range"] = (st_.get(b)["start"], st_.get(b)["len"])
        st_.ghost["d"] = d + st_.get(b)["len"]
        st_.emit("collect", batch=b)
        return [("val", b, st_)]

    def fetch_summary(eng_, st_, args, kwargs):
        st_.emit("merge", ops=args[1] if len(args) > 1 else None, token=args[2] if len(args) > 2 else None, marker=args[3] if len(args) > 3 else None)
        s2 = st_.fork()
        exc = eng_.new_symexc(s2, "fetch")
        s2.assume(eng_.symexc_isa(exc, "Exception", s2))
        s2.emit("merge_failed", exc=exc)
        return [("val", None, st_), ("raise", exc, s2)]

    eng.summaries[COLLECT] = collect_summary
    eng.summaries["state.ExecutionState.fetch_paginated_operations"] = fetch_summary

    # outer loop ---------------------------------------------------------------------------------------------
    def inv_outer(eng_, st_):
        d = st_.ghost["d"]
        o, m = O(st_), M(st_)
        tok = st_.env["current_checkpoint_token"]
        return z3.And(d >= 0, o["len"] >= 0, o["len"] <= 1, z3.Implies(o["len"] == 1, o["start"] == d), m["start"] == d + o["len"], m["len"] >= 0,
                      ops.values_equal(st_, tok, st_.ghost["last_token"]), woken_range(st_, 0, d))

    def havoc_outer(eng_, st_):
        st_.ghost["d"] = z3.Int(fresh_name("d"))
        st_.put(g0["overflow"], dict(O(st_), start=z3.Int(fresh_name("O.start")), len=z3.Int(fresh_name("O.len"))))
        st_.put(g0["main"], dict(M(st_), start=z3.Int(fresh_name("M.start")), len=z3.Int(fresh_name("M.len"))))
        st_.ghost["W"] = z3.Array(fresh_name("W"), z3.IntSort(), z3.BoolSort())
        st_.ghost["Werr"] = z3.Array(fresh_name("Werr"), z3.IntSort(), z3.IntSort())
        tok = fresh("str", "cur_token")
        st_.env["current_checkpoint_token"] = tok
        st_.ghost["last_token"] = tok
        st_.ghost["iter_start"] = len(st_.trace)
        st_.ghost["token_at_call"] = tok
        st_.ghost["W_iter"] = st_.ghost["W"]
        for v in ("batch", "updates", "output", "bg_error", "item", "queued_op"):
            st_.env.pop(v, None)

    # drain loops ----------------------------------------------------------------------------------------------
    def mk_drain(which):
        ref = g0[which]

        def abstract(eng_, st_):
            q = st_.get(ref)
            st_.ghost["drain_" + which] = (q["start"], q["len"], st_.ghost["W"], st_.ghost["Werr"])
            st_.emit("drain_start", which=which)

        def inv(eng_, st_):
            q = st_.get(ref)
            s0, l0, W_entry, We_entry = st_.ghost["drain_" + which]
            i = z3.Int(fresh_name("i"))
            # completion events are never cleared, and the error of an event that is already set is never replaced (first error wins)
            # the failure the waiters must see: the error the failed flag was set with in this iteration (the flag precedes the drains:
            # `produce.no_lost_wakeup.flag_before_drain`), whatever the local variable that carries it is called where the loop lives
            fs = [e for e in st_.trace[st_.ghost.get("iter_start", 0):] if e.kind == "failed_set" and isinstance(e.err, Ref)]
            errv = fs[-1].err if fs else st_.env.get("bg_error")
            eid = qmodel.err_id(errv) if isinstance(errv, Ref) else z3.IntVal(-2)
            Wn, Wen = st_.ghost["W"], st_.ghost["Werr"]
            inside = z3.And(i >= s0, i < q["start"])
            # one quantified fact: outside the drained prefix nothing changed; inside it, an event that was already set keeps its error (first error
            # wins), a synchronous element that was not set is now set with the failure, an asynchronous one is untouched
            per_elem = z3.If(inside,
                             z3.If(z3.Select(W_entry, i), z3.And(z3.Select(Wn, i), z3.Select(Wen, i) == z3.Select(We_entry, i)),
                                   z3.If(is_async(i), z3.And(z3.Not(z3.Select(Wn, i)), z3.Select(Wen, i) == z3.Select(We_entry, i)), z3.And(z3.Select(Wn, i), z3.Select(Wen, i) == eid))),
                             z3.And(z3.Select(Wn, i) == z3.Select(W_entry, i), z3.Select(Wen, i) == z3.Select(We_entry, i)))
            base = z3.And(q["start"] >= s0, z3.ForAll([i], per_elem))
            if which == "overflow":
                base = z3.And(base, q["start"] + q["len"] == s0 + l0, q["len"] >= 0)
            return base

        def havoc(eng_, st_):
            q = st_.get(ref)
            st_.put(ref, dict(q, start=z3.Int(fresh_name(which + ".start")), len=z3.Int(fresh_name(which + ".len"))))
            st_.ghost["W"] = z3.Array(fresh_name("W"), z3.IntSort(), z3.BoolSort())
            st_.ghost["Werr"] = z3.Array(fresh_name("Werr"), z3.IntSort(), z3.IntSort())
            st_.env.pop("item", None)
        return LoopContract(chk, f"{prefix}.consumer.loop_drain_{which}", inv, havoc, abstract=abstract, desc=f"every element taken from the {which} queue so far has been woken")

    class Foreach2(ForEach):
        def __call__(self, eng_, node, st_):
            res = ForEach.__call__(self, eng_, node, st_)
            for k, v, s in res:
                if k == "fall":
                    apply_foreach(s, s.trace[-1])
            return res

    def on_step(eng_, s):
        # one complete iteration that ended normally (success path, or an empty batch)
        it = s.trace[s.ghost.get("iter_start", 0):]
        api = [(i, e) for i, e in enumerate(it) if e.kind == "api_call"]
        lo, n = s.ghost.get("batch_range", (z3.IntVal(0), z3.IntVal(0)))
        if not api:
            chk.prove(f"{prefix}.consumer.no_call_for_empty_batch", s.pc, n == 0, desc="no API call is made for an empty batch, and a non-empty batch is always sent")
            return
        i_api, ev_api = api[0]
        merges = [(i, e) for i, e in enumerate(it) if e.kind == "merge"]
        fes = [(i, e) for i, e in enumerate(it) if e.kind == "foreach"]
        early = [e for i, e in enumerate(it) if e.kind in ("qset", "foreach") and (not merges or i < merges[0][0])]
        out = ev_api.d.get("result")
        ok = len(api) == 1 and len(merges) == 1 and len(fes) == 1 and not early and i_api < merges[0][0] < fes[0][0] and isinstance(out, Ref)
        goal = z3.BoolVal(ok)
        if ok:
            m = merges[0][1]
            nes = s.get(s.get(out)["new_execution_state"])
            goal = z3.And(goal, z3.BoolVal(m.ops is nes["operations"] or m.ops == nes["operations"]), ops.values_equal(s, m.token, s.get(out)["checkpoint_token"]), ops.values_equal(s, m.marker, nes["next_marker"]))
            sets = [q for _, evs in fes[0][1].bodies for q in evs if q.kind == "qset"]
            goal = z3.And(goal, z3.BoolVal(all(q.err is None for q in sets)), woken_range(s, lo, lo + n))
        chk.prove(f"{prefix}.consumer.ack_after_apply", s.pc, goal,
                  desc="success path: client.checkpoint -> merge of THIS response (operations, token, marker: all pages) -> only then every synchronous element of the batch is released, without error",
                  sample="iteration trace: api_call, merge(response), foreach(batch: set())")
        upd = ev_api.updates
        us = s.get(upd) if isinstance(upd, Ref) else {}
        exact = z3.BoolVal(us.get("__kind__") == "gmap")
        if us.get("__kind__") == "gmap":
            j = us["j"]
            exact = z3.And(us["src_start"] == lo, us["src_len"] == n, z3.ForAll([j], us["cond"] == z3.Not(is_empty(j))), z3.BoolVal(us["elt_cls"] == "opaque:QUpdate"), us["elt_idx"] == j if us["elt_idx"] is not None else F)
        chk.prove(f"{prefix}.consumer.updates_exact", s.pc, exact, desc="one API call per batch; its updates are exactly the non-empty updates of the batch, in batch order")
        chk.prove(f"{prefix}.consumer.token_chain", s.pc, z3.And(ops.values_equal(s, ev_api.token, s.ghost["token_at_call"]), ops.values_equal(s, ev_api.arn, s.get(self_)["durable_execution_arn"])),
                  desc="each API call carries the token returned by the previous call (the initial token for the first call)")

    eng.loop_handlers[(FOREVER, "while", 0)] = LoopContract(chk, f"{prefix}.consumer.loop_outer", inv_outer, havoc_outer, on_step=on_step,
                                                            desc="queues hold the contiguous undelivered run, the token is the one returned by the previous call, every delivered synchronous element was woken")
    fe = Foreach2(chk, f"{prefix}.consumer.foreach_batch", generic_element_of)
    eng.loop_handlers[(FOREVER, "for", 0)] = fe
    eng.loop_handlers[(FOREVER, "for", 1)] = fe
    eng.loop_handlers[(FOREVER, "while", 1)] = mk_drain("overflow")
    eng.loop_handlers[(FOREVER, "while", 2)] = mk_drain("main")

    def drain_by_shape(eng_, node, st_):
        """`while not Q.empty(): ...` where Q evaluates to one of the two queues of THIS state, met outside its usual position (the failure handler's
        drain loop extracted into a helper and called once per queue): the same drain contract applies, chosen by the queue object"""
        import ast as _ast
        t = node.test
        qexpr = None
        if (isinstance(t, _ast.UnaryOp) and isinstance(t.op, _ast.Not) and isinstance(t.operand, _ast.Call) and isinstance(t.operand.func, _ast.Attribute)
                and t.operand.func.attr == "empty" and not t.operand.args):
            qexpr = t.operand.func.value
        elif isinstance(t, _ast.Constant) and t.value is True and node.body and isinstance(node.body[0], _ast.Try):
            # `while True: try: x = Q.get_nowait() except queue.Empty: break/return` - the same drain, without the racy empty() test
            for b in node.body[0].body:
                c = b.value if isinstance(b, (_ast.Assign, _ast.Expr)) else None
                if isinstance(c, _ast.Call) and isinstance(c.func, _ast.Attribute) and c.func.attr == "get_nowait" and not c.args:
                    qexpr = c.func.value
                    break
        if qexpr is None:
            return None
        try:
            qs = eng_.ev(qexpr, st_.fork())
        except Unsupported:
            return None
        if len(qs) != 1 or qs[0][0] != "val":
            return None
        for which in ("overflow", "main"):
            if qs[0][1] == g0[which]:
                return mk_drain(which)
        return None
    eng.loop_matchers = [drain_by_shape]

    fi = P.func(FOREVER)
    res = eng.run(fi, [self_], st=st)
    chk.paths += len(res)
    n_fail = n_ok = 0
    for k, v, s in res:
        if k == "raise":
            chk.prove(f"{prefix}.consumer.total", s.pc, F, desc="the consumer loop does not raise (Exceptions of the service call / merge are handled)")
            continue
        it = s.trace[s.ghost.get("iter_start", 0):]
        api = [(i, e) for i, e in enumerate(it) if e.kind == "api_call"]
        failed = [e for e in it if e.kind == "failed_set"]
        if not api:
            continue  # exit through the loop guard (stop signal): nothing to show
        i_api, ev_api = api[0]
        lo, n = s.ghost["batch_range"]
        # ---- C05: token chain and exactly-once hand-over to the API
        tok_ok = ops.values_equal(s, ev_api.token, s.ghost["iter_token"]) if "iter_token" in s.ghost else None
        upd = ev_api.updates
        us = s.get(upd) if isinstance(upd, Ref) else {}
        exact = z3.BoolVal(us.get("__kind__") == "gmap")
        if us.get("__kind__") == "gmap":
            j = us["j"]
            exact = z3.And(us["src_start"] == lo, us["src_len"] == n, z3.ForAll([j], us["cond"] == z3.Not(is_empty(j))), z3.BoolVal(us["elt_cls"] == "opaque:QUpdate"), us["elt_idx"] == j if us["elt_idx"] is not None else F)
        chk.prove(f"{prefix}.consumer.updates_exact", s.pc, z3.And(exact, z3.BoolVal(len(api) == 1)),
                  desc="one API call per batch; its updates are exactly the non-empty updates of the batch, in batch order", sample="client.checkpoint(updates=[q.operation_update for q in batch if not None])")
        arn_ok = ops.values_equal(s, ev_api.arn, s.get(self_)["durable_execution_arn"])
        chk.prove(f"{prefix}.consumer.token_chain", s.pc, z3.And(ops.values_equal(s, ev_api.token, s.ghost["token_at_call"]) if "token_at_call" in s.ghost else T, arn_ok),
                  desc="each API call carries the token returned by the previous call (the initial token for the first call)")
        if failed:
            n_fail += 1
            # ---- C06: fail-stop
            err = failed[0].err
            is_bg = isinstance(err, Ref) and getattr(err.cls, "name", "") == "BackgroundThreadError"
            cause = [e for e in it if e.kind in ("api_failed", "merge_failed")]
            src_ok = is_bg and cause and s.get(err).get("source_exception") == cause[0].exc
            qsets = [e for e in it if e.kind == "qset"] + [q for e in it if e.kind == "foreach" for _, evs in e.bodies for q in evs if q.kind == "qset"]
            all_err = all(q.err == err for q in qsets)
            m_end = M(s)["start"]
            D = "after a failed API call / merge: every synchronous element of the batch, the overflow queue and the main queue as of the drain is woken with BackgroundThreadError(cause); the failed flag is set with it; no further API call; the loop exits"
            chk.prove(f"{prefix}.consumer.fail_wakes_all.error_object", s.pc, bool(src_ok and all_err and len(api) == 1), desc=D)
            eid = qmodel.err_id(err) if isinstance(err, Ref) else z3.IntVal(-2)
            Wb = s.ghost.get("W_iter")
            chk.prove(f"{prefix}.consumer.fail_wakes_all.batch", s.pc, woken_range(s, lo, lo + n, err=eid, before=Wb), desc=D)
            chk.prove(f"{prefix}.consumer.fail_wakes_all.queues", s.pc, z3.And(woken_range(s, lo + n, m_end, err=eid, before=Wb), O(s)["len"] <= 0, m_end >= lo + n), desc=D)
            chk.prove(f"{prefix}.consumer.fail_wakes_all.earlier", s.pc, woken_range(s, 0, lo), desc="elements delivered earlier stay woken")
            kinds = [e.kind for e in it]
            drains = [i for i, e in enumerate(it) if e.kind == "drain_start"]
            def replay_lw(inputs):
                from pyvc.check import native
                r_ = native("lost_wakeup_replay.py", {})
                return bool(r_.get("confirmed")), r_
            chk.prove(f"{prefix}.produce.no_lost_wakeup.flag_before_drain", s.pc, bool(drains) and kinds.index("failed_set") < drains[0] and len(failed) == 1, replay=replay_lw,
                      describe=lambda m: {"schedule": "producer passes the failed-flag test; the API call fails, the consumer drains, sets the flag and exits; the producer's put happens"},
                      desc="the failed flag is set BEFORE the queues are drained: a producer that enqueues after the drain has started can see the flag (OG: together with the producer's re-check after its put, no caller waits on a consumer that has exited)")
        else:
            n_ok += 1
    # success path obligations are checked on the `step` states of the outer loop (they do not return); see below
    chk.notes.append(f"consumer: {n_fail} failure exit paths checked")
    for k_ in eng.stats:
        chk.engine_stats[k_] = chk.engine_stats.get(k_, 0) + eng.stats[k_]
    return eng


def size_function_contract(chk, prefix="C05"):
    """_calculate_operation_size: 0 for an empty checkpoint, otherwise the UTF-8 byte length of the JSON text of the update's wire dict (the
    quantity the API limit is about).  json / encode / len are opaque; the obligation pins which value is measured."""
    class H(Hooks):
        def ext_call(self, eng, st, name, args, kwargs):
            if name == "json.dumps":
                st.emit("dumps", arg=args[0], kwargs=dict(kwargs))
                return [("val", fresh("str", "json_text"), st)]
            return None

        def len_of(self, eng, st, v):
            if isinstance(v, tuple) and v and v[0] == "bytes_of":
                n = z3.Function("utf8_len", z3.StringSort(), z3.IntSort())(ops.zstr(v[1]))
                st.assume(n >= 0)
                st.emit("len_bytes", of=v[1])
                return [("val", Sym("int", n), st)]
            return Hooks.len_of(self, eng, st, v)
    eng = Engine(hooks=H())
    P = eng.program
    q = "state.ExecutionState._calculate_operation_size"
    chk.function(q, "verified (json.dumps / str.encode / len opaque)")

    def to_dict(eng_, s, args, kwargs):
        d = s.alloc("dict", {"__kind__": "dict", "e": {}, "open": True})
        s.emit("to_dict", of=args[0], result=d)
        return [("val", d, s)]
    eng.summaries["lambda_service.OperationUpdate.to_dict"] = to_dict
    st = St()
    upd = eng.sym_of_type("OperationUpdate", "u", st, P.modules["lambda_service"])
    qop = st.alloc(P.cls("state.QueuedOperation"), {"operation_update": mk_opt(z3.Bool("u.none"), upd), "completion_event": None})
    for k, v, s in eng.run(P.func(q), [qop], st=st):
        chk.paths += 1
        td = [e for e in s.trace if e.kind == "to_dict"]
        dm = [e for e in s.trace if e.kind == "dumps"]
        lb = [e for e in s.trace if e.kind == "len_bytes"]
        if not td:
            goal = z3.And(z3.BoolVal(k == "val" and v == 0), z3.Bool("u.none"))
        else:
            ok = k == "val" and len(td) == 1 and len(dm) == 1 and len(lb) == 1 and td[0].of == upd and dm[0].arg == td[0].result
            goal = z3.And(z3.BoolVal(ok), z3.Not(z3.Bool("u.none")))
            if ok:
                goal = z3.And(goal, ops.values_equal(s, v, Sym("int", z3.Function("utf8_len", z3.StringSort(), z3.IntSort())(ops.zstr(lb[0].of)))))
        chk.prove(f"{prefix}.collect.size_function", s.pc, goal, desc="the size of a queued operation is 0 for an empty checkpoint and otherwise the UTF-8 length of json.dumps(update.to_dict())")

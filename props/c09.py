"""C09 - map/parallel honour the completion policy and report branches faithfully."""
from . import executor_contracts as X


def run(chk):
    from .common import per_instance_state_of_modules
    per_instance_state_of_modules(chk, "C09.classes.state_is_per_instance", ['concurrency.models', 'concurrency.executor', 'config'])   # no object created in a class body: instances share no mutable state through the class
    chk.assume("A: floats are mathematical reals (failure percentage f/total*100 compared exactly)")
    chk.assume("S: collections.Counter counts occurrences; ThreadPoolExecutor runs at most max_workers tasks at once")
    chk.trust("python semantics of the stated subset as encoded by pyvc (DESIGN 2.3)")
    chk.trust("z3 5.1.0")
    X.counters_contract(chk, "C09")
    from . import lockset
    lockset.lock_discipline(chk, "C09", ["success_count", "failure_count"], cls_key="concurrency.models.ExecutionCounters")   # the counters the policy reads are updated and read under their lock
    X.reason_consistency(chk, "C09")
    X.from_items_contract(chk, "C09")   # the contract of from_items used by _create_result / replay: counts per status wired to the classifier
    X.create_result_items(chk, "C09")
    X.replay_items(chk, "C09")
    X.execute_structure(chk, "C09")
    X.item_in_child_context(chk, "C09")
    X.on_task_complete(chk, "C09", want=("C07",))
    X.execute_item_contracts(chk, "C09")   # branch i runs the user's function on item i; the policy presets are what their names say
    from . import misc_contracts
    misc_contracts.models_transitions(chk, "C09")   # incl. publish order: what _create_result reads without a lock is consistent after every single store
    from . import batch_accessors
    from . import c20
    c20.strict_error_roundtrip(chk, "C09")   # "the same batch result is delivered when the call is replayed": a failed item's error survives the record exactly
    chk.assume("S: a comprehension [E(x) for x in xs if P(x)] is the in-order filter-map of xs; sum(1 for ..) counts; any(..) is the disjunction; next(gen, None) is the first element or None")
    batch_accessors.accessors(chk, "C09")   # how user code reads the reported branches: succeeded()/failed()/started()/get_results()/get_errors()/counts/status/throw_if_error

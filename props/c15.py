"""C15 - default serialization round-trips every accepted value exactly (DESIGN 4 C15, A.8).

Structural induction over the value grammar: one obligation per constructor, executed on the REAL ExtendedTypeSerDes.serialize /
deserialize, TypeCodec / ContainerCodec / leaf codecs and _to_json_serializable.  Children of containers are arbitrary values `c`;
the induction hypothesis is used at the recursive calls only:
    IH(c):  TypeCodec.decode(tag(E(c)), J(TJ(value(E(c))))) == c        E = TypeCodec.encode, TJ = _to_json_serializable,
            is_primitive(c) => J(c) == c                                 J = json.loads . json.dumps  (assumption S)
Leaf conversions are inverse pairs by assumption S (base64, str/UUID, str/Decimal, isoformat/fromisoformat, json on primitives)."""
from __future__ import annotations

import z3

from pyvc import ops
from pyvc.engine import Engine, Hooks
from pyvc.loader import ClassInfo
from pyvc.ops import F, T, is_none, mk_opt, strip_opt
from pyvc.state import St
from pyvc.values import ANY, BoundExt, ClassRef, ExtRef, FuncRef, OpaqueFn, Opt, Ref, Sym, Unsupported, enum_member, enum_sort, fresh, fresh_name, is_sym, simp, zbool, zint, zstr

SER = "serdes.ExtendedTypeSerDes"
STR = z3.StringSort()
# assumption S: inverse pairs of the standard library, as uninterpreted functions with inverse axioms
b64s, unb64 = z3.Function("b64encode_text", ANY, STR), z3.Function("b64decode", STR, ANY)
uuid_s, un_uuid = z3.Function("str_of_uuid", ANY, STR), z3.Function("uuid_of_str", STR, ANY)
dec_s, un_dec = z3.Function("str_of_decimal", ANY, STR), z3.Function("decimal_of_str", STR, ANY)
iso_dt, un_iso_dt = z3.Function("datetime_isoformat", ANY, STR), z3.Function("datetime_fromisoformat", STR, ANY)
iso_d, un_iso_d = z3.Function("date_isoformat", ANY, STR), z3.Function("date_fromisoformat", STR, ANY)
prim = z3.Function("is_primitive", ANY, z3.BoolSort())
jf = z3.Function("json_image", ANY, ANY)            # J on an arbitrary value
tjf = z3.Function("to_json_serializable", ANY, ANY)  # TJ on an arbitrary (encoded) value
enc_val = z3.Function("encoded_value_of", ANY, ANY)  # value(E(c))

LEAF_TYPES = {"bytes": ("bytes",), "UUID": ("uuid.UUID", "UUID"), "Decimal": ("decimal.Decimal", "Decimal"), "datetime": ("datetime.datetime", "datetime", "datetime.date", "date"), "date": ("datetime.date", "date")}
PY_TYPES = ("str", "int", "float", "bool", "bytes", "bytearray", "memoryview", "uuid.UUID", "UUID", "decimal.Decimal", "Decimal", "datetime.datetime", "datetime", "datetime.date", "date", "list", "tuple", "dict",
            "BatchResult", "EncodedValue")


def inverse_axioms():
    x = z3.Const("x!inv", ANY)
    return [z3.ForAll([x], unb64(b64s(x)) == x), z3.ForAll([x], un_uuid(uuid_s(x)) == x), z3.ForAll([x], un_dec(dec_s(x)) == x), z3.ForAll([x], un_iso_dt(iso_dt(x)) == x),
            z3.ForAll([x], un_iso_d(iso_d(x)) == x), z3.ForAll([x], z3.Not(z3.SuffixOf(z3.StringVal("Z"), iso_dt(x)))),
            z3.ForAll([x], z3.Implies(prim(x), jf(x) == x))]


class SerHooks(Hooks):
    def __init__(self):
        self.types = {}  # z3 term id -> python type name of a typed opaque leaf

    def typed(self, st, tname, name):
        v = fresh("any", name)
        st.assume(z3.Not(ops.any_is_none(v.t)))
        st.ghost.setdefault("pytypes", {})
        d_ = dict(st.ghost["pytypes"]); d_[v.t.get_id()] = tname; st.ghost["pytypes"] = d_
        return v

    def type_of(self, st, v):
        return st.ghost.get("pytypes", {}).get(v.t.get_id()) if is_sym(v, "any") else None

    def any_isinstance(self, eng, st, v, d):
        key = d.key if isinstance(d, ClassInfo) else d
        t = self.type_of(st, v)
        if t is not None:
            return z3.BoolVal(key in LEAF_TYPES.get(t, ()))
        children = st.ghost.get("children", {})
        if v.t.get_id() in children:
            f = z3.Function("child_isinstance_" + "".join(ch if ch.isalnum() else "_" for ch in key), ANY, z3.BoolSort())
            return f(v.t)
        return Hooks.any_isinstance(self, eng, st, v, d)

    def ext_call(self, eng, st, name, args, kwargs):
        a0 = args[0] if args else None
        if name == "json.dumps":
            s = fresh("str", "json_text")
            st.assume(z3.Length(s.t) > 0)  # S: json text is never empty
            d_ = dict(st.ghost.get("dumps", {})); d_[s.t.get_id()] = (a0, dict(kwargs)); st.ghost["dumps"] = d_
            st.emit("dumps", arg=a0, text=s)
            return [("val", s, st)]
        if name == "json.loads":
            src = st.ghost.get("dumps", {}).get(a0.t.get_id()) if is_sym(a0, "str") else None
            if src is None:
                raise Unsupported("json.loads of a text that json.dumps did not produce")
            return [("val", J(eng, st, src[0]), st)]
        if name == "bytes" and is_sym(a0, "any") and self.type_of(st, a0) == "bytes":
            return [("val", a0, st)]
        if name == "base64.b64encode" and is_sym(a0, "any"):
            return [("val", ("b64", a0), st)]
        if name == "base64.b64decode" and isinstance(a0, tuple) and a0[0] == "bytes_of":
            return [("val", self.typed_term(st, "bytes", unb64(zstr(a0[1]))), st)]
        if name == "str" and is_sym(a0, "any"):
            t = self.type_of(st, a0)
            if t == "UUID":
                return [("val", Sym("str", uuid_s(a0.t)), st)]
            if t == "Decimal":
                return [("val", Sym("str", dec_s(a0.t)), st)]
        if name in ("uuid.UUID",) and (isinstance(a0, str) or is_sym(a0, "str")):
            return [("val", self.typed_term(st, "UUID", un_uuid(zstr(a0))), st)]
        if name in ("decimal.Decimal", "Decimal") and (isinstance(a0, str) or is_sym(a0, "str")):
            return [("val", self.typed_term(st, "Decimal", un_dec(zstr(a0))), st)]
        if name in ("datetime.datetime.fromisoformat", "datetime.fromisoformat"):
            return [("val", self.typed_term(st, "datetime", un_iso_dt(zstr(a0))), st)]
        if name in ("datetime.date.fromisoformat", "date.fromisoformat"):
            return [("val", self.typed_term(st, "date", un_iso_d(zstr(a0))), st)]
        return None

    def pseudo_method(self, eng, st, recv, name, args, kwargs):
        if recv and recv[0] == "b64" and name == "decode":
            return [("val", Sym("str", b64s(recv[1].t)), st)]
        return Hooks.pseudo_method(self, eng, st, recv, name, args, kwargs)

    def typed_term(self, st, tname, term):
        v = Sym("any", term)
        st.assume(z3.Not(ops.any_is_none(term)))
        d_ = dict(st.ghost.get("pytypes", {})); d_[term.get_id()] = tname; st.ghost["pytypes"] = d_
        return v

    def any_method(self, eng, st, recv, name, args, kwargs):
        t = self.type_of(st, recv)
        if t is not None and name not in ("isoformat",) and not args:
            # an unmodelled method of a typed leaf (e.g. Decimal.normalize): an arbitrary value of the same type - nothing is assumed about it
            f = z3.Function(f"{t}_{name}", ANY, ANY)
            return [("val", self.typed_term(st, t, f(recv.t)), st)]
        if name == "isoformat" and t == "datetime":
            return [("val", Sym("str", iso_dt(recv.t)), st)]
        if name == "isoformat" and t == "date":
            return [("val", Sym("str", iso_d(recv.t)), st)]
        return Hooks.any_method(self, eng, st, recv, name, args, kwargs)


def J(eng, st, v):
    """json.loads(json.dumps(v)) on the structures the serializer hands to json (assumption S): dicts keep string keys, other keys are
    coerced to their JSON text, tuples become lists, StrEnum members become their string, primitives are unchanged"""
    if v is None or isinstance(v, (bool, int, float, str)):
        return v
    if isinstance(v, Sym):
        if v.kind in ("bool", "int", "real", "str"):
            return v
        if v.kind == "enum":
            res = eng.getattr_(v, "value", st)
            return res[0][1]
        if v.kind == "any":
            return Sym("any", jf(v.t))
    if isinstance(v, Opt):
        return mk_opt(v.none, J(eng, st, v.val))
    if isinstance(v, tuple) and not (v and v[0] in ("b64", "bytes_of")):
        return st.alloc("list", {"__kind__": "list", "items": tuple(J(eng, st, x) for x in v)})
    if isinstance(v, Ref):
        s = st.get(v)
        k = s.get("__kind__")
        if k == "dict":
            e = {}
            for kk, (p, x) in s["e"].items():
                nk = kk if isinstance(kk, str) else ("true" if kk is True else "false" if kk is False else "null" if kk is None else str(kk))
                e[nk] = (p, J(eng, st, x))
            return st.alloc("dict", {"__kind__": "dict", "e": e, "open": False})
        if k in ("list", "tuple"):
            return st.alloc("list", {"__kind__": "list", "items": tuple(J(eng, st, x) for x in s["items"])})
        if k == "glist":
            return st.alloc("list", {"__kind__": "glist", "len": s["len"], "elem": J(eng, st, s["elem"])})
        if k == "gdict":
            key = s["key"]
            jkey = key if (isinstance(key, str) or is_sym(key, "str")) else Sym("str", key_text(key))
            return st.alloc("dict", {"__kind__": "gdict", "len": s["len"], "key": jkey, "val": J(eng, st, s["val"])})
    raise Unsupported(f"json image of {v!r}")


def key_text(key):
    """JSON text of a non-string dict key (json.dumps coerces int/float/bool/None keys to strings)"""
    if is_sym(key, "int"):
        return ops.int_to_str(key.t)
    if is_sym(key, "bool"):
        return z3.If(key.t, z3.StringVal("true"), z3.StringVal("false"))
    if key is None:
        return z3.StringVal("null")
    f = z3.Function("json_key_text", ANY, STR)
    if is_sym(key, "real"):
        g = z3.Function("json_float_text", z3.RealSort(), STR)
        return g(key.t)
    raise Unsupported(f"json key {key!r}")


def values_same(eng, st, a, b, depth=0):
    """z3: a == b with the same Python type at every level (the postcondition of C15)"""
    if isinstance(a, Opt) or isinstance(b, Opt) or a is None or b is None:
        na, nb = is_none(a), is_none(b)
        va, vb = strip_opt(a), strip_opt(b)
        inner = values_same(eng, st, va, vb, depth) if va is not None and vb is not None else F
        return simp(z3.Or(z3.And(na, nb), z3.And(z3.Not(na), z3.Not(nb), inner)))
    def as_items(x):
        if isinstance(x, tuple) and not (x and isinstance(x[0], str) and x[0] in ("bytes_of", "b64", "typeof")):
            return list(x)
        if isinstance(x, Ref) and x.cls == "tuple" and st.get(x).get("__kind__") == "tuple":
            return list(st.get(x)["items"])
        return None
    ia, ib = as_items(a), as_items(b)
    if ia is not None or ib is not None:
        if ia is None or ib is None or len(ia) != len(ib):
            return F          # a tuple equals only a tuple of the same length
        return z3.And([values_same(eng, st, x, y, depth + 1) for x, y in zip(ia, ib)] or [T])
    za, zb = ops.as_z3(a), ops.as_z3(b)
    if za and zb:
        return za[0] == zb[0] if za[1] == zb[1] else F  # bool / int / float / str are distinct types
    if isinstance(a, Ref) and isinstance(b, Ref):
        sa, sb = st.get(a), st.get(b)
        ka, kb = sa.get("__kind__"), sb.get("__kind__")
        if a.cls != b.cls and not (isinstance(a.cls, ClassInfo) and a.cls is b.cls):
            return F
        if ka == "glist" and kb == "glist":
            return z3.And(sa["len"] == sb["len"], z3.Or(sa["len"] == 0, values_same(eng, st, sa["elem"], sb["elem"], depth + 1)))
        if ka == "gdict" and kb == "gdict":
            return z3.And(sa["len"] == sb["len"], z3.Or(sa["len"] == 0, z3.And(values_same(eng, st, sa["key"], sb["key"], depth + 1), values_same(eng, st, sa["val"], sb["val"], depth + 1))))
        if ka == "dict" and kb == "dict":
            if list(sa["e"]) != list(sb["e"]):
                return F
            return z3.And([z3.And(sa["e"][k][0] == sb["e"][k][0], z3.Implies(sa["e"][k][0], values_same(eng, st, sa["e"][k][1], sb["e"][k][1], depth + 1))) for k in sa["e"]] or [T])
        if ka in ("list", "tuple") and kb == ka and len(sa["items"]) == len(sb["items"]):
            return z3.And([values_same(eng, st, x, y, depth + 1) for x, y in zip(sa["items"], sb["items"])] or [T])
        if ka is None and kb is None and isinstance(a.cls, ClassInfo):
            return z3.And([values_same(eng, st, sa[f], sb[f], depth + 1) for f in sa if not f.startswith("__")] or [T])
        if ka == "glist" and kb == "list" or ka == "list" and kb == "glist":
            g, l = (sa, sb) if ka == "glist" else (sb, sa)
            return z3.And(g["len"] == 0, z3.BoolVal(len(l["items"]) == 0))
    return F


class GenericContainers:
    """container model for generic dicts ('gdict': n entries, all like (key, val)) and their items()"""

    def method(self, eng, st, ref, name, args, kwargs):
        s = st.get(ref)
        if s["__kind__"] == "gdict" and name == "items":
            return [("val", st.alloc("gitems", {"__kind__": "gitems", "of": ref}), st)]
        raise Unsupported(f"gdict.{name}")

    def len(self, eng, st, ref):
        return [("val", Sym("int", st.get(ref)["len"]), st)]

    def contains(self, eng, st, ref, item):
        s = st.get(ref)
        return z3.And(s["len"] > 0, ops.values_equal(st, item, s["key"]))  # generic entry: every key looks like `key`

    def for_loop(self, eng, st, node, it):
        """`for k in d:` over a generic dict whose body has no loop-carried state: executed once on the generic key"""
        s = st.get(it)
        out = []
        for s1 in eng.assign(node.target, s["key"], st):
            for k2, v2, s2 in eng.exec_block(node.body, s1):
                out.append(("fall", None, s2) if k2 in ("fall", "continue", "break") else (k2, v2, s2))
        return out

    def comp(self, eng, st, e, gen, it, kind):
        s = st.get(it)
        src = st.get(s["of"]) if s["__kind__"] == "gitems" else s
        if gen.ifs:
            raise Unsupported("filtered comprehension over a generic dict")
        out = []
        target_val = (src["key"], src["val"]) if s["__kind__"] == "gitems" else src["key"]
        for s1 in eng.bind_target(gen.target, target_val, st):
            exprs = [e.key, e.value] if kind == "dict" else [e.elt]
            for k, vals, s2 in eng.ev_seq(exprs, s1):
                if k == "raise":
                    out.append((k, vals, s2))
                elif kind == "dict":
                    out.append(("val", s2.alloc("dict", {"__kind__": "gdict", "len": src["len"], "key": vals[0], "val": vals[1]}), s2))
                else:
                    out.append(("val", s2.alloc("list", {"__kind__": "glist", "len": src["len"], "elem": vals[0]}), s2))
        return out


def make_engine(chk):
    hooks = SerHooks()
    eng = Engine(hooks=hooks)
    gc = GenericContainers()
    eng.container_models["gdict"] = eng.container_models["gitems"] = gc
    P = eng.program
    # module-level singletons are built from the real constructors once per state (TYPE_CODEC = TypeCodec())
    return eng, hooks


def mutable_refs(st, v, seen=None):
    """oids of the mutable containers (list / dict kinds) reachable from v"""
    seen = set() if seen is None else seen
    if isinstance(v, Opt):
        return mutable_refs(st, v.val, seen)
    if isinstance(v, tuple):
        for x in v:
            mutable_refs(st, x, seen)
        return seen
    if isinstance(v, Ref) and v.oid not in seen:
        stor = st.get(v)
        k = stor.get("__kind__")
        if k in ("list", "dict", "glist", "gdict", "set") and v.cls != "tuple":
            seen.add(v.oid)
        for x in list(stor.get("items", ())) + [stor.get("elem")] + [y for _, y in stor.get("e", {}).values()] + [stor.get("vals"), stor.get("keys")]:
            if x is not None:
                mutable_refs(st, x, seen)
    return seen


def serialize_then_deserialize(chk, eng, st, value, label, expect_reject=False, desc="", prefix="C15"):
    P = eng.program
    cls = P.cls(SER)
    for a in inverse_axioms():
        st.assume(a)
    self_made = eng.construct(cls, [], {}, st)
    assert len(self_made) == 1
    self_, st = self_made[0][1], self_made[0][2]
    n_paths = 0
    for k1, text, s1 in eng.run(cls.find_method("serialize"), [self_, value], st=st):
        n_paths += 1
        if k1 == "raise":
            ok_reject = isinstance(text, Ref) and getattr(text.cls, "name", "") == "SerDesError"
            chk.prove(f"{prefix}.{label}", s1.pc, z3.BoolVal(bool(expect_reject and ok_reject)), desc=desc or f"{label}: serialize accepts the value", sample=f"{label}: serialize raised {text}")
            continue
        if expect_reject:
            chk.prove(f"{prefix}.{label}", s1.pc, F, desc=desc, sample=f"{label}: serialize returned instead of rejecting")
            continue
        chk.prove(f"{prefix}.serialize.nonempty", s1.pc, z3.Length(zstr(text)) > 0, desc="the serialized text is never empty (used by C02 / C13: an empty payload would be dropped by the wire form)")
        for k2, back, s2 in eng.run(cls.find_method("deserialize"), [self_, text], st=s1):
            n_paths += 1
            goal = values_same(eng, s2, value, back) if k2 == "val" else F
            chk.prove(f"{prefix}.{label}", s2.pc, goal, desc=desc or f"{label}: deserialize(serialize(v)) is equal to v with the same type at every level",
                      sample=f"{label}: path of {len(s2.pc)} conjuncts, outcome {k2}")
            if k2 == "val":
                # ownership: the caller owns what it gets - no mutable part of the result is retained by the serializer (a cache) or shared with the input
                kept = set()
                for _q, entries in s2.ghost.get("__memo__", {}).items():
                    for _a, r_ in entries:
                        kept |= mutable_refs(s2, r_)
                shared = mutable_refs(s2, back) & (kept | mutable_refs(s2, value))
                chk.prove(f"{prefix}.{label.rsplit('.', 1)[0]}.fresh_result", s2.pc, z3.BoolVal(not shared),
                          desc="the deserialized value is a fresh object graph: no list / dict in it is retained by the serializer (e.g. in a cache) or shared with the serialized value, so mutating a delivered value cannot change what a later deserialization of the same text delivers")
    chk.paths += n_paths
    return n_paths


def run(chk):
    from .common import per_instance_state_of_modules
    per_instance_state_of_modules(chk, "C15.classes.state_is_per_instance", ['serdes'])   # no object created in a class body: instances share no mutable state through the class
    chk.assume("S: json.loads(json.dumps(x)) maps dict/list/str/int/float/bool/None structures to equal ones (tuples become lists, non-string keys become their JSON text, StrEnum members their string); the text is never empty")
    chk.assume("S: base64, str/uuid.UUID, str/Decimal, datetime/date isoformat/fromisoformat are inverse pairs; isoformat() never ends in 'Z'")
    chk.assume("A: floats are reals: NaN/inf and float rounding are outside the model (json accepts non-finite floats by default)")
    chk.assume("induction hypothesis used only at recursive calls on strictly smaller values (children of containers)")
    chk.trust("python semantics of the stated subset as encoded by pyvc (DESIGN 2.3)")
    chk.trust("z3 5.1.0")
    for q in ("serialize", "deserialize", "_to_json_serializable"):
        chk.function(f"{SER}.{q}")
    for c in ("TypeCodec", "ContainerCodec", "PrimitiveCodec", "BytesCodec", "UuidCodec", "DecimalCodec", "DateTimeCodec"):
        chk.function(f"serdes.{c}.encode")
        chk.function(f"serdes.{c}.decode")
    chk.function("serdes.SerDes.is_primitive")
    # ---- leaf constructors
    leaves = LEAVES
    for name, mk in leaves.items():
        eng, hooks = make_engine(chk)
        st = St()
        v = mk(eng, st, hooks)
        serialize_then_deserialize(chk, eng, st, v, f"codec.{name}.rt")
        for k_ in eng.stats:
            chk.engine_stats[k_] = chk.engine_stats.get(k_, 0) + eng.stats[k_]
    _rest_of_run(chk, leaves)


LEAVES = {"none": lambda e, s, h: None, "bool": lambda e, s, h: fresh("bool", "v"), "int": lambda e, s, h: fresh("int", "v"), "float": lambda e, s, h: fresh("real", "v"), "str": lambda e, s, h: fresh("str", "v"),
              "bytes": lambda e, s, h: h.typed(s, "bytes", "v"), "uuid": lambda e, s, h: h.typed(s, "UUID", "v"), "decimal": lambda e, s, h: h.typed(s, "Decimal", "v"),
              "datetime": lambda e, s, h: h.typed(s, "datetime", "v"), "date": lambda e, s, h: h.typed(s, "date", "v")}


def _rest_of_run(chk, leaves):
    # ---- base case of the induction for PRIMITIVE children: at top level a primitive takes the fast path (plain JSON), so the envelope route of a
    #      primitive (PrimitiveCodec.encode / _to_json_serializable's leaf arm / PrimitiveCodec.decode) is only exercised when it sits INSIDE a container:
    #      a 1-tuple and a one-entry dict of each leaf, executed through the real code (no induction hypothesis involved)
    nested_leaves(chk, leaves)
    containers(chk)
    serialized_text_is_ascii(chk, "C15", want=("flags",))   # precondition of assumption S at every json.dumps call
    dispatch_exactness(chk)
    from . import c20
    c20.strict_error_roundtrip(chk, "C15")   # the error objects inside a batch result go through ErrorObject.to_dict / from_dict: exact, '' is not None
    bounded_sanity(chk)


def nested_leaves(chk, leaves, prefix="C15"):
    for name, mk in leaves.items():
        for shape in ("tuple", "dict"):
            eng, hooks = make_engine(chk)
            st = St()
            v = mk(eng, st, hooks)
            if shape == "tuple":
                value = (v,)
            else:
                value = st.alloc("dict", {"__kind__": "dict", "open": False, "e": {"k": (T, v)}})
            serialize_then_deserialize(chk, eng, st, value, f"codec.{shape}_of_{name}.rt", prefix=prefix,
                                       desc=f"base case of the induction: a {name} inside a {shape} goes through the envelope (tag + value) and comes back equal, with the same type")
            for k_ in eng.stats:
                chk.engine_stats[k_] = chk.engine_stats.get(k_, 0) + eng.stats[k_]


# ------------------------------------------------------------------------------------------------ containers (induction step)
def new_child(eng, st, name):
    """an arbitrary value of the grammar, strictly smaller than the container under test; carries the induction hypothesis"""
    c = fresh("any", name)
    P = eng.program
    tag = fresh("enum", name + ".tag", P.cls("serdes.TypeTag"))
    d_ = dict(st.ghost.get("children", {}))
    d_[c.t.get_id()] = {"child": c, "tag": tag}
    st.ghost["children"] = d_
    return c


def install_ih(chk, eng):
    P = eng.program
    ev_cls = P.cls("serdes.EncodedValue")

    def child_of(st, v):
        return st.ghost.get("children", {}).get(v.t.get_id()) if is_sym(v, "any") else None

    def encode(eng_, st, args, kwargs):
        c = child_of(st, args[1])
        if c is None:
            return None
        st.emit("ih_encode", child=args[1])
        return [("val", st.alloc(ev_cls, {"tag": c["tag"], "value": Sym("any", enc_val(args[1].t))}), st)]

    def to_json(eng_, st, args, kwargs):
        if is_sym(args[1], "any"):
            return [("val", Sym("any", tjf(args[1].t)), st)]
        return None

    def decode(eng_, st, args, kwargs):
        tag, value = args[1], args[2]
        if not is_sym(value, "any"):
            return None
        for c in st.ghost.get("children", {}).values():
            if z3.eq(simp(value.t), simp(jf(tjf(enc_val(c["child"].t))))):
                chk.prove("C15.ih.applied_to_own_envelope", st.pc, ops.values_equal(st, tag, c["tag"]), desc="the induction hypothesis is applied to a child's own (tag, json value) pair")
                st.emit("ih_decode", child=c["child"])
                return [("val", c["child"], st)]
        raise Unsupported("decode of a value that is not a child's encoding")

    def is_prim(eng_, st, args, kwargs):
        v = args[0]
        if is_sym(v, "any") and (child_of(st, v) is not None or any(z3.eq(simp(v.t), simp(jf(c["child"].t))) for c in st.ghost.get("children", {}).values())):
            return [("val", Sym("bool", prim(v.t)), st)]
        return None
    eng.summaries["serdes.TypeCodec.encode"] = encode
    eng.summaries["serdes.TypeCodec.decode"] = decode
    eng.summaries[SER + "._to_json_serializable"] = to_json
    eng.summaries["serdes.SerDes.is_primitive"] = is_prim


def containers(chk, only=None, prefix="C15"):
    cases = {}

    def glist(kind):
        def mk(eng, st, h):
            n = z3.Int("n_items")
            st.assume(n >= 0)
            return st.alloc(kind, {"__kind__": "glist", "len": n, "elem": new_child(eng, st, "c")})
        return mk
    cases["list"] = (glist("list"), False)
    cases["tuple"] = (glist("tuple"), False)

    def gdict(key_kind):
        def mk(eng, st, h):
            n = z3.Int("n_items")
            st.assume(n >= 1)
            key = {"str": lambda: fresh("str", "key"), "int": lambda: fresh("int", "key"), "bool": lambda: fresh("bool", "key"), "float": lambda: fresh("real", "key"), "none": lambda: None,
                   "tuple": lambda: (fresh("int", "k0"),)}[key_kind]()
            return st.alloc("dict", {"__kind__": "gdict", "len": n, "key": key, "val": new_child(eng, st, "c")})
        return mk
    cases["dict.str_keys"] = (gdict("str"), False)
    for kk in ("int", "bool", "float", "none", "tuple"):
        cases[f"dict.keys.{kk}_rejected"] = (gdict(kk), True)
    cases["empty_dict"] = (lambda eng, st, h: st.alloc("dict", {"__kind__": "dict", "e": {}, "open": False}), False)

    def lookalike(eng, st, h):
        return st.alloc("dict", {"__kind__": "dict", "open": False, "e": {"t": (T, new_child(eng, st, "c_t")), "v": (T, new_child(eng, st, "c_v"))}})
    cases["lookalike.t_v_dict"] = (lookalike, False)

    def lookalike2(eng, st, h):
        return st.alloc("dict", {"__kind__": "dict", "open": False, "e": {"t": (T, "l"), "v": (T, new_child(eng, st, "c_v")), "extra": (T, fresh("int", "x"))}})
    cases["lookalike.tag_string"] = (lookalike2, False)
    def batch(eng, st, h):
        P = eng.program
        n = z3.Int("n_items")
        st.assume(n >= 0)
        err = eng.sym_of_type("ErrorObject", "err", st, P.modules["lambda_service"])
        e = st.get(err)
        st.assume(z3.Not(is_none(e["message"])))  # an error object built by from_exception always has a message (an all-None error object is not distinguishable from no error on the wire: C20 normal form)
        st.assume(z3.Length(e["message"].val.t) > 0) if isinstance(e["message"], Opt) else None
        st.assume(z3.And(is_none(e["stack_trace"]), is_none(e["data"])))  # shape of ErrorObject.from_exception (the errors a batch item carries)
        item = st.alloc(P.cls("concurrency.models.BatchItem"), {"index": fresh("int", "index"), "status": fresh("enum", "status", P.cls("concurrency.models.BatchItemStatus")),
                                                              "result": new_child(eng, st, "c"), "error": mk_opt(z3.Bool("item.error.none"), err)})
        items = st.alloc("list", {"__kind__": "glist", "len": n, "elem": item})
        return st.alloc(P.cls("concurrency.models.BatchResult"), {"all": items, "completion_reason": fresh("enum", "reason", P.cls("concurrency.models.CompletionReason"))})
    cases["batch_result"] = (batch, False)
    cases["reject.unsupported_type"] = (lambda eng, st, h: h.typed(st, "object", "v"), True)
    for label, (mk, reject) in cases.items():
        if only is not None and label not in only:
            continue
        eng, hooks = make_engine(chk)
        install_ih(chk, eng)
        eng.merging = label != "batch_result"  # the nested error dict must have a concrete key set on each path
        st = St()
        v = mk(eng, st, hooks)
        desc = ""
        if reject:
            desc = f"{label}: a value that cannot be reproduced exactly is rejected with a serialization error instead of being silently altered"
        serialize_then_deserialize(chk, eng, st, v, ("dict.keys." + label.split(".")[2] if label.startswith("dict.keys.") else label) if reject else f"codec.{label}.rt", expect_reject=reject, desc=desc, prefix=prefix)
        for k_ in eng.stats:
            chk.engine_stats[k_] = chk.engine_stats.get(k_, 0) + eng.stats[k_]


def bounded_sanity(chk):
    """BOUNDED stand-in (never counted as proved): hypothesis checks of the assumed stdlib inverse pairs and an end-to-end run of the real
    serializer on generated nested values; quick tier: 60 examples per check, thorough: 600"""
    from pyvc.check import native
    n = 600 if chk.tier == "thorough" else 60
    try:
        r = native("stdlib_sanity.py", {"examples": n, "seed": chk.seed}, timeout=900)
    except Exception as e:  # noqa: BLE001
        chk.fault(f"bounded stdlib sanity run failed: {e!r}")
        return
    chk.bounded.append({"what": "stdlib inverse pairs (json, base64, uuid, Decimal, isoformat, fromtimestamp) and real serializer round trip", "tool": "hypothesis 6.168 under /venv/bin/python", "bound": r.get("bound"),
                        "examples": r.get("examples_per_check"), "failures": r.get("failures")})
    ob = chk.obligation("C15.bounded.stdlib_assumptions_and_end_to_end", "BOUNDED: the assumed stdlib inverse pairs hold, and the real serializer round-trips, on generated values (depth <= 3)")
    ob.kind = "bounded"
    ob.vcs += 1
    if r.get("ok"):
        ob.discharged += 1
    else:
        ob.refuted.append({"inputs": {"failures": r.get("failures")}, "model": "", "replay_confirmed": True, "replay_output": r})


# ------------------------------------------------------------------------------------------------ which classes does encode accept?
SUPPORTED = ("str", "bool", "int", "float", "bytes", "UUID", "Decimal", "datetime", "date", "list", "tuple", "dict", "BatchResult")


def _replay_subclass(inputs):
    from pyvc.check import native
    r_ = native("subclass_serdes_replay.py", {})
    return bool(r_.get("confirmed")), r_


def dispatch_exactness(chk):
    """TypeCodec.encode on a value of ARBITRARY class: the real match statement is executed with class tests as uninterpreted predicates
    isinstance_K(v).  Specification (statement of C15: "an equal value of the same types ... a value that cannot be reproduced exactly is
    rejected"): decode only ever constructs instances of exactly the supported classes (the round-trip obligations above), so an accepted
    value must be an instance of EXACTLY one of them.  The dispatch accepts whatever passes an isinstance test."""
    eng, hooks = make_engine(chk)
    P = eng.program
    st = St()
    v = fresh("any", "value_of_any_class")
    exact = {k: z3.Function("class_is_exactly_" + k, ANY, z3.BoolSort()) for k in SUPPORTED}
    delegated = []

    def codec(name):
        def f(eng_, s, args, kwargs):
            s.emit("delegated", codec=name, arg=args[1])
            return [("val", s.alloc("opaque:EncodedValue", {}), s)]
        return f
    for c in ("PrimitiveCodec", "BytesCodec", "UuidCodec", "DecimalCodec", "DateTimeCodec", "ContainerCodec"):
        eng.summaries[f"serdes.{c}.encode"] = codec(c)
    base_ext = hooks.ext_call

    def ext_call(eng_, s, name, args, kwargs):
        if name == "bytes" and args and is_sym(args[0], "any") and hooks.type_of(s, args[0]) is None:
            return [("val", hooks.typed(s, "bytes", "coerced_bytes"), s)]   # bytes(bytearray / memoryview / bytes subclass): a plain bytes object
        return base_ext(eng_, s, name, args, kwargs)
    hooks.ext_call = ext_call
    tc = st.alloc(P.cls("serdes.TypeCodec"), {n: st.alloc(P.cls("serdes." + c), {}) for n, c in (("primitive_codec", "PrimitiveCodec"), ("bytes_codec", "BytesCodec"), ("uuid_codec", "UuidCodec"),
                                                                                                  ("decimal_codec", "DecimalCodec"), ("datetime_codec", "DateTimeCodec"), ("container_codec", "ContainerCodec"))})
    st.assume(z3.Not(ops.any_is_none(v.t)))
    any_exact = z3.Or([f(v.t) for f in exact.values()])
    n_acc = 0
    for k, r, s in eng.run(P.func("serdes.TypeCodec.encode"), [tc, v], st=st):
        chk.paths += 1
        if k == "raise":
            if not (isinstance(r, Ref) and getattr(r.cls, "name", "") == "SerDesError"):
                chk.prove("C15.dispatch.accepts_only_exact_classes", s.pc, F, desc="a value the serializer does not accept is rejected with SerDesError (and with nothing else)")
            continue  # rejected with SerDesError: fine for every class
        n_acc += 1
        chk.prove("C15.dispatch.accepts_only_exact_classes", s.pc, any_exact,
                  desc="a value that TypeCodec.encode accepts is an instance of EXACTLY one of the classes decode can construct (str, bool, int, float, bytes, UUID, Decimal, datetime, date, list, tuple, dict, BatchResult); "
                       "otherwise the round trip returns an equal value of a DIFFERENT class (the base class) instead of rejecting it",
                  regions={"accepted_subclass_instance": z3.Not(any_exact)}, describe=lambda m: {"value": "an instance of a proper subclass of a supported class (IntEnum, StrEnum, namedtuple, OrderedDict) or a bytearray"},
                  replay=_replay_subclass, sample="TypeCodec.encode(v) for v of arbitrary class: accepted => class exactly supported")
    chk.require_sat("C15.dispatch.accepting_paths", [z3.BoolVal(n_acc > 0)], desc="vacuity guard: the dispatch has accepting paths")
    try:
        from pyvc.check import native
        r_ = native("subclass_serdes_replay.py", {})
        chk.notes.append(f"native run of the accepted_subclass_instance region: confirmed={r_.get('confirmed')} cases={json_short(r_.get('cases'))}")
    except Exception as e:  # noqa: BLE001
        chk.notes.append(f"native run of the accepted_subclass_instance region failed: {e!r}")
    return eng


def json_short(o):
    import json
    return json.dumps(o)[:600]


def serialized_text_is_ascii(chk, prefix="C16", want=("ascii",)):
    """operation/child.py compares len(serialized_result) - a CHARACTER count - with the 256 KB checkpoint limit.  That is the UTF-8 size only if the
    text is pure ASCII, which json.dumps guarantees with its default ensure_ascii=True: every json.dumps call of the default serializer keeps it"""
    for label, mk in (("str", lambda e, s, h: fresh("str", "v")), ("list", lambda e, s, h: s.alloc("list", {"__kind__": "glist", "len": z3.Int("n_items"), "elem": new_child(e, s, "c")}))):
        eng, hooks = make_engine(chk)
        install_ih(chk, eng)
        st = St()
        for a in inverse_axioms():
            st.assume(a)
        v = mk(eng, st, hooks)
        cls = eng.program.cls(SER)
        made = eng.construct(cls, [], {}, st)
        self_, st = made[0][1], made[0][2]
        n = 0
        for k, text, s in eng.run(cls.find_method("serialize"), [self_, v], st=st):
            if k != "val":
                continue
            dumps = [e for e in s.trace if e.kind == "dumps"]
            flags = [s.ghost.get("dumps", {}).get(e.text.t.get_id(), (None, {}))[1] for e in dumps]
            ok = bool(dumps) and all(f.get("ensure_ascii", True) is True for f in flags)
            n += 1
            if "ascii" in want:
                chk.prove(f"{prefix}.serdes.ascii_text.{label}", s.pc, z3.BoolVal(ok),
                          desc="every json.dumps call of the default serializer keeps ensure_ascii=True: the serialized text is pure ASCII, so its length in characters (what the 256 KB test measures) is its size in bytes")
            if "flags" in want:
                odd = sorted({f"{k_}={_flag_text(v_)}" for f in flags for k_, v_ in f.items() if not _flag_keeps_structure(k_, v_)})
                chk.prove(f"{prefix}.serdes.json_flags_keep_structure.{label}", s.pc, z3.BoolVal(bool(dumps) and not odd),
                          desc="precondition of assumption S, checked at every json.dumps call of the default serializer: only flags that change white space or escaping are passed (separators ',' ':' with optional blanks, "
                               "ensure_ascii, indent); sort_keys reorders dictionaries (the replayed value then iterates in another order than the one first delivered), default / cls / skipkeys change what is written"
                               + (f"; flags outside the assumption: {odd}" if odd else ""),
                          describe=lambda m: {"values": "dictionaries whose keys are not in sorted order, nested in a tuple so that the envelope path is taken"}, replay=_replay_dict_order,
                          sample="flags of json.dumps on every path of ExtendedTypeSerDes.serialize")
        chk.paths += n


def _flag_text(v):
    return repr(v) if isinstance(v, (bool, int, str, tuple, type(None))) else type(v).__name__


def _flag_keeps_structure(k, v):
    if k == "separators":
        return isinstance(v, tuple) and len(v) == 2 and all(isinstance(x, str) for x in v) and v[0].strip(" ") == "," and v[1].strip(" ") == ":"
    if k == "ensure_ascii":
        return isinstance(v, bool)
    if k == "indent":
        return v is None or isinstance(v, int)
    if k in ("sort_keys", "skipkeys"):
        return v is False
    if k in ("default", "cls"):
        return v is None
    return k in ("check_circular", "allow_nan") and isinstance(v, bool)


def _replay_dict_order(inputs):
    from pyvc.check import native
    r_ = native("dict_order_replay.py", {})
    return bool(r_.get("confirmed")), r_

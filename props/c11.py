"""C11 - the update stream is always a valid operation history (handler level + factories + wrapper)."""
from .handlers import explore
from . import hobl
from .common import handler_preamble
from .c01 import FUNCS

# B1: statuses the backend can hold for each operation type (protocol assumption, listed in the evidence)
DOMAIN = {"step": ["STARTED", "PENDING", "READY", "SUCCEEDED", "FAILED"], "wfc": ["STARTED", "PENDING", "READY", "SUCCEEDED", "FAILED"],
          "child": ["STARTED", "SUCCEEDED", "FAILED"], "wait": ["STARTED", "SUCCEEDED"],
          "invoke": ["STARTED", "SUCCEEDED", "FAILED", "TIMED_OUT", "STOPPED"], "callback": ["STARTED", "SUCCEEDED", "FAILED", "TIMED_OUT", "CANCELLED", "STOPPED"], "callback_result": ["STARTED", "SUCCEEDED", "FAILED", "TIMED_OUT", "CANCELLED", "STOPPED"]}


def run(chk):
    chk.assume("B1: status domain per operation type: " + "; ".join(f"{k}: {v}" for k, v in DOMAIN.items()))
    for kind in ("step", "child", "wait", "invoke", "callback", "wfc"):
        ex = explore(kind)
        handler_preamble(chk, ex, FUNCS[kind])
        hobl.c11_lifecycle(chk, ex, DOMAIN[kind])
        if kind in ("step", "wfc", "wait", "invoke"):
            # 'no second START within one attempt' rests on the record being in the state when the operation is reached again in the same invocation
            # (a resumed map / parallel branch): the checkpoint before a suspension is synchronous
            hobl.c03_sync_before_suspend(chk, ex, prefix="C11", domain=DOMAIN[kind])
        if kind in ("step", "wfc"):
            # the same obligations with a strategy whose Duration carries a float (Duration(seconds=0.5): annotated int, not enforced): the records
            # written must not depend on the delay being an int (e.g. no int-only formatting between the RETRY record and the suspension)
            hobl.c11_lifecycle(chk, explore(kind, float_delay=True), DOMAIN[kind])
    from . import executor_contracts as _X
    _X.resubmitter_total(chk, "C11")        # ... and a resumed branch is handed back to the pool only after the state was refreshed
    _X.timer_loop(chk, "C11")
    from . import wrapper_contracts, batcher
    wrapper_contracts.wrapper_obligations(chk, "C11", want=("C11",))
    batcher.check_collect(chk, "C11")      # updates reach the API in hand-over order (a child's START after its parent's START)
    batcher.check_consumer(chk, "C11")
    from . import state_contracts
    state_contracts.merge_all_pages(chk, "C11")            # "no update for an operation the backend already holds as terminal" needs the WHOLE history in the state
    state_contracts.lookup_faithful(chk, "C11") if hasattr(state_contracts, "lookup_faithful") else None
    from . import c19
    c19.counter_sequence(chk, "C11.ids.counter_atomic")    # distinct positions get distinct ids: no second START for an id that belongs to another operation

"""C06 - checkpoint failure is fail-stop: no progress, no hang, no success."""
from .handlers import explore
from . import hobl, state_contracts, batcher
from .common import handler_preamble
from .c01 import FUNCS


def run(chk):
    from .common import per_instance_state_of_modules
    per_instance_state_of_modules(chk, "C06.classes.state_is_per_instance", ['state', 'concurrency.executor', 'execution'])   # no object created in a class body: instances share no mutable state through the class
    chk.assume("B/S: the service client signals failure by raising an Exception (CheckpointError); BaseExceptions that are not Exceptions kill the consumer thread and are outside the model")
    chk.assume("G: queue.Queue is a linearizable FIFO; a `with lock:` block and a single Event/Queue call are atomic")
    batcher.check_consumer(chk, "C06")
    state_contracts.create_checkpoint(chk, "C06", want=("C06",))
    state_contracts.completion_event_contract(chk, "C06")
    import z3
    P_, R_, F_, D_ = z3.Ints("t_put t_recheck t_flag_set t_drain_start")
    unset, drained = z3.Bools("recheck_saw_unset drained_and_woken")
    chk.prove("C06.produce.no_lost_wakeup.lemma", [P_ < R_, z3.Implies(unset, R_ < F_), F_ < D_, z3.Implies(P_ < D_, drained)], z3.Implies(unset, drained),
              desc="lemma over the two contracts above (event times; G: linearizable queue): the put precedes the re-check; a re-check that sees the flag unset precedes the flag's set, which precedes the drain; "
                   "the drain wakes every element enqueued before it starts or while it runs (C06.consumer.fail_wakes_all) - so a caller that goes on to wait has been, or will be, woken; a caller that sees the flag set raises (fail_fast)")
    for kind in ("step", "child", "wfc", "wait", "invoke", "callback"):
        ex = explore(kind)
        handler_preamble(chk, ex, FUNCS[kind])
        hobl.failstop(chk, ex, "bgerror", "BackgroundThreadError", f"C06.{kind}.propagates",
                      "a BackgroundThreadError raised by create_checkpoint leaves the handler unchanged: it is not caught, no update and no user function follow, no outcome is reported")
    from . import executor_contracts, wrapper_contracts
    executor_contracts.on_task_complete(chk, "C06", want=("C06", "C07"))   # incl. on_done_decides: a checkpoint failure in a branch is stored as fatal and signalled, never turned into a suspension
    executor_contracts.resubmitter_total(chk, "C06")
    wrapper_contracts.classification(chk, "C06")
    wrapper_contracts.control_signals_not_exceptions(chk, "C06")
    wrapper_contracts.checkpoint_error_classification(chk, "C06")
    # "no at-most-once step function is entered without its recorded start" - for the first attempt and for every retry attempt (record READY)
    ex = explore("step")
    hobl.c04(chk, ex, prefix="C06")

"""C20 - wire model codecs are lossless inverses (DESIGN 4, C20).

For every codec class the REAL to_dict / from_dict (and to_json_dict / from_json_dict) bodies are executed
symbolically on a fully symbolic well-typed object; the postcondition N(from(to(x))) == N(x) is generated
per field from the class's declared fields and discharged by z3."""
from __future__ import annotations

import z3

from pyvc import ops
from pyvc.check import native
from pyvc.concretize import concretize
from pyvc.engine import Engine, Hooks
from pyvc.loader import ClassInfo
from pyvc.ops import F, T, is_none, strip_opt, truth
from pyvc.state import St
from pyvc.values import ClassRef, Opt, Ref, Sym, Unsupported, dt_off, dt_ts, fresh, is_sym, simp

from .common import codec_hooks, snapshot, unchanged


class NF:
    """normal form of C20: '' == absent for optional strings; an optional object all of whose fields are absent == absent;
    timestamps modulo one millisecond (exact when millisecond-aligned)"""

    def __init__(self, eng, json_route=False, strict=False):
        self.eng, self.json, self.strict = eng, json_route, strict

    def split(self, ann):
        ann = self.eng.ALIASES.get(ann.strip(), ann.strip())
        parts = self.eng._split_union(ann)
        non = [p for p in parts if p != "None"]
        return ("None" in parts), (non[0] if len(non) == 1 else ann)

    def absent(self, st, v, opt, base, module):
        if not opt:
            return F
        n = is_none(v)
        vv = strip_opt(v)
        if vv is None:
            return T
        base = self.eng.ALIASES.get(base, base)
        if base == "str":
            if (isinstance(vv, str) or is_sym(vv, "str")) and not self.strict:
                return simp(z3.Or(n, z3.Not(truth(st, vv))))
            return n
        cls = self.eng.find_class(base.split("[")[0], module)
        if cls is not None and cls.is_dataclass and isinstance(vv, Ref) and vv.cls is cls:
            stor = st.get(vv)
            return simp(z3.Or(n, z3.And([self.absent(st, stor[f], *self.split(a), owner.module) for f, a, _, owner in cls.fields()])))
        return n

    def equal(self, sa, a, sb, b, ann, module):
        opt, base = self.split(ann)
        base = self.eng.ALIASES.get(base, base)
        A, B = self.absent(sa, a, opt, base, module), self.absent(sb, b, opt, base, module)
        va, vb = strip_opt(a), strip_opt(b)
        if va is None or vb is None:
            inner = z3.BoolVal(va is None and vb is None)
        else:
            inner = self.equal_present(sa, va, sb, vb, base, module)
        if not opt:
            return simp(z3.And(z3.Not(is_none(a)), z3.Not(is_none(b)), inner))
        eq = z3.Or(z3.And(A, B), z3.And(z3.Not(A), z3.Not(B), inner))
        cls_ = self.eng.find_class(base.split("[")[0], module)
        if base == "str" or (cls_ is not None and cls_.is_dataclass):
            # the allowed loss is one-directional: the wire form OMITS an empty optional string / an all-empty details object ('' or Details(None) may come
            # back as None); a None that comes back as '' or as an empty details object is a value the original did not have
            eq = z3.And(eq, z3.Implies(is_none(a), is_none(b)))
        return simp(eq)

    def equal_present(self, sa, va, sb, vb, base, module):
        cls = self.eng.find_class(base.split("[")[0], module)
        if cls is not None and cls.is_dataclass:
            if not (isinstance(va, Ref) and isinstance(vb, Ref) and va.cls is cls and vb.cls is cls):
                return F  # e.g. a dict where a details object is expected
            s1, s2 = sa.get(va), sb.get(vb)
            return simp(z3.And([self.equal(sa, s1[f], sb, s2[f], a, owner.module) for f, a, _, owner in cls.fields()]))
        if base in ("datetime.datetime", "datetime"):
            if not (is_sym(va, "dt") and is_sym(vb, "dt")):
                return F
            if not self.json:
                return va.t == vb.t
            x, y = dt_ts(va.t), dt_ts(vb.t)
            aligned = z3.ToReal(z3.ToInt(x * 1000)) == x * 1000
            # "millisecond truncation": within one millisecond either way (int() truncates toward zero, so pre-1970 instants move forward)
            return z3.And(x - y < z3.RealVal("0.001"), y - x < z3.RealVal("0.001"), z3.Implies(aligned, x == y))
        if base.startswith("list[") and isinstance(va, Ref) and isinstance(vb, Ref):
            s1, s2 = sa.get(va), sb.get(vb)
            if s1.get("__kind__") == "glist" and s2.get("__kind__") == "glist":
                return z3.And(s1["len"] == s2["len"], self.equal(sa, s1["elem"], sb, s2["elem"], base[5:-1], module))
            if s1.get("__kind__") == "list" and s2.get("__kind__") == "list" and len(s1["items"]) == len(s2["items"]):
                return z3.And([self.equal(sa, x, sb, y, base[5:-1], module) for x, y in zip(s1["items"], s2["items"])] or [T])
            if s1.get("__kind__") == "glist" and s2.get("__kind__") == "list":
                return z3.And(s1["len"] == 0, z3.BoolVal(len(s2["items"]) == 0))
            return F
        za, zb = ops.as_z3(va), ops.as_z3(vb)
        if za and zb and za[1] == zb[1]:
            return za[0] == zb[0]
        return F


def describe_factory(o, st):
    def describe(model):
        return concretize(o, model, st)
    return describe


def replay_factory(cls, route, field=None):
    def replay(inputs):
        r = native("codec_replay.py", {"cls": cls.key, "route": route, "input": inputs, "field": field})
        return bool(r.get("confirmed")), r
    return replay


XC = []  # (input description, predicted result description) per explored path, for the CPython cross-check

CODECS = [
    # (class key, route, label, methods)
    ("lambda_service.ErrorObject", "dict", "error"),
    ("lambda_service.StepOptions", "dict", "options.step"),
    ("lambda_service.WaitOptions", "dict", "options.wait"),
    ("lambda_service.CallbackOptions", "dict", "options.callback"),
    ("lambda_service.ChainedInvokeOptions", "dict", "options.chained_invoke"),
    ("lambda_service.ContextOptions", "dict", "options.context"),
    ("lambda_service.OperationUpdate", "dict", "update"),
    ("lambda_service.Operation", "dict", "operation"),
    ("lambda_service.Operation", "json", "operation.json"),
    ("execution.DurableExecutionInvocationOutput", "dict", "output"),
    ("execution.InitialExecutionState", "dict", "initial_state"),
    ("execution.InitialExecutionState", "json", "initial_state.json"),
    ("execution.DurableExecutionInvocationInput", "dict", "input"),
    ("execution.DurableExecutionInvocationInput", "json", "input.json"),
]

# known-finding regions of the input space of Operation (see /verif/known_findings.json); the predicates are over the symbolic input


def regions_for(cls, o, st, field, route, nf):
    return {}


def round_trip(chk, eng, key, route, label):
    cls = eng.program.cls(key)
    to_name, from_name = ("to_json_dict", "from_json_dict") if route == "json" else ("to_dict", "from_dict")
    to_m, from_m = cls.find_method(to_name), cls.find_method(from_name)
    chk.function(to_m.qualname)
    chk.function(from_m.qualname)
    st = St()
    o = eng.sym_of_type(cls.name, "x", st, cls.module)
    nf = NF(eng, json_route=(route == "json"))
    pre_pc = list(st.pc)
    chk.require_sat(f"C20.{label}.pre_satisfiable", pre_pc, desc="vacuity guard: a well-typed input exists")
    paths = 0
    fields = cls.fields()
    for k1, d, s1 in eng.run(to_m, [o], st=st):
        if k1 == "raise":
            chk.prove(f"C20.{label}.rt.total", s1.pc, F, desc=f"{to_name} does not raise on well-typed input", describe=describe_factory(o, s1), replay=replay_factory(cls, route))
            paths += 1
            continue
        args = [d] if "staticmethod" in from_m.decorators else [ClassRef(cls), d]
        wire_before = snapshot(s1, d)
        for k2, back, s2 in eng.run(from_m, args, st=s1):
            paths += 1
            desc = describe_factory(o, s2)
            rp = replay_factory(cls, route)
            chk.prove(f"C20.{label}.rt.wire_unchanged", s2.pc, unchanged(s2, wire_before, d),
                      desc=f"frame: {from_name} does not modify the wire dictionary it decodes (nested objects included), so the same payload can be decoded again", describe=desc,
                      replay=replay_factory(cls, route, "__wire_unchanged__"))
            if k2 == "raise":
                chk.prove(f"C20.{label}.rt.total", s2.pc, F, desc=f"{from_name}({to_name}(x)) does not raise", describe=desc, replay=rp)
                continue
            chk.prove(f"C20.{label}.rt.total", s2.pc, T, desc=f"{from_name}({to_name}(x)) does not raise")
            if not (isinstance(back, Ref) and back.cls is cls):
                chk.prove(f"C20.{label}.rt.type", s2.pc, F, desc="result is an instance of the class", describe=desc, replay=rp)
                continue
            so, sb = s2.get(o), s2.get(back)
            slv = z3.Solver()
            slv.set("timeout", 5000)
            slv.add(*s2.pc)
            if slv.check() == z3.sat:
                mdl = slv.model()
                XC.append((concretize(o, mdl, s2), concretize(back, mdl, s2)))
            for f, ann, _, owner in fields:
                chk.prove(f"C20.{label}.rt.{f}", s2.pc, nf.equal(s2, so[f], s2, sb[f], ann, owner.module),
                          desc=f"N({from_name}({to_name}(x))).{f} == N(x).{f}", describe=desc, replay=replay_factory(cls, route, f),
                          sample=f"{cls.name}.{f} via {route}: path condition of {len(s2.pc)} conjuncts => field equality modulo N")
    chk.paths += paths
    # CPython cross-check: one model per explored path, native run, compare with the predicted result object
    if XC:
        items = [it for it in XC]
        del XC[:]
        try:
            res = native("codec_crosscheck.py", [{"cls": key, "route": route, "input": a, "expected": b} for a, b in items], timeout=300)
            for (a, b), r in zip(items, res):
                if r.get("match"):
                    chk.validated += 1
                else:
                    chk.fault(f"engine/CPython mismatch in {label}: native={r.get('native')} predicted={r.get('predicted')}")
                    break
        except Exception as e:  # noqa: BLE001
            chk.fault(f"codec cross-check harness failed for {label}: {e!r}")
    return paths


def options_present(chk, eng):
    """the wire form of an update contains every option the operation was created with (statement of C20)"""
    cls = eng.program.cls("lambda_service.OperationUpdate")
    st = St()
    u = eng.sym_of_type("OperationUpdate", "u", st, cls.module)
    wire = {"context_options": ("ContextOptions", {"replay_children": "ReplayChildren"}), "step_options": ("StepOptions", {"next_attempt_delay_seconds": "NextAttemptDelaySeconds"}),
            "wait_options": ("WaitOptions", {"wait_seconds": "WaitSeconds"}), "callback_options": ("CallbackOptions", {"timeout_seconds": "TimeoutSeconds", "heartbeat_timeout_seconds": "HeartbeatTimeoutSeconds"}),
            "chained_invoke_options": ("ChainedInvokeOptions", {"function_name": "FunctionName", "tenant_id": "TenantId"})}
    for k, d, s in eng.run(cls.find_method("to_dict"), [u], st=st):
        chk.paths += 1
        if k == "raise":
            chk.prove("C20.update.options_present", s.pc, F, desc="to_dict does not raise")
            continue
        su, sd = s.get(u), s.get(d)
        for f, (wkey, sub) in wire.items():
            opt = su[f]
            present = sd["e"].get(wkey, (F, None))
            goal_parts = [present[0]]
            inner = strip_opt(opt)
            if present[1] is not None and isinstance(inner, Ref):
                so, sw = s.get(inner), s.get(strip_opt(present[1]))
                for pf, wk in sub.items():
                    p2, v2 = sw["e"].get(wk, (F, None))
                    src = so[pf]
                    if isinstance(src, Opt) or src is None:  # optional sub-field: present when not None
                        goal_parts.append(z3.Implies(z3.Not(is_none(src)), z3.And(p2, ops.values_equal(s, strip_opt(src), v2) if v2 is not None else F)))
                    else:
                        goal_parts.append(z3.And(p2, ops.values_equal(s, src, v2) if v2 is not None else F))
            chk.prove(f"C20.update.options_present.{f}", list(s.pc) + [z3.Not(is_none(opt))], z3.And(goal_parts),
                      desc=f"u.{f} is not None => wire dict has '{wkey}' with every field", describe=describe_factory(u, s),
                      sample=f"OperationUpdate.{f} present => '{wkey}' emitted with all sub-fields")


def run(chk):
    from .common import per_instance_state_of_modules
    per_instance_state_of_modules(chk, "C20.classes.state_is_per_instance", ['lambda_service'])   # no object created in a class body: instances share no mutable state through the class
    eng = Engine(hooks=codec_hooks())
    chk.assume("A: reals for floats; both timestamp conversions are required to be integer arithmetic (C20.timestamp.exact_millis, C20.timestamp.exact_from_millis), so no rounding is assumed away there")
    chk.assume("S: datetime.fromtimestamp(t, tz=UTC).timestamp() == t; datetimes are timezone-aware (instants compared)")
    chk.assume("S: copy.deepcopy yields a structurally equal, unshared copy of dict/list structures")
    chk.assume("inputs are well-typed instances of the declared field types (implicit precondition); enum .value / Enum(value) are inverse (read from the source members)")
    chk.trust("python semantics of the stated subset as encoded by pyvc (DESIGN 2.3)")
    chk.trust("z3 5.1.0")
    for key, route, label in CODECS:
        round_trip(chk, eng, key, route, label)
    options_present(chk, eng)
    output_parsers(chk)
    timestamp_exactness(chk)
    strict_payload_decode(chk, "C20")
    # "the wire form of an update contains every option the operation was created with": the options object a handler puts into its START is
    # built from the caller's configuration unchanged (callback timeouts, invoke target and tenant)
    from .handlers import explore
    from .common import handler_preamble
    from .c01 import FUNCS
    from . import hobl
    for kind, ob in (("callback", hobl.c14_callback_create), ("invoke", hobl.c14_invoke)):
        ex = explore(kind)
        handler_preamble(chk, ex, FUNCS[kind])
        ob(chk, ex, prefix="C20")
    chk.engine_stats = dict(eng.stats)
    chk.notes.append("normal form N: optional '' == absent; optional object with all fields absent == absent; JSON route: timestamps within 1 ms, exact on ms-aligned instants")


def strict_error_roundtrip(chk, prefix):
    """ErrorObject.from_dict(e.to_dict()) == e EXACTLY (no normal form): the message, type and data of a recorded error are observable
    by user code on replay (str(exception)), so even '' vs None must survive the wire"""
    eng = Engine(hooks=codec_hooks())
    cls = eng.program.cls("lambda_service.ErrorObject")
    st = St()
    o = eng.sym_of_type("ErrorObject", "err", st, cls.module)
    nf = NF(eng, strict=True)
    for k1, d, s1 in eng.run(cls.find_method("to_dict"), [o], st=st):
        for k2, back, s2 in eng.run(cls.find_method("from_dict"), [ClassRef(cls), d], st=s1):
            chk.paths += 1
            ok = k1 == "val" and k2 == "val" and isinstance(back, Ref)
            goal = z3.BoolVal(ok)
            if ok:
                so, sb = s2.get(o), s2.get(back)
                goal = z3.And([nf.equal(s2, so[f], s2, sb[f], ann, owner.module) for f, ann, _, owner in cls.fields()])
            chk.prove(f"{prefix}.error.wire_exact", s2.pc, goal, desc="a recorded error object survives the wire exactly (message/type/data: '' is not turned into None), so the replayed exception text equals the first one",
                      describe=describe_factory(o, s2), replay=replay_factory(cls, "dict"))


def output_parsers(chk):
    """CheckpointOutput.from_dict / StateOutput.from_dict: the backend's answers are parsed into exactly the records they carry (generic element),
    the token and the marker - these feed the state merge of C01"""
    eng = Engine(hooks=codec_hooks())
    P = eng.program
    op_cls = P.cls("lambda_service.Operation")
    nf = NF(eng)
    for which in ("CheckpointOutput", "StateOutput"):
        cls = P.cls("lambda_service." + which)
        chk.function(f"lambda_service.{which}.from_dict")
        st = St()
        op = eng.sym_of_type("Operation", "op_i", st, op_cls.module)
        wire = eng.run(op_cls.find_method("to_dict"), [op], st=st)
        assert len(wire) == 1 and wire[0][0] == "val"
        d_op, st = wire[0][1], wire[0][2]
        n = z3.Int("n_ops")
        st.assume(n >= 0)
        ops_list = st.alloc("list", {"__kind__": "glist", "len": n, "elem": d_op})
        marker = fresh("str", "marker")
        p_ops, p_marker = z3.Bool("has_ops"), z3.Bool("has_marker")
        page = st.alloc("dict", {"__kind__": "dict", "open": False, "e": {"Operations": (p_ops, ops_list), "NextMarker": (p_marker, marker)}})
        if which == "CheckpointOutput":
            token = fresh("str", "token")
            p_tok, p_nes = z3.Bool("has_token"), z3.Bool("has_state")
            data = st.alloc("dict", {"__kind__": "dict", "open": False, "e": {"CheckpointToken": (p_tok, token), "NewExecutionState": (p_nes, page)}})
        else:
            data = page
        for k, v, s in eng.run(cls.find_method("from_dict"), [ClassRef(cls), data], st=st):
            chk.paths += 1
            ok = k == "val" and isinstance(v, Ref)
            goal = z3.BoolVal(ok)
            if ok:
                r = s.get(v)
                if which == "CheckpointOutput":
                    goal = z3.And(goal, ops.values_equal(s, r["checkpoint_token"], Sym("str", z3.If(p_tok, token.t, z3.StringVal("")))))
                    inner = s.get(r["new_execution_state"])
                    present = z3.And(p_nes, z3.Or(p_ops, p_marker))  # an empty NewExecutionState dict is falsy -> default empty state
                    have_ops = z3.And(p_nes, p_ops, n > 0)
                    have_marker = z3.And(p_nes, p_marker)
                else:
                    inner = r
                    have_ops = z3.And(p_ops, n > 0)
                    have_marker = p_marker
                lst = s.get(inner["operations"])
                if lst.get("__kind__") == "glist":
                    el_ok = nf.equal(s, op, s, lst["elem"], "Operation", op_cls.module)
                    goal = z3.And(goal, have_ops, lst["len"] == n, el_ok)
                else:
                    goal = z3.And(goal, z3.Not(have_ops), z3.BoolVal(len(lst["items"]) == 0))
                goal = z3.And(goal, z3.If(have_marker, ops.values_equal(s, inner["next_marker"], marker), is_none(inner["next_marker"])))
            chk.prove(f"C20.{which.lower()}.from_dict", s.pc, goal, desc=f"{which}.from_dict: every operation of the answer is parsed (N-equal to the operation whose wire form it is), in order; token (\"\" if absent) and NextMarker (None if absent) are taken over")


# ------------------------------------------------------------------------------------------------ exactness of the millisecond conversion
def _replay_ts(inputs):
    r_ = native("timestamp_rounding_replay.py", {})
    return bool(r_.get("confirmed")), r_


def _replay_from_ms(inputs):
    r_ = native("timestamp_from_millis_replay.py", {})
    return bool(r_.get("confirmed")), r_


def timestamp_exactness(chk):
    """to_unix_millis under assumption A is exact on millisecond-aligned instants (C20.*.json.rt.*timestamp).  In doubles it is exact only if no
    value that went through float arithmetic is truncated: provenance of the operand of int() is tracked on the real body."""
    class H(type(codec_hooks())):
        def on_binop(self, eng_, s, node, a, b, result):
            if is_sym(result, "real") and any(is_sym(x, "real") for x in (a, b)):
                s.ghost["__float_arith__"] = s.ghost.get("__float_arith__", frozenset()) | {result.t.sexpr()}

        def ext_call(self, eng_, s, name, args, kwargs):
            if name == "int" and args and is_sym(args[0], "real") and args[0].t.sexpr() in s.ghost.get("__float_arith__", frozenset()):
                s.ghost["__truncated_float__"] = tuple(s.ghost.get("__truncated_float__", ())) + (ast_line(eng_, s),)
            return type(codec_hooks()).ext_call(self, eng_, s, name, args, kwargs)

    def ast_line(eng_, s):
        return s.env.get("__func__", "?")
    eng = Engine(hooks=H())
    P = eng.program
    st = St()
    dt = fresh("dt", "instant")
    q = "lambda_service.TimestampConverter.to_unix_millis"
    chk.function(q)
    for k, v, s in eng.run(P.func(q), [dt], st=st):
        chk.paths += 1
        tr = s.ghost.get("__truncated_float__", ())
        chk.prove("C20.timestamp.exact_millis", s.pc, z3.BoolVal(k == "val" and not tr),
                  desc="to_unix_millis does not truncate a value computed in floating point (int(dt.timestamp() * 1000) can lose a whole millisecond on a millisecond-ALIGNED instant: the double product lands just below the integer); "
                       "an exact conversion uses integer arithmetic on the timedelta since the epoch",
                  regions={"float_product_truncated": z3.BoolVal(bool(tr))}, describe=lambda m: {"instant": "1970-01-01T00:00:01.001Z (aligned) -> 1000"}, replay=_replay_ts,
                  sample="provenance of the operand of int() in to_unix_millis")
    # the other direction: from_unix_millis(ms) is the instant ms / 1000 EXACTLY.  ms / 1000 evaluated in doubles is the nearest double, and
    # datetime.fromtimestamp rounds that to microseconds: beyond 2**42 ms (year 2109) the double's spacing exceeds a microsecond and the
    # result is an instant that to_unix_millis maps to ms - 1.  Sufficient condition: no int / int division feeds fromtimestamp.
    class H2(type(codec_hooks())):
        def on_binop(self, eng_, s, node, a, b, result):
            import ast as _ast
            if isinstance(node.op, _ast.Div) and is_sym(result, "real"):
                s.ghost["__rounded_div__"] = s.ghost.get("__rounded_div__", frozenset()) | {result.t.sexpr()}

        def ext_call(self, eng_, s, name, args, kwargs):
            if name.endswith("fromtimestamp") and args and is_sym(args[0], "real") and args[0].t.sexpr() in s.ghost.get("__rounded_div__", frozenset()):
                s.ghost["__rounded_instant__"] = True
            return type(codec_hooks()).ext_call(self, eng_, s, name, args, kwargs)
    eng2 = Engine(hooks=H2())
    st2 = St()
    ms = fresh("int", "ms")
    q2 = "lambda_service.TimestampConverter.from_unix_millis"
    chk.function(q2)
    for k, v, s in eng2.run(eng2.program.func(q2), [ms], st=st2):
        chk.paths += 1
        rounded = bool(s.ghost.get("__rounded_instant__"))
        exact = z3.And(dt_ts(v.t) * 1000 == z3.ToReal(ms.t), dt_off(v.t) == 0) if k == "val" and is_sym(v, "dt") else F
        chk.prove("C20.timestamp.exact_from_millis", s.pc, z3.And(z3.BoolVal(not rounded), exact),
                  desc="from_unix_millis(ms) is the UTC instant ms milliseconds after the epoch, computed without a rounded double (ms / 1000 handed to fromtimestamp is the nearest double, "
                       "rounded again to microseconds: for ms > 2**42 the result is an instant whose millisecond count is ms - 1); exact: epoch + timedelta(milliseconds=ms)",
                  regions={"float_quotient_rounded": z3.BoolVal(rounded)}, describe=lambda m: {"ms": "8796093022208 + k (instants after 2248-09), e.g. 8796093022211"}, replay=_replay_from_ms,
                  sample="provenance of the argument of datetime.fromtimestamp in from_unix_millis")
    try:
        r_ = native("timestamp_rounding_replay.py", {})
        chk.notes.append(f"native run for C20.timestamp.exact_millis: confirmed={r_.get('confirmed')}; affected among 50000 aligned instants of 2020-2030: {r_.get('affected_among_50000_aligned_instants_2020_2030')}; cases={str(r_.get('cases'))[:400]}")
    except Exception as e:  # noqa: BLE001
        chk.notes.append(f"native run for C20.timestamp.exact_millis failed: {e!r}")
    return eng


def strict_payload_decode(chk, prefix):
    """the payload the backend delivers ('Result' of a step / context / callback / chained invoke, and the callback id) is decoded EXACTLY:
    an empty string stays an empty string.  The normal form of the round-trip obligations identifies '' with absent (the encoder omits empty
    optional strings), so a decoder that turns a delivered '' into None needs its own obligation: result() / the replayed value is the delivered text."""
    eng = Engine(hooks=codec_hooks())
    P = eng.program
    for cname, extra in (("StepDetails", {}), ("ContextDetails", {}), ("CallbackDetails", {"CallbackId": "callback_id"}), ("ChainedInvokeDetails", {})):
        cls = P.cls("lambda_service." + cname)
        chk.function(f"lambda_service.{cname}.from_dict")
        st = St()
        res = fresh("str", "delivered_result")
        ent = {"Result": (T, res)}
        ids = {}
        for wire_key, field in extra.items():
            ids[field] = fresh("str", "delivered_" + field)
            ent[wire_key] = (T, ids[field])
        d = st.alloc("dict", {"__kind__": "dict", "open": False, "e": ent})
        for k, back, s in eng.run(cls.find_method("from_dict"), [ClassRef(cls), d], st=st):
            chk.paths += 1
            ok = k == "val" and isinstance(back, Ref)
            goal = z3.BoolVal(ok)
            if ok:
                b = s.get(back)
                goal = z3.And(goal, z3.Not(is_none(b["result"])) if isinstance(b["result"], Opt) else z3.BoolVal(b["result"] is not None), ops.values_equal(s, strip_opt(b["result"]) if isinstance(b["result"], Opt) else b["result"], res))
                for field, val in ids.items():
                    goal = z3.And(goal, ops.values_equal(s, b[field], val))
            chk.prove(f"{prefix}.decode.payload_exact.{cname}", s.pc, goal,
                      desc=f"{cname}.from_dict: a delivered Result (any string, including the empty one) is the decoded result, unchanged" + ("; the callback id likewise" if extra else ""))
    return eng

"""C19 - ordered lock and counter: FIFO, exclusive, gap-free, never wedged.

Owicki-Gries at atomic-action granularity (DESIGN 2.8, A.6).  The atomic actions are the `with self._lock:` blocks of the REAL
methods (assumption G), executed symbolically from an arbitrary state satisfying the invariant.  Ghost model of the deque: tickets
are numbered in the order of acquire's critical section; the deque holds the contiguous run [served, issued) (a put that does not
continue the run is not representable and fails a FIFO obligation); setf[i] = the Event of ticket i is set.
  Inv:  0 <= served <= issued,  not broken => (served < issued => setf[served]) and forall i in (served, issued): not setf[i]
        broken => forall i in [served, issued): setf[i]
"""
from __future__ import annotations

import z3

from pyvc import ops
from pyvc.engine import Engine, Hooks
from pyvc.loops import ForEach
from pyvc.ops import F, T, is_none, mk_opt, strip_opt
from pyvc.state import St
from pyvc.values import ClassRef, OpaqueFn, Opt, Ref, Sym, Unsupported, fresh, fresh_name, is_sym, simp, zbool, zint

OL = "threading.OrderedLock"


class LockHooks(Hooks):
    chk = None

    def cm_enter(self, eng, st, cm):
        if isinstance(cm, Ref) and cm.cls == "opaque:Lock":
            st.ghost["held"] = st.ghost.get("held", 0) + 1
            return [("val", cm, st)]
        return Hooks.cm_enter(self, eng, st, cm)

    def cm_exit(self, eng, st, cm, exc):
        if isinstance(cm, Ref) and cm.cls == "opaque:Lock":
            st.ghost["held"] = st.ghost.get("held", 0) - 1
            return [("val", None, st)]
        return Hooks.cm_exit(self, eng, st, cm, exc)

    def under_lock(self, st, what):
        """G makes a `with self._lock:` block one atomic action - so every access to the shared queue / events must be inside one"""
        if self.chk is not None:
            self.chk.prove("C19.atomic.shared_access_under_lock", st.pc, st.ghost.get("held", 0) > 0,
                           desc="every operation on the waiter queue and every Event.set happens inside a `with self._lock:` block (otherwise the atomic-action decomposition - and the invariant proof - does not apply)",
                           sample=f"{what} while holding the lock")

    def ext_call(self, eng, st, name, args, kwargs):
        if name in ("threading.Event", "Event"):
            t = st.ghost["issued"]  # the ticket this Event will get if it is appended now
            ev = st.alloc("opaque:TEvent", {"ticket": t})
            st.ghost["setf"] = z3.Store(st.ghost["setf"], t, False)  # a new Event is not set
            st.emit("new_event", ev=ev)
            return [("val", ev, st)]
        return None

    def opaque_call(self, eng, st, fn, args, kwargs):
        n = fn.name
        if n == "TEvent.set":
            self.under_lock(st, "Event.set")
            t = st.get(fn.info)["ticket"]
            if self.chk is not None and "broken_of" in st.ghost:
                # acquire re-reads _is_broken WITHOUT the inner lock after its wait(): what such a reader can see must satisfy the
                # invariant at every single write, not only at the end of the block - an event other than the head's is set only once the flag says broken
                self.chk.prove("C19.inv.lockfree_reader_view", st.pc, z3.Or(st.ghost["broken_of"](st), t == st.ghost["served"]),
                               desc="at every Event.set: the event is the head's, or the lock is ALREADY marked broken (flag written before any waiter is woken), so a waiter that wakes and reads the flag without the lock cannot take ownership out of turn")
            st.ghost["setf"] = z3.Store(st.ghost["setf"], t, True)
            st.emit("set", ticket=t)
            return [("val", None, st)]
        if n == "TEvent.wait":
            st.emit("wait", ticket=st.get(fn.info)["ticket"])
            st.ghost["yield"](eng, st, st.get(fn.info)["ticket"])
            return [("val", True, st)]
        return Hooks.opaque_call(self, eng, st, fn, args, kwargs)


class DequeModel:
    """collections.deque of Events as the ticket run [served, issued)"""

    def __init__(self, chk):
        self.chk = chk

    def method(self, eng, st, ref, name, args, kwargs):
        g = st.ghost
        eng.hooks.under_lock(st, "deque." + name)
        if name == "append":
            t = st.get(args[0])["ticket"]
            self.chk.prove("C19.fifo.append_continues_run", st.pc, t == g["issued"], desc="an Event is appended at the tail of the ticket order")
            g["issued"] = g["issued"] + 1
            return [("val", None, st)]
        if name == "popleft":
            out = []
            for empty, s in eng.branch(st, s_len(st) <= 0):
                if empty:
                    out.extend(eng.raise_ext(s, "IndexError", "pop from an empty deque"))
                else:
                    t = s.ghost["served"]
                    s.ghost["served"] = t + 1
                    s.emit("popleft", ticket=t)
                    out.append(("val", s.alloc("opaque:TEvent", {"ticket": t}), s))
            return out
        raise Unsupported(f"deque.{name}")

    def len(self, eng, st, ref):
        eng.hooks.under_lock(st, "len(deque)")
        return [("val", Sym("int", s_len(st)), st)]

    def getitem(self, eng, st, ref, k):
        eng.hooks.under_lock(st, "deque[0]")
        if k == 0:
            out = []
            for empty, s in eng.branch(st, s_len(st) <= 0):
                out.extend(eng.raise_ext(s, "IndexError", "deque index out of range") if empty else [("val", s.alloc("opaque:TEvent", {"ticket": s.ghost["served"]}), s)])
            return out
        raise Unsupported("deque index")


def s_len(st):
    return st.ghost["issued"] - st.ghost["served"]


def inv(st, broken=None):
    g = st.ghost
    served, issued, setf = g["served"], g["issued"], g["setf"]
    b = broken if broken is not None else g["broken_of"](st)
    i = z3.Int(fresh_name("i"))
    return z3.And(served >= 0, served <= issued,
                  z3.Implies(z3.Not(b), z3.And(z3.Implies(served < issued, z3.Select(setf, served)), z3.ForAll([i], z3.Implies(z3.And(i > served, i < issued), z3.Not(z3.Select(setf, i)))))),
                  z3.Implies(b, z3.ForAll([i], z3.Implies(z3.And(i >= served, i < issued), z3.Select(setf, i)))))


def _lb_describe(m):
    return {"schedule": "holder raises inside the critical section while one waiter is queued; then a later caller arrives (one run per kind of breaking exception)"}


def _lb_replay(inputs):
    from pyvc.check import native
    r_ = native("lock_break_replay.py", {})
    return bool(r_.get("confirmed")), r_


def stored_exception(eng, st, kind, prefix):
    """the exception that broke the lock is ANY exception object: one with a message, one constructed without arguments, and one whose
    arguments are not strings (KeyError(5), OSError(2, 'No such file'))"""
    if kind == "symexc":
        return eng.new_symexc(st, prefix)
    if kind == "noargs":
        return st.alloc("exc:RuntimeError", {"args": ()})
    return st.alloc("exc:KeyError", {"args": (fresh("int", prefix + "_arg"), fresh("str", prefix + "_arg2"))})


def setup(chk, stored="symexc"):
    hooks = LockHooks()
    hooks.chk = chk
    eng = Engine(hooks=hooks)
    eng.container_models["tdeque"] = DequeModel(chk)
    P = eng.program
    st = St()
    st.ghost["served"], st.ghost["issued"] = z3.Int("served"), z3.Int("issued")
    st.ghost["setf"] = z3.Array("setf", z3.IntSort(), z3.BoolSort())
    broken = fresh("bool", "broken")
    lock = st.alloc(P.cls(OL), {"_lock": st.alloc("opaque:Lock", {}), "_waiters": st.alloc("tdeque", {"__kind__": "tdeque", "__truth__": lambda s_: s_len(s_) > 0}), "_is_broken": broken, "_exception": None})
    # the exception that broke the lock: any exception object, including one constructed without arguments
    exc_obj = stored_exception(eng, st, stored, "stored")
    st.setfield(lock, "_exception", mk_opt(z3.Not(broken.t), exc_obj))
    st.ghost["lock_ref"] = lock
    st.ghost["broken_of"] = lambda s: zbool(s.get(lock)["_is_broken"]) if not isinstance(s.get(lock)["_is_broken"], bool) else z3.BoolVal(s.get(lock)["_is_broken"])
    st.assume(inv(st))
    return eng, st, lock


def foreach_set_all(chk):
    """`for waiter in self._waiters: waiter.set()` - per-element loop: afterwards every queued event is set"""
    def handler(eng, node, st):
        g = st.ghost
        new = z3.Array(fresh_name("setf"), z3.IntSort(), z3.BoolSort())
        i = z3.Int(fresh_name("i"))
        # generic element: the body must be exactly `waiter.set()`
        s2 = st.fork()
        j = z3.Int(fresh_name("j"))
        ev = s2.alloc("opaque:TEvent", {"ticket": j})
        n0 = len(s2.trace)
        for s3 in eng.assign(node.target, ev, s2):
            res = eng.exec_block(node.body, s3)
            ok = len(res) == 1 and res[0][0] == "fall" and [e.kind for e in res[0][2].trace[n0:]] == ["set"] and z3.eq(res[0][2].trace[n0].ticket, j)
            chk.prove("C19.exit.sets_every_waiter.body", st.pc, ok, desc="the loop over the waiters sets each waiter's own event and does nothing else")
        lock_ = g.get("lock_ref")
        chk.prove("C19.inv.lockfree_reader_view.wake_all", st.pc, g["broken_of"](st),
                  desc="the loop that wakes every waiter starts only after the broken flag was written (a woken waiter reads the flag without the lock)")
        st.assume(z3.ForAll([i], z3.Select(new, i) == z3.Or(z3.Select(g["setf"], i), z3.And(i >= g["served"], i < g["issued"]))))
        g["setf"] = new
        st.emit("set_all", exc_at=st.get(lock_)["_exception"] if lock_ is not None else None)
        return [("fall", None, st)]
    return handler


def run(chk):
    from .common import per_instance_state_of_modules
    per_instance_state_of_modules(chk, "C19.classes.state_is_per_instance", ['threading'])   # no object created in a class body: instances share no mutable state through the class
    chk.assume("G: a `with self._lock:` block and a single Event call are atomic; threading.Lock gives mutual exclusion of those blocks; Event is level-triggered (a set before the wait is not lost)")
    chk.assume("protocol: release() / __exit__ are called only by the thread whose acquire() returned (the holder)")
    chk.assume("NOT DECIDED: fairness of threading.Lock, termination of critical sections (liveness)")
    chk.trust("python semantics of the stated subset as encoded by pyvc (DESIGN 2.3)")
    chk.trust("z3 5.1.0")
    P = None
    # ------------------------------------------------------------------ acquire: action A, wait, action B
    stored_kind = ["symexc"]
    P = Engine().program if False else None
    for stored_kind[0] in ("symexc", "noargs", "nonstr_args"):
        acquire_paths(chk, stored_kind)
    eng, st, lock = setup(chk)
    P = eng.program
    rest_of_lock(chk, eng, st, lock, P)


def acquire_paths(chk, stored_kind):
    eng, st, lock = setup(chk, stored_kind[0])
    P = eng.program
    for m in ("acquire", "release", "reset", "is_broken", "__enter__", "__exit__"):
        chk.function(f"{OL}.{m}", "verified (atomic actions extracted from the `with self._lock` blocks)")
    eng.loop_handlers[(OL + ".__exit__", "for", 0)] = foreach_set_all(chk)
    served0, issued0, setf0 = st.ghost["served"], st.ghost["issued"], st.ghost["setf"]
    broken0 = st.ghost["broken_of"](st)

    def yield_point(eng_, s, my):
        """between action A and the re-read of _is_broken: the invariant holds (checked), then other threads run (rely): the state is
        havocked subject to the invariant and to what is stable for this thread - its ticket stays queued until it releases, events are never unset"""
        chk.prove("C19.inv.acquire_A", s.pc, inv(s), desc="acquire's critical section (append the ticket's event, set it iff the queue was empty) preserves the invariant", sample="acquire.A from an arbitrary invariant state")
        g = s.ghost
        chk.prove("C19.acquire.ticket_is_tail", s.pc, z3.And(my == issued0, g["issued"] == issued0 + 1, g["served"] == served0), desc="a caller takes the next ticket: arrival order = order of acquire's critical sections")
        g["served"], g["issued"] = z3.Int(fresh_name("served")), z3.Int(fresh_name("issued"))
        old_setf = g["setf"]
        g["setf"] = z3.Array(fresh_name("setf"), z3.IntSort(), z3.BoolSort())
        nb = fresh("bool", "broken_after_wait")
        s.setfield(lock, "_is_broken", nb)
        s.setfield(lock, "_exception", mk_opt(z3.Not(nb.t), stored_exception(eng_, s, stored_kind[0], "stored2")))
        s.assume(inv(s))
        s.assume(z3.And(g["served"] >= served0, g["served"] <= my, g["issued"] > my))   # my ticket is still queued: only its holder pops a head
        s.assume(z3.Select(g["setf"], my))                                              # wait() returned: my event is set (level-triggered)
    st.ghost["yield"] = yield_point
    for k, v, s in eng.run(P.func(OL + ".acquire"), [lock], st=st):
        chk.paths += 1
        waits = [e for e in s.trace if e.kind == "wait"]
        if not waits:
            # refused in action A: only when broken
            chk.prove("C19.exit.breaks.future_acquirers", s.pc, z3.And(z3.BoolVal(k == "raise" and getattr(getattr(v, "cls", None), "name", "") == "OrderedLockError"), broken0, inv(s)),
                      desc="a caller arriving after the lock was broken gets OrderedLockError immediately and changes nothing", describe=_lb_describe, replay=_lb_replay)
            continue
        my = waits[0].ticket
        g = s.ghost
        b_now = g["broken_of"](s)
        if k == "val":
            chk.prove("C19.lemma.mutex_fifo", s.pc, z3.And(z3.Not(b_now), my == g["served"]),
                      desc="acquire returns True only when the lock is not broken and the caller's ticket is the head of the queue: one holder at a time, in ticket (arrival) order",
                      sample="acquire returns => ticket == served (head) by the invariant")
        else:
            chk.prove("C19.exit.breaks.current_waiters", s.pc, z3.And(z3.BoolVal(getattr(getattr(v, "cls", None), "name", "") == "OrderedLockError"), b_now),
                      desc="a waiter woken after the lock was broken gets OrderedLockError instead of ownership", describe=_lb_describe, replay=_lb_replay)


def rest_of_lock(chk, eng, st, lock, P):
    # ------------------------------------------------------------------ release (by the holder)
    eng, st, lock = setup(chk)
    eng.loop_handlers[(OL + ".__exit__", "for", 0)] = foreach_set_all(chk)
    g0 = dict(st.ghost)
    holder_pre = z3.And(st.ghost["served"] < st.ghost["issued"])  # the holder's ticket is the head
    st.assume(holder_pre)
    b0 = st.ghost["broken_of"](st)
    for k, v, s in eng.run(P.func(OL + ".release"), [lock], st=st):
        chk.paths += 1
        g = s.ghost
        chk.prove("C19.release.handover", s.pc, z3.And(z3.BoolVal(k == "val"), g["served"] == g0["served"] + 1, g["issued"] == g0["issued"], inv(s),
                                                      z3.Implies(z3.And(z3.Not(b0), g["served"] < g["issued"]), z3.Select(g["setf"], g["served"]))),
                  desc="release pops the head and, in the same atomic action, sets the next waiter's event (no lost wake-up); the invariant is preserved",
                  sample="release.A from an arbitrary invariant state with a holder")
    # release without holder: refused
    eng, st, lock = setup(chk)
    st.assume(st.ghost["served"] == st.ghost["issued"])
    for k, v, s in eng.run(P.func(OL + ".release"), [lock], st=st):
        chk.paths += 1
        chk.prove("C19.release.requires_holder", s.pc, z3.And(z3.BoolVal(k == "raise" and getattr(getattr(v, "cls", None), "name", "") == "OrderedLockError"), inv(s)), desc="release on an empty queue raises and changes nothing")
    # ------------------------------------------------------------------ __exit__
    for with_exc in (False, True):
        eng, st, lock = setup(chk)
        eng.loop_handlers[(OL + ".__exit__", "for", 0)] = foreach_set_all(chk)
        st.assume(st.ghost["served"] < st.ghost["issued"])
        g0 = dict(st.ghost)
        b0 = st.ghost["broken_of"](st)
        exc = eng.new_symexc(st, "holder") if with_exc else None
        args = [lock, ("typeof", exc), exc, None] if with_exc else [lock, None, None, None]
        for k, v, s in eng.run(P.func(OL + ".__exit__"), args, st=st):
            chk.paths += 1
            g = s.ghost
            b1 = g["broken_of"](s)
            if with_exc:
                sa = [e for e in s.trace if e.kind == "set_all"]
                goal = z3.And(z3.BoolVal(k == "val" and v is None), b1, inv(s), g["served"] == g0["served"] + 1, z3.BoolVal(s.get(lock)["_exception"] == exc),
                              z3.BoolVal(len(sa) == 1 and sa[0].exc_at == exc))  # the exception a woken waiter will report is stored before the wake-up
                chk.prove("C19.exit.breaks", s.pc, goal,
                          desc="leaving the critical section with ANY exception: __exit__ returns None (the holder sees its own exception), the lock is broken, every queued waiter's event is set, the exception is stored; invariant preserved",
                          sample="__exit__ with an exception of arbitrary class", describe=_lb_describe, replay=_lb_replay)
            else:
                chk.prove("C19.exit.normal_is_release", s.pc, z3.And(z3.BoolVal(k == "val" and v is None), b1 == b0, inv(s), g["served"] == g0["served"] + 1), desc="a normal exit is exactly a release")
    # ------------------------------------------------------------------ reset / is_broken
    eng, st, lock = setup(chk)
    g0 = dict(st.ghost)
    b_before = st.ghost["broken_of"](st)
    for k, v, s in eng.run(P.func(OL + ".reset"), [lock], st=st):
        chk.paths += 1
        g = s.ghost
        empty = g0["served"] == g0["issued"]
        b1 = g["broken_of"](s)
        chk.prove("C19.reset.only_when_empty", s.pc, z3.And(inv(s), z3.If(empty, z3.And(z3.BoolVal(k == "val"), z3.Not(b1)), z3.And(z3.BoolVal(k == "raise"), b1 == b_before))),
                  desc="broken is cleared only by reset, and reset refuses while anyone is queued (so a broken lock stays broken for every current waiter)")
    # ------------------------------------------------------------------ counter
    counter_sequence(chk)
    # the counter's only caller must USE the value increment() returned: a separate read afterwards is a second, unordered acquisition
    from . import context_contracts
    context_contracts.counter_use(chk, "C19")


class CounterHooks(Hooks):
    pass


def counter_sequence(chk, name="C19.counter.sequence"):
    """OrderedCounter.increment: invariant `_counter == number of completed increments`; the field is stable only while the lock is held"""
    eng = Engine(hooks=LockHooks())
    P = eng.program
    cls = P.cls("threading.OrderedCounter")
    chk.function("threading.OrderedCounter.increment", "verified (lock contract at __enter__/__exit__: the protected field is havocked outside the critical section)")
    st = St()
    lock = st.alloc("opaque:OrderedLockObj", {})
    done = z3.Int("completed_increments")
    self_ = st.alloc(cls, {"_lock": lock, "_counter": Sym("int", done)})

    class H(LockHooks):
        def cm_enter(self, eng_, s, cm):
            if cm == lock:
                # contract of OrderedLock.__enter__ (C19.lemma.mutex_fifo): the caller now holds the lock; the k-th holder sees the state left by k-1 completed critical sections
                k = z3.Int(fresh_name("completed"))
                s.assume(k >= 0)
                s.ghost["at_entry"] = k
                s.setfield(self_, "_counter", Sym("int", k))
                s.emit("enter")
                return [("val", cm, s)]
            return LockHooks.cm_enter(self, eng_, s, cm)

        def cm_exit(self, eng_, s, cm, exc):
            if cm == lock:
                s.ghost["at_exit"] = zint(s.get(self_)["_counter"])
                s.emit("exit")
                s.setfield(self_, "_counter", fresh("int", "counter_after_release"))  # other holders may run now
                return [("val", None, s)]
            return LockHooks.cm_exit(self, eng_, s, cm, exc)
    eng.hooks = H()
    if name == "C19.counter.sequence":
        # the other two operations of the counter, under the same lock contract (read and written only inside the critical section)
        for m_, delta in (("decrement", -1), ("get_current", 0)):
            if cls.find_method(m_) is None:
                continue
            chk.function(f"threading.OrderedCounter.{m_}", "verified (lock contract at __enter__/__exit__)")
            for k, v, s in eng.run(cls.find_method(m_), [self_], st=st.fork()):
                chk.paths += 1
                ok = k == "val" and "at_entry" in s.ghost and "at_exit" in s.ghost
                chk.prove(f"C19.counter.{m_}", s.pc, z3.And(z3.BoolVal(ok), s.ghost["at_exit"] == s.ghost["at_entry"] + delta, zint(v) == s.ghost["at_entry"] + delta) if ok else F,
                          desc=f"{m_} {'leaves the counter unchanged' if delta == 0 else 'lowers the counter by one'} and returns the value it has inside the critical section (never a value another holder wrote after the release)")
    for k, v, s in eng.run(cls.find_method("increment"), [self_], st=st):
        chk.paths += 1
        ok = k == "val" and "at_entry" in s.ghost and "at_exit" in s.ghost
        goal = z3.BoolVal(ok)
        if ok:
            goal = z3.And(goal, s.ghost["at_exit"] == s.ghost["at_entry"] + 1, zint(v) == s.ghost["at_entry"] + 1)
        chk.prove(name, s.pc, goal,
                  desc="the k-th holder (k-1 completed increments before it) leaves the counter at k and returns k: with mutual exclusion and ticket order (C19.lemma.mutex_fifo) n incrementers get 1..n exactly once, in arrival order",
                  sample="increment under the lock contract: returns entry value + 1, read inside the critical section")

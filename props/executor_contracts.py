"""Contracts of concurrency/models.py and concurrency/executor.py verified against the real bodies (C09, C07, C06, C16, C08)."""
from __future__ import annotations

import ast

import z3

from pyvc import ops
from pyvc.engine import Engine, Hooks
from pyvc.loader import ClassInfo
from pyvc.ops import F, T, is_none, mk_opt, strip_opt
from pyvc.state import St
from pyvc.values import ClassRef, ExtRef, FuncRef, OpaqueFn, Opt, Ref, Sym, Unsupported, enum_member, enum_sort, fresh, fresh_name, is_sym, simp, zbool, zint, zreal


def _intlike(v):
    return (isinstance(v, int) and not isinstance(v, bool)) or is_sym(v, "int")


class ExecHooks(Hooks):
    # provenance of rounding: int / int is a ROUNDED double in CPython; under assumption A (floats are reals) the proofs below are only
    # meaningful for decisions that do not compare such a value - recorded here, required by *.exact_arithmetic
    def on_binop(self, eng, st, node, a, b, result):
        if not is_sym(result):
            return
        rounded = st.ghost.get("__rounded__", frozenset())
        key = result.t.sexpr()
        if isinstance(node.op, ast.Div) and _intlike(a) and _intlike(b):
            st.ghost["__rounded__"] = rounded | {key}
        elif any(is_sym(x) and x.t.sexpr() in rounded for x in (a, b)):
            st.ghost["__rounded__"] = rounded | {key}

    def on_compare(self, eng, st, node, op, a, b):
        rounded = st.ghost.get("__rounded__", frozenset())
        if any(is_sym(x) and x.t.sexpr() in rounded for x in (a, b)):
            st.ghost["__rounded_cmp__"] = tuple(st.ghost.get("__rounded_cmp__", ())) + (f"{st.env.get('__func__', '?')}:{node.lineno}",)

    def ext_call(self, eng, st, name, args, kwargs):
        if name in ("threading.Lock", "Lock"):
            return [("val", st.alloc("opaque:Lock", {}), st)]
        if name in ("threading.Event", "Event"):
            return [("val", st.alloc("opaque:Event", {}), st)]
        if name in ("collections.Counter", "Counter"):
            raise Unsupported("Counter: summarised at from_items")
        return None

    def opaque_call(self, eng, st, fn, args, kwargs):
        n = fn.name
        if n == "Future.cancelled":
            b = fresh("bool", "cancelled")
            st.emit("future_cancelled", b=b.t)
            return [("val", b, st)]
        if n == "Future.result":
            st.emit("future_result")
            s2 = st.fork()
            exc = eng.new_symexc(s2, "branch")
            s2.emit("future_raised", exc=exc)
            res = fresh("any", "branch_result")
            st.trace[-1].d["result"] = res
            return [("val", res, st), ("raise", exc, s2)]
        if n == "Event.set":
            ex_ = st.ghost.get("executor")
            at_set = {f: st.get(ex_).get(f) for f in ("_suspend_exception", "_fatal_exception")} if ex_ is not None else None
            st.emit("event_set", ev=fn.info, at_set=at_set)
            return [("val", None, st)]
        if n == "TimerScheduler.schedule_resume":
            st.emit("schedule_resume", exe=args[0], at=args[1])
            return [("val", None, st)]
        return Hooks.opaque_call(self, eng, st, fn, args, kwargs)

    def exc_attr(self, eng, st, ref, name):
        if name in ("message", "error_type", "data"):
            v = eng.sym_of_type("str | None", "cre_" + name, st)
            st.setfield(ref, name, v)
            return [("val", v, st)]
        if name == "stack_trace":
            v = eng.sym_of_type("list[str] | None", "cre_stack", st)
            st.setfield(ref, name, v)
            return [("val", v, st)]
        if name == "scheduled_timestamp":
            v = fresh("real", "scheduled_timestamp")
            st.setfield(ref, "scheduled_timestamp", v)
            return [("val", v, st)]
        return Hooks.exc_attr(self, eng, st, ref, name)


# ------------------------------------------------------------------------------------------------ spec functions (from the statement of C09)
def spec_tolerance_exceeded(total, tc_none, tc, tp_none, tp, f):
    """the failure count exceeds the configured tolerance (count or percentage)"""
    return z3.Or(z3.And(z3.Not(tc_none), f > tc), z3.And(z3.Not(tp_none), total > 0, z3.ToReal(f) * 100 > tp * z3.ToReal(total)))


def spec_continue(total, tc_none, tc, tp_none, tp, f):
    """no tolerance configured: any failure stops; otherwise stop when the tolerance is exceeded"""
    return z3.If(z3.And(tc_none, tp_none), f == 0, z3.Not(spec_tolerance_exceeded(total, tc_none, tc, tp_none, tp, f)))


def spec_stop(total, minimum, tc_none, tc, tp_none, tp, s, f):
    return z3.Or(s + f == total, s >= minimum, z3.Not(spec_continue(total, tc_none, tc, tp_none, tp, f)))


def complete_executor(eng, st, self_):
    """the symbolic ConcurrentExecutor of a contract gets every field the REAL constructor creates and the contract did not set: the constructor is run on a
    scratch object with arbitrary arguments and the missing fields are copied over (private caches, flags a refactoring added, ...).  The fields a contract
    sets stay the arbitrary values it chose.  If the constructor cannot be run the object stays as it is (a read of a missing field then ends the check undecided)."""
    P = eng.program
    cls = P.cls("concurrency.executor.ConcurrentExecutor")
    init = cls.find_method("__init__")
    if init is None:
        return
    try:
        n = z3.Int(fresh_name("n_executables"))
        st.assume(n >= 0)
        exes = st.alloc("list", {"__kind__": "glist", "len": n, "elem": st.alloc("opaque:Executable", {})})
        cc_cls = P.cls("config.CompletionConfig")
        cfg = st.alloc(cc_cls, {"min_successful": None, "tolerated_failure_count": None, "tolerated_failure_percentage": None})
        tmp = st.alloc(cls, {})
        n_tr, n_pc = len(st.trace), len(st.pc)
        res = eng.call_func(init, [tmp, exes, None, cfg, fresh("any", "sub_top"), fresh("any", "sub_iter"), "p-", None], {}, st)
        if len(res) != 1 or res[0][0] != "val" or res[0][2] is not st or len(st.trace) != n_tr:
            return
        have = st.get(self_)
        # the contracts are about an executor in an ARBITRARY reachable state, not a freshly constructed one: a field the contract does not model is
        # present but unmodelled (any use of it ends the check undecided); it is NOT given the constructor's initial value
        extra = {k_: st.alloc("opaque:Unmodelled", {"__field__": k_}) for k_ in st.get(tmp) if k_ not in have}
        if extra:
            st.put(self_, dict(have, **extra))
    except Unsupported:
        return


def counters_obj(eng, st):
    P = eng.program
    total, minimum, s, f = (z3.Int(n) for n in ("total", "min_successful", "success", "failure"))
    tc_none, tp_none = z3.Bool("tol_count.none"), z3.Bool("tol_pct.none")
    tc, tp = z3.Int("tol_count"), z3.Real("tol_pct")
    st.assume(z3.And(total >= 0, s >= 0, f >= 0, s + f <= total))
    c = st.alloc(P.cls("concurrency.models.ExecutionCounters"), {
        "total_tasks": Sym("int", total), "min_successful": Sym("int", minimum), "tolerated_failure_count": mk_opt(tc_none, Sym("int", tc)),
        "tolerated_failure_percentage": mk_opt(tp_none, Sym("real", tp)), "success_count": Sym("int", s), "failure_count": Sym("int", f), "_lock": st.alloc("opaque:Lock", {})})
    return c, dict(total=total, minimum=minimum, tc_none=tc_none, tc=tc, tp_none=tp_none, tp=tp, s=s, f=f)


def _replay_rounding(inputs):
    from pyvc.check import native
    r_ = native("percentage_rounding_replay.py", {})
    return bool(r_.get("confirmed")), r_


def exact_arithmetic(chk, name, s):
    cmps = s.ghost.get("__rounded_cmp__", ())
    chk.prove(name, s.pc, z3.BoolVal(not cmps),
              desc="no decision of the completion policy compares a value that went through a rounded division (int / int is a rounded double): the failure percentage test is evaluated exactly, "
                   "e.g. as failures * 100 > percentage * total; this is what makes the real-arithmetic reading (assumption A) of the policy contracts faithful for integer-valued percentages"
                   + (f"; rounded comparisons at {sorted(set(cmps))}" if cmps else ""),
              describe=lambda m: {"example": "7 failures of 100 with tolerated_failure_percentage=7: 7/100*100 == 7.000000000000001 > 7"}, replay=_replay_rounding,
              sample="provenance of the operands of every comparison on the path")


def _collect_xc(s, base, g, got, xc, enum_names=None):
    """one concrete model of the path for the CPython cross-check (integer-valued percentage so that the real-arithmetic reading is exact)"""
    slv = z3.Solver()
    slv.set("timeout", 5000)
    slv.add(*s.pc)
    tp = g.get("tp")
    if tp is not None:
        slv.add(z3.IsInt(tp), tp >= 0, tp <= 100)
    for k_ in ("total", "s", "f", "started", "minimum", "ms", "tc"):
        if k_ in g and not z3.is_bool(g[k_]):
            slv.add(g[k_] >= 0, g[k_] <= 60)
    if slv.check() != z3.sat:
        return
    mdl = slv.model()

    def val(t):
        return str(mdl.eval(t, model_completion=True))
    case = dict(base)
    for k_, t in g.items():
        if z3.is_bool(t):
            case[k_] = z3.is_true(mdl.eval(t, model_completion=True))
        else:
            case[k_] = val(t)
    for k_none, k_val in (("tc_none", "tc"), ("tp_none", "tp"), ("ms_none", "ms")):
        if case.get(k_none):
            case[k_val] = None
    gv = mdl.eval(got, model_completion=True)
    case["expected"] = z3.is_true(gv) if z3.is_bool(got) else (enum_names or {}).get(str(gv), str(gv))
    xc.append(case)


def _run_xc(chk, xc):
    if not xc:
        return
    from pyvc.check import native
    try:
        res = native("counters_crosscheck.py", xc, timeout=120)
    except Exception as e:  # noqa: BLE001
        chk.fault(f"counters cross-check harness failed: {e!r}")
        return
    for r in res:
        if r.get("match"):
            chk.validated += 1
        else:
            chk.fault(f"engine/CPython mismatch on the completion policy: native={r.get('native')} predicted={r.get('predicted')} case={r.get('case')}")
            break


def counters_contract(chk, prefix="C09"):
    eng = Engine(hooks=ExecHooks())
    P = eng.program
    cls = P.cls("concurrency.models.ExecutionCounters")
    specs = {"should_continue": lambda g: spec_continue(g["total"], g["tc_none"], g["tc"], g["tp_none"], g["tp"], g["f"]),
             "is_complete": lambda g: z3.Or(g["s"] + g["f"] == g["total"], g["s"] >= g["minimum"]),
             "should_complete": lambda g: spec_stop(g["total"], g["minimum"], g["tc_none"], g["tc"], g["tp_none"], g["tp"], g["s"], g["f"]),
             # the public single-clause predicates (not used by the executor itself, but part of what the class reports about the policy)
             "is_all_completed": lambda g: g["s"] == g["total"],
             "is_min_successful_reached": lambda g: g["s"] >= g["minimum"],
             "is_failure_tolerance_exceeded": lambda g: z3.Or(z3.And(z3.Not(g["tc_none"]), g["f"] > g["tc"]),
                                                              z3.And(z3.Not(g["tp_none"]), g["total"] > 0, z3.ToReal(g["f"]) * 100 > g["tp"] * z3.ToReal(g["total"])))}
    xc = []
    for m, spec in specs.items():
        if cls.find_method(m) is None:
            continue
        st = St()
        c, g = counters_obj(eng, st)
        chk.function(f"concurrency.models.ExecutionCounters.{m}")
        if m == "is_failure_tolerance_exceeded":
            chk.function("concurrency.models.ExecutionCounters._is_failure_condition_reached", "verified (inlined)")
        res = eng.run(cls.find_method(m), [c], st=st)
        chk.paths += len(res)
        for k, v, s in res:
            if k == "raise":
                chk.prove(f"{prefix}.counters.{m}", s.pc, F, desc=f"{m} does not raise")
                continue
            exact_arithmetic(chk, f"{prefix}.counters.exact_arithmetic.{m}", s)
            got = z3.BoolVal(v) if isinstance(v, bool) else zbool(v)
            _collect_xc(s, {"what": "counters", "method": m}, g, got, xc)
            chk.prove(f"{prefix}.counters.{m}", s.pc, got == spec(g), desc=f"ExecutionCounters.{m}() equals the policy's spec function for every configuration and count (linear real arithmetic)",
                      sample=f"{m}: returned value == spec(total, min_successful, tolerances, success, failure)")
    _run_xc(chk, xc)
    for m, delta in (("complete_task", ("success_count", "failure_count")), ("fail_task", ("failure_count", "success_count"))):
        st = St()
        c, g = counters_obj(eng, st)
        before = dict(st.get(c))
        chk.function(f"concurrency.models.ExecutionCounters.{m}")
        for k, v, s in eng.run(cls.find_method(m), [c], st=st):
            after = s.get(c)
            chk.prove(f"{prefix}.counters.{m}", s.pc, z3.And(z3.BoolVal(k == "val"), zint(after[delta[0]]) == zint(before[delta[0]]) + 1, zint(after[delta[1]]) == zint(before[delta[1]]),
                                                               *[ops.values_equal(s, after[x], before[x]) for x in ("total_tasks", "min_successful", "tolerated_failure_count", "tolerated_failure_percentage")]),
                      desc=f"{m} increments exactly its counter and nothing else")
    return eng


REASONS = ("ALL_COMPLETED", "MIN_SUCCESSFUL_REACHED", "FAILURE_TOLERANCE_EXCEEDED")


def classifier_run(eng, st):
    """symbolic run of BatchResult._get_completion_reason; returns (paths, symbols)"""
    P = eng.program
    cc_cls = P.cls("config.CompletionConfig")
    f, s, started = z3.Int("failed"), z3.Int("succeeded"), z3.Int("started")
    st.assume(z3.And(f >= 0, s >= 0, started >= 0))
    st.assume(z3.And(z3.Int("cfg.min") >= 0, z3.Int("cfg.tol_count") >= 0, z3.Real("cfg.tol_pct") >= 0))  # well-formed completion configuration
    ms_none, tc_none, tp_none = z3.Bool("cfg.min.none"), z3.Bool("cfg.tol_count.none"), z3.Bool("cfg.tol_pct.none")
    ms, tc, tp = z3.Int("cfg.min"), z3.Int("cfg.tol_count"), z3.Real("cfg.tol_pct")
    cfg0 = st.alloc(cc_cls, {"min_successful": mk_opt(ms_none, Sym("int", ms)), "tolerated_failure_count": mk_opt(tc_none, Sym("int", tc)), "tolerated_failure_percentage": mk_opt(tp_none, Sym("real", tp))})
    cfg_none = z3.Bool("cfg.none")
    cfg = mk_opt(cfg_none, cfg0)
    br = P.cls("concurrency.models.BatchResult")
    res = eng.run(br.find_method("_get_completion_reason"), [], {"failure_count": Sym("int", f), "success_count": Sym("int", s), "completed_count": Sym("int", s + f), "total_count": Sym("int", s + f + started), "completion_config": cfg}, st=st)
    return res, dict(f=f, s=s, started=started, ms_none=z3.Or(cfg_none, ms_none), ms=ms, tc_none=z3.Or(cfg_none, tc_none), tc=tc, tp_none=z3.Or(cfg_none, tp_none), tp=tp, cfg_none=cfg_none)


def real_stop_decision(chk, eng, st_cfg, g, total):
    """the executor's stop predicate taken from the REAL code: ConcurrentExecutor.__init__ maps the completion config to the
    counters, ExecutionCounters.should_complete() decides.  Returns [(path condition, z3 Bool 'stop')]"""
    P = eng.program
    cls = P.cls("concurrency.executor.ConcurrentExecutor")
    chk.function("concurrency.executor.ConcurrentExecutor.__init__")
    st = St()
    n = z3.Int("n_executables")
    st.assume(n == total)
    exes = st.alloc("list", {"__kind__": "glist", "len": n, "elem": st.alloc("opaque:Executable", {})})
    cc_cls = P.cls("config.CompletionConfig")
    ms_none, tc_none, tp_none = z3.Bool("cfg.min.none"), z3.Bool("cfg.tol_count.none"), z3.Bool("cfg.tol_pct.none")
    cfg = st.alloc(cc_cls, {"min_successful": mk_opt(ms_none, Sym("int", z3.Int("cfg.min"))), "tolerated_failure_count": mk_opt(tc_none, Sym("int", z3.Int("cfg.tol_count"))),
                            "tolerated_failure_percentage": mk_opt(tp_none, Sym("real", z3.Real("cfg.tol_pct")))})
    self_ = st.alloc(cls, {})
    out = []
    for k, v, s in eng.call_func(cls.find_method("__init__"), [self_, exes, None, cfg, fresh("any", "sub_top"), fresh("any", "sub_iter"), "p-", None], {}, st):
        if k == "raise":
            chk.prove("C09.exec.init_policy_mapping", s.pc, F, desc="ConcurrentExecutor.__init__ does not raise on a well-formed completion configuration")
            continue
        counters = s.get(self_)["counters"]
        cf = s.get(counters)
        tc_c, tp_c = cf["tolerated_failure_count"], cf["tolerated_failure_percentage"]
        explicit_kept = z3.And(
            z3.Implies(z3.Not(tc_none), z3.And(z3.Not(is_none(tc_c)), zint(strip_opt(tc_c)) == z3.Int("cfg.tol_count")) if strip_opt(tc_c) is not None else F),
            z3.Implies(z3.Not(tp_none), z3.And(z3.Not(is_none(tp_c)), ops.zreal(strip_opt(tp_c)) == z3.Real("cfg.tol_pct")) if strip_opt(tp_c) is not None else F),
            z3.Implies(z3.And(ms_none, tc_none), is_none(tc_c)), z3.Implies(tp_none, is_none(tp_c)),
            zint(cf["total_tasks"]) == n)
        chk.prove("C09.exec.init_policy_mapping", s.pc, explicit_kept,
                  desc="ConcurrentExecutor.__init__ hands the policy to the counters unchanged: an explicit tolerated_failure_count / tolerated_failure_percentage - including 0 - is the counters' tolerance, "
                       "absent tolerances stay absent unless a minimum-success policy supplies the default, total = number of branches",
                  sample="__init__: counters.tolerated_failure_* == config.tolerated_failure_* when given")
        s.setfield(counters, "success_count", Sym("int", g["s"]))
        s.setfield(counters, "failure_count", Sym("int", g["f"]))
        for k2, v2, s2 in eng.call_func(P.cls("concurrency.models.ExecutionCounters").find_method("should_complete"), [counters], {}, s):
            if k2 == "raise":
                chk.prove("C09.exec.init_policy_mapping", s2.pc, F, desc="ExecutionCounters.should_complete does not raise")
                continue
            out.append((list(s2.pc), z3.BoolVal(v2) if isinstance(v2, bool) else zbool(v2)))
    return out


def reason_consistency(chk, prefix="C09"):
    """C09.lemma.reason_consistent, stated over the REAL classifier and the REAL stop decision:
    whenever the executor's stop predicate holds for counts (s, f) with `started` unfinished branches, the reason reported for those
    item statuses is consistent with them and with the policy"""
    eng = Engine(hooks=ExecHooks())
    P = eng.program
    st = St()
    res, g = classifier_run(eng, st)
    chk.function("concurrency.models.BatchResult._get_completion_reason")
    chk.paths += len(res)
    rcls = P.cls("concurrency.models.CompletionReason")
    consts = enum_sort(rcls)[1]
    total = g["s"] + g["f"] + g["started"]
    xc = []
    for k_, v_, s_ in res:
        exact_arithmetic(chk, f"{prefix}.classifier.exact_arithmetic", s_)
        if k_ == "val" and is_sym(v_, "enum"):
            names = {str(c_): n_ for n_, c_ in enum_sort(P.cls("concurrency.models.CompletionReason"))[1].items()}
            _collect_xc(s_, {"what": "classifier"}, {kk: vv for kk, vv in g.items()}, v_.t, xc, enum_names=names)
    _run_xc(chk, xc)
    stops = real_stop_decision(chk, eng, res[0][2] if res else st, g, total)
    for (spc, stop) in stops:
      pre = list(spc) + [stop, z3.Not(g["cfg_none"])]
      for k, v, s in res:
          if k == "raise":
              chk.prove(f"{prefix}.classifier.total", s.pc, F, desc="_get_completion_reason does not raise")
              continue
          r = v.t
          regions = {"min_successful_without_tolerance": z3.And(z3.Not(g["ms_none"]), g["tc_none"], g["tp_none"], g["f"] > 0, g["started"] > 0)}

          def describe(model, g=g):
              return {n: str(model.eval(t, model_completion=True)) for n, t in g.items() if n != "cfg_none"}

          def replay(inputs):
              from pyvc.check import native
              r_ = native("batch_replay.py", inputs)
              return bool(r_.get("confirmed")), r_
          chk.prove(f"{prefix}.lemma.reason_consistent.all_completed", list(s.pc) + pre, z3.Implies(r == consts["ALL_COMPLETED"], g["started"] == 0),
                    desc="stop decision holds and reason is ALL_COMPLETED => no item is reported STARTED", regions=regions, describe=describe, replay=replay,
                    sample="stop(s,f) and reason(s,f,started)=ALL_COMPLETED => started == 0")
          chk.prove(f"{prefix}.lemma.reason_consistent.min_successful", list(s.pc) + pre, z3.Implies(r == consts["MIN_SUCCESSFUL_REACHED"], z3.And(z3.Not(g["ms_none"]), g["s"] >= g["ms"])),
                    desc="reason MIN_SUCCESSFUL_REACHED => a minimum is configured and reached")
          chk.prove(f"{prefix}.lemma.reason_consistent.tolerance", list(s.pc) + pre, z3.Implies(r == consts["FAILURE_TOLERANCE_EXCEEDED"], z3.And(g["f"] > 0, z3.Or(z3.And(g["tc_none"], g["tp_none"]), spec_tolerance_exceeded(total, g["tc_none"], g["tc"], g["tp_none"], g["tp"], g["f"])))),
                    desc="reason FAILURE_TOLERANCE_EXCEEDED => the failure count exceeds the tolerance the stop decision used")
          chk.prove(f"{prefix}.lemma.reason_consistent.unfinished_explained", list(s.pc) + pre, z3.Implies(g["started"] > 0, r != consts["ALL_COMPLETED"]), regions=regions, describe=describe, replay=replay,
                    desc="branches unfinished at decision time => the reason names the policy clause that decided (minimum reached or tolerance exceeded)")
    return eng


# ------------------------------------------------------------------------------------------------ should_execution_suspend
BS = "concurrency.models.BranchStatus"
SES = "concurrency.executor.ConcurrentExecutor.should_execution_suspend"
status_f = None


def branch_funcs(P):
    sort = enum_sort(P.cls(BS))[0]
    return z3.Function("branch_status", z3.IntSort(), sort), z3.Function("branch_until_none", z3.IntSort(), z3.BoolSort()), z3.Function("branch_until", z3.IntSort(), z3.RealSort())


def suspend_decision(chk, prefix="C07"):
    done = getattr(chk, "_listed", None)
    if done is None:
        done = chk._listed = set()
    if "suspend_decision" in done:
        return None
    done.add("suspend_decision")
    from pyvc.loops import ForInvariant
    eng = Engine(hooks=ExecHooks())
    P = eng.program
    st = St()
    chk.function(SES, "verified (loop invariant over the branches processed so far)")
    bs_cls = P.cls(BS)
    C = enum_sort(bs_cls)[1]
    stat, unone, until = branch_funcs(P)
    INF = z3.Real("INF")
    n = z3.Int("n_branches")
    st.assume(n >= 0)
    i0 = z3.Int("i!all")
    st.assume(z3.ForAll([i0], until(i0) < INF))  # A: wake-up times are finite
    ews = P.cls("concurrency.models.ExecutableWithState")

    def elem(s, i):
        return s.alloc(ews, {"_status": Sym("enum", stat(i), bs_cls), "_suspend_until": mk_opt(unone(i), Sym("real", until(i))), "executable": s.alloc("opaque:Executable", {})})
    lst = st.alloc("list", {"__kind__": "flist", "len": n, "elem": elem})
    self_ = st.alloc(P.cls("concurrency.executor.ConcurrentExecutor"), {"executables_with_state": lst})
    complete_executor(eng, st, self_)

    def active(i):
        return z3.Or(stat(i) == C["PENDING"], stat(i) == C["RUNNING"])

    def timed(i):
        return z3.And(stat(i) == C["SUSPENDED_WITH_TIMEOUT"], z3.Not(unone(i)), until(i) != 0)

    def inv(eng_, s, k):
        e = zreal(eng_.unopt(s, s.env["earliest_timestamp"]))
        ind = s.env["indefinite_suspend_task"]
        i, j = z3.Int(fresh_name("i")), z3.Int(fresh_name("j"))
        return z3.And(z3.ForAll([i], z3.Implies(z3.And(i >= 0, i < k), z3.Not(active(i)))),
                      z3.Or(e == INF, z3.Exists([j], z3.And(j >= 0, j < k, timed(j), e == until(j)))),
                      z3.ForAll([i], z3.Implies(z3.And(i >= 0, i < k, timed(i)), e <= until(i))),
                      z3.Not(is_none(ind)) == z3.Exists([j], z3.And(j >= 0, j < k, stat(j) == C["SUSPENDED"])))

    def havoc(eng_, s):
        s.env["earliest_timestamp"] = fresh("real", "earliest")
        s.env["indefinite_suspend_task"] = mk_opt(z3.Bool(fresh_name("indef.none")), s.alloc(ews, {"_status": enum_member(bs_cls, "SUSPENDED"), "_suspend_until": None, "executable": s.alloc("opaque:Executable", {})}))
        s.env.pop("exe_state", None)
    eng.loop_handlers[(SES, "for", 0)] = ForInvariant(chk, f"{prefix}.exec.suspend_decision.loop", inv, havoc, desc="no processed branch is pending/running; earliest is the minimum wake-up time of the processed timed branches; an indefinitely suspended branch was seen iff one was processed")
    res = eng.run(P.func(SES), [self_], st=st)
    chk.paths += len(res)
    i, j = z3.Int("i!post"), z3.Int("j!post")
    none_active = z3.ForAll([i], z3.Implies(z3.And(i >= 0, i < n), z3.Not(active(i))))
    any_timed = z3.Exists([j], z3.And(j >= 0, j < n, timed(j)))
    any_indef = z3.Exists([j], z3.And(j >= 0, j < n, stat(j) == C["SUSPENDED"]))
    for k, v, s in res:
        if k == "raise":
            chk.prove(f"{prefix}.exec.suspend_decision", s.pc, F, desc="should_execution_suspend does not raise")
            continue
        r = s.get(v)
        sus = zbool(r["should_suspend"]) if not isinstance(r["should_suspend"], bool) else z3.BoolVal(r["should_suspend"])
        exc = strip_opt(r["exception"])
        cls_name = getattr(getattr(exc, "cls", None), "name", None)
        goal = z3.And(sus == z3.And(none_active, z3.Or(any_timed, any_indef)))
        if cls_name == "TimedSuspendExecution":
            ts = zreal(s.get(exc)["scheduled_timestamp"])
            goal = z3.And(goal, sus, any_timed, z3.Exists([j], z3.And(j >= 0, j < n, timed(j), ts == until(j))), z3.ForAll([i], z3.Implies(z3.And(i >= 0, i < n, timed(i)), ts <= until(i))))
        elif cls_name == "SuspendExecution":
            goal = z3.And(goal, sus, z3.Not(any_timed), any_indef)
        else:
            goal = z3.And(goal, z3.Not(sus), z3.BoolVal(exc is None))
        chk.prove(f"{prefix}.exec.suspend_decision", s.pc, goal,
                  desc="suspend iff no branch is pending/running and some branch is suspended; timed with the minimum wake-up time if any timed branch has one, else indefinite",
                  sample="should_execution_suspend over an arbitrary number of branches")
    return eng


# ------------------------------------------------------------------------------------------------ _on_task_complete
OTC = "concurrency.executor.ConcurrentExecutor._on_task_complete"


def on_task_complete(chk, prefix, want):
    done = getattr(chk, "_listed", None)
    if done is None:
        done = chk._listed = set()
    if "suspend_decision" not in done and ("C07" in want):
        # _on_task_complete is verified against the CONTRACT of should_execution_suspend: discharge it in the same check
        suspend_decision(chk, prefix)
    eng = Engine(hooks=ExecHooks())
    P = eng.program
    st = St()
    chk.function(OTC, "verified (future, timer scheduler and completion event opaque; should_execution_suspend by contract)")
    for m in ("run", "suspend", "suspend_with_timeout", "complete", "fail"):
        chk.function(f"concurrency.models.ExecutableWithState.{m}", "verified (inlined)")
    bs_cls = P.cls(BS)
    C = enum_sort(bs_cls)[1]
    counters, g = counters_obj(eng, st)
    ews = P.cls("concurrency.models.ExecutableWithState")
    status0 = fresh("enum", "status0", bs_cls)
    exe = st.alloc(ews, {"_status": status0, "_suspend_until": eng.sym_of_type("float | None", "until0", st), "_result": None, "_is_result_set": False, "_error": None, "_future": None,
                         "executable": st.alloc(P.cls("concurrency.models.Executable"), {"index": fresh("int", "index"), "func": OpaqueFn("branch_func")})})
    ev = st.alloc("opaque:Event", {})
    self_ = st.alloc(P.cls("concurrency.executor.ConcurrentExecutor"), {"counters": counters, "_completion_event": ev, "_suspend_exception": None, "_fatal_exception": None, "executables_with_state": st.alloc("list", {"__kind__": "list", "items": (exe,)})})
    complete_executor(eng, st, self_)
    sr_cls = P.cls("concurrency.models.SuspendResult")
    st.ghost["executor"] = self_

    def ses_summary(eng_, s, args, kwargs):
        sus = fresh("bool", "decision.should_suspend")
        exc = eng_.new_symexc(s, "decision")
        r = s.alloc(sr_cls, {"should_suspend": sus, "exception": mk_opt(z3.Not(sus.t), exc)})
        s.emit("decision", result=r, should=sus.t, exc=exc)
        return [("val", r, s)]
    eng.summaries[SES] = ses_summary
    future = st.alloc("opaque:Future", {})
    sched = st.alloc("opaque:TimerScheduler", {})
    before = dict(st.get(counters))
    res = eng.run(P.func(OTC), [self_, exe, future, sched], st=st)
    chk.paths += len(res)
    for k, v, s in res:
        tr = s.trace
        raised = next((e.exc for e in tr if e.kind == "future_raised"), None)
        got_result = any(e.kind == "future_result" for e in tr) and raised is None
        cancelled = next((e.b for e in tr if e.kind == "future_cancelled"), F)
        sets = [e for e in tr if e.kind == "event_set"]
        e_now = s.get(exe)
        c_now = s.get(counters)
        ds, df = zint(c_now["success_count"]) - zint(before["success_count"]), zint(c_now["failure_count"]) - zint(before["failure_count"])
        status = e_now["_status"].t

        def isa(name):
            return eng.symexc_isa(raised, name if name in ("Exception",) else P.cls("exceptions." + name), s)
        if "C06" in want or "C07" in want:
            # totality: the done-callback must not raise, whatever the branch raised
            desc = "the done-callback returns normally for every class of exception stored in the future (otherwise the completion event is never set and execute() waits forever)"
            regions = {"base_exception_from_branch": z3.BoolVal(True)} if raised is not None else {}
            chk.prove(f"{prefix}.branch.done_callback_total", s.pc, k == "val", desc=desc, sample=f"_on_task_complete: {[e.kind for e in tr]}")
        if k != "val":
            continue
        if "C07" in want:
            if raised is None and not got_result:
                goal = z3.And(cancelled, status == C["SUSPENDED"], ds == 0, df == 0, z3.BoolVal(not sets))
                case = "cancelled future => branch SUSPENDED, counters untouched"
            elif got_result:
                goal = z3.And(status == C["COMPLETED"], ds == 1, df == 0, z3.BoolVal(e_now["_result"] is next(e for e in tr if e.kind == "future_result").d["result"]))
                case = "result => COMPLETED with that result, success count + 1"
            else:
                orphan, timed_, susp, exc_ = isa("OrphanedChildException"), isa("TimedSuspendExecution"), isa("SuspendExecution"), isa("Exception")
                sched_ev = [e for e in tr if e.kind == "schedule_resume"]
                goal = z3.And(
                    z3.Implies(orphan, z3.And(status == status0.t, ds == 0, df == 0, z3.BoolVal(not sets and not sched_ev))),
                    z3.Implies(z3.And(z3.Not(orphan), timed_), z3.And(status == C["SUSPENDED_WITH_TIMEOUT"], ds == 0, df == 0, z3.BoolVal(len(sched_ev) == 1 and sched_ev[0].exe == exe))),
                    z3.Implies(z3.And(z3.Not(orphan), z3.Not(timed_), susp), z3.And(status == C["SUSPENDED"], ds == 0, df == 0)),
                    z3.Implies(z3.And(z3.Not(orphan), z3.Not(susp), exc_), z3.And(status == C["FAILED"], df == 1, ds == 0, z3.BoolVal(e_now["_error"] == raised))))
                if sched_ev:
                    goal = z3.And(goal, ops.values_equal(s, sched_ev[0].at, s.get(raised).get("scheduled_timestamp")), ops.values_equal(s, e_now["_suspend_until"], s.get(raised).get("scheduled_timestamp")))
                case = "orphan => nothing changes; TimedSuspend => SUSPENDED_WITH_TIMEOUT + resume scheduled at its timestamp; Suspend => SUSPENDED; Exception => FAILED, failure count + 1"
            chk.prove(f"{prefix}.exec.on_done_transitions", s.pc, goal, desc="branch status transition per outcome class: " + case)
            # completion / suspension decision
            dec = [e for e in tr if e.kind == "decision"]
            stop = spec_stop(g["total"], g["minimum"], g["tc_none"], g["tc"], g["tp_none"], g["tp"], zint(c_now["success_count"]), zint(c_now["failure_count"]))
            early_return = (raised is None and not got_result)
            if not early_return:
                orphan = isa("OrphanedChildException") if raised is not None else F
                sus_exc = s.get(self_)["_suspend_exception"]
                if dec:
                    goal2 = z3.And(z3.Not(stop), z3.If(dec[0].should, z3.And(z3.BoolVal(len(sets) == 1), z3.BoolVal(strip_opt(sus_exc) == dec[0].exc), z3.Not(is_none(sus_exc))), z3.BoolVal(not sets)))
                else:
                    fatal_case = F
                    if raised is not None:
                        fatal = z3.And(z3.Not(isa("Exception")), z3.Not(isa("SuspendExecution")), z3.Not(orphan))
                        fatal_case = z3.And(fatal, z3.BoolVal(len(sets) == 1 and s.get(self_).get("_fatal_exception") == raised))
                    goal2 = z3.Or(z3.And(orphan, z3.BoolVal(not sets)), z3.And(stop, z3.BoolVal(len(sets) == 1 and sets[0].ev == ev), is_none(sus_exc)), fatal_case)
                if sets and sets[0].at_set is not None:
                    # what execute() reads after its wait() (no lock): both fields already have their final value when the event is set
                    fin = s.get(self_)
                    goal2 = z3.And(goal2, z3.BoolVal(all(sets[0].at_set[f] is fin.get(f) or sets[0].at_set[f] == fin.get(f) for f in ("_suspend_exception", "_fatal_exception"))))
                chk.prove(f"{prefix}.exec.on_done_decides", s.pc, goal2,
                          desc="the completion event is set exactly when the policy is decided (should_complete), or when the suspend decision says suspend (the suspend exception is stored first), or when the branch ended with a non-Exception failure such as BackgroundThreadError (stored for execute() to re-raise)")
        if "C10" in want and raised is not None:
            orphan = isa("OrphanedChildException")
            if eng.feasible(s, orphan):
                chk.prove(f"{prefix}.exec.orphan_ignored", list(s.pc) + [orphan], z3.And(status == status0.t, ds == 0, df == 0, z3.BoolVal(not sets)),
                          desc="an orphaned branch that hits OrphanedChildException changes no status, no counter and signals nothing")
    return eng


# ------------------------------------------------------------------------------------------------ _create_result / replay / _execute_item_in_child_context / execute
CE = "concurrency.executor.ConcurrentExecutor"


def sym_ews(eng, st, name, idx):
    P = eng.program
    bs_cls = P.cls(BS)
    C = enum_sort(bs_cls)[1]
    status = fresh("enum", name + ".status", bs_cls)
    res = fresh("any", name + ".result")
    err = eng.new_symexc(st, name + "_error")
    is_set = fresh("bool", name + ".is_result_set")
    # class invariant of ExecutableWithState (established by complete()/fail(), C07.exec.on_done_transitions): COMPLETED => result set; FAILED => error set
    st.assume(z3.Implies(status.t == C["COMPLETED"], is_set.t))
    err_v = mk_opt(z3.Bool(fresh_name(name + ".error.none")), err)
    st.assume(z3.Implies(status.t == C["FAILED"], z3.Not(is_none(err_v))))
    exe = st.alloc(P.cls("concurrency.models.Executable"), {"index": idx, "func": OpaqueFn("branch_func")})
    return st.alloc(P.cls("concurrency.models.ExecutableWithState"), {"executable": exe, "_status": status, "_result": res, "_is_result_set": is_set, "_error": err_v, "_future": None, "_suspend_until": None})


def create_result_items(chk, prefix="C09"):
    eng = Engine(hooks=ExecHooks())
    P = eng.program
    st = St()
    chk.function(CE + "._create_result", "verified (generic pair of branches: per-element loop body without loop-carried state other than the append)")
    bs_cls, bis = P.cls(BS), P.cls("concurrency.models.BatchItemStatus")
    C, I = enum_sort(bs_cls)[1], enum_sort(bis)[1]
    idx = [fresh("int", "index0"), fresh("int", "index1")]
    els = [sym_ews(eng, st, f"b{i}", idx[i]) for i in range(2)]
    cfg = st.alloc("opaque:CompletionConfig", {})
    self_ = st.alloc(P.cls(CE), {"executables_with_state": st.alloc("list", {"__kind__": "list", "items": tuple(els)}), "completion_config": cfg})
    complete_executor(eng, st, self_)

    def from_items(eng_, s, args, kwargs):
        s.emit("from_items", items=args[1] if len(args) > 1 else kwargs.get("items"), cfg=args[2] if len(args) > 2 else kwargs.get("completion_config"))
        return [("val", s.alloc("opaque:BatchResult", {}), s)]
    eng.summaries["concurrency.models.BatchResult.from_items"] = from_items
    res = eng.run(P.func(CE + "._create_result"), [self_], st=st)
    chk.paths += len(res)
    for k, v, s in res:
        fi = [e for e in s.trace if e.kind == "from_items"]
        ok = k == "val" and len(fi) == 1 and isinstance(fi[0].items, Ref) and s.get(fi[0].items).get("__kind__") == "list" and len(s.get(fi[0].items)["items"]) == 2 and fi[0].cfg == cfg
        goal = z3.BoolVal(ok)
        if ok:
            for i, it in enumerate(s.get(fi[0].items)["items"]):
                b, e = s.get(it), s.get(els[i])
                stt = e["_status"].t
                succ = z3.And(b["status"].t == I["SUCCEEDED"], ops.values_equal(s, b["result"], e["_result"]), is_none(b["error"]))
                err_ref = strip_opt(b["error"])
                from .hobl import error_matches
                exc_ = strip_opt(e["_error"])
                is_cre = eng.symexc_isa(exc_, P.cls("exceptions.CallableRuntimeError"), s)
                xs = s.get(exc_)
                if isinstance(err_ref, Ref) and all(f in xs for f in ("message", "error_type", "data", "stack_trace")):
                    eo = s.get(err_ref)
                    cre_fields = z3.And(ops.values_equal(s, eo["message"], xs["message"]), ops.values_equal(s, eo["type"], xs["error_type"]), ops.values_equal(s, eo["data"], xs["data"]), ops.values_equal(s, eo["stack_trace"], xs["stack_trace"]))
                else:
                    cre_fields = F
                err_ok = z3.If(is_cre, cre_fields, error_matches(s, err_ref, exc_, eng)) if isinstance(err_ref, Ref) else F
                fail = z3.And(b["status"].t == I["FAILED"], is_none(b["result"]), err_ok)
                started = z3.And(b["status"].t == I["STARTED"], is_none(b["result"]), is_none(b["error"]))
                goal = z3.And(goal, ops.values_equal(s, b["index"], idx[i]), z3.If(stt == C["COMPLETED"], succ, z3.If(stt == C["FAILED"], fail, started)))
        chk.prove(f"{prefix}.result.items_faithful", s.pc, goal,
                  desc="one item per branch, in branch order, with the branch's index; COMPLETED => SUCCEEDED with that branch's result; FAILED => FAILED with the branch's error (the recorded error carried by a CallableRuntimeError, from_exception otherwise); every other status => STARTED without result/error; classified with the executor's completion config",
                  sample="_create_result over two arbitrary branches")
    return eng


def replay_items(chk, prefix="C16"):
    eng = Engine(hooks=ExecHooks())
    P = eng.program
    st = St()
    chk.function(CE + ".replay", "verified (generic pair of branches)")
    bis = P.cls("concurrency.models.BatchItemStatus")
    I = enum_sort(bis)[1]
    idf = z3.Function("logical_step_id", z3.IntSort(), z3.StringSort())
    idx = [fresh("int", "index0"), fresh("int", "index1")]
    exes = [st.alloc(P.cls("concurrency.models.Executable"), {"index": idx[i], "func": OpaqueFn("branch_func")}) for i in range(2)]
    cfg = st.alloc("opaque:CompletionConfig", {})
    self_ = st.alloc(P.cls(CE), {"executables": st.alloc("list", {"__kind__": "list", "items": tuple(exes)}), "completion_config": cfg})
    complete_executor(eng, st, self_)
    ctx = st.alloc("opaque:DurableContext", {})
    state = st.alloc("opaque:ExecutionState", {})
    recs = {}

    class H(ExecHooks):
        def opaque_call(self, eng_, s, fn, args, kwargs):
            if fn.name == "DurableContext._create_step_id_for_logical_step":
                return [("val", Sym("str", idf(zint(args[0]))), s)]
            if fn.name == "ExecutionState.track_replay":
                s.emit("track", id=kwargs.get("operation_id", args[0] if args else None))
                return [("val", None, s)]
            if fn.name == "ExecutionState.get_checkpoint_result":
                n = len([e for e in s.trace if e.kind == "read"])
                op = eng_.sym_of_type("Operation", f"rec{n}", s, P.modules["lambda_service"])
                rec = mk_opt(z3.Bool(fresh_name(f"rec{n}.absent")), op)
                tcls = P.cls("lambda_service.OperationType")
                s.assume(s.get(op)["operation_type"].t == enum_sort(tcls)[1]["CONTEXT"])  # U: a branch is recorded as a CONTEXT operation
                s.emit("read", id=args[0], rec=rec)
                cr = P.cls("state.CheckpointedResult")
                out = []
                for absent, s2 in eng_.branch(s, is_none(rec)):
                    out.extend(eng_.call_func(cr.find_method("create_not_found" if absent else "create_from_operation"), [ClassRef(cr)] + ([] if absent else [op]), {}, s2))
                return out
            return ExecHooks.opaque_call(self, eng_, s, fn, args, kwargs)
    eng.hooks = H()

    def child_exec(eng_, s, args, kwargs):
        s.emit("child_exec", ctx=args[1], exe=args[2])
        s2 = s.fork()
        exc = eng_.new_symexc(s2, "child")
        r = fresh("any", "child_result")
        s.trace[-1].d["result"] = r
        return [("val", r, s), ("raise", exc, s2)]

    def from_items(eng_, s, args, kwargs):
        s.emit("from_items", items=args[1] if len(args) > 1 else kwargs.get("items"), cfg=args[2] if len(args) > 2 else kwargs.get("completion_config"))
        return [("val", s.alloc("opaque:BatchResult", {}), s)]
    eng.summaries[CE + "._execute_item_in_child_context"] = child_exec
    eng.summaries["concurrency.models.BatchResult.from_items"] = from_items
    res = eng.run(P.func(CE + ".replay"), [self_, state, ctx], st=st)
    chk.paths += len(res)
    from .handlers import status_in
    from .hobl import details_field
    n_ok = 0
    for k, v, s in res:
        reads = [e for e in s.trace if e.kind == "read"]
        childs = [e for e in s.trace if e.kind == "child_exec"]
        fi = [e for e in s.trace if e.kind == "from_items"]
        if k == "raise":
            # only the re-traversal of a SUCCEEDED branch may raise (its body's own exception)
            chk.prove(f"{prefix}.exec.replay_items.raise_only_from_child", s.pc, isinstance(v, Ref) and v.cls == "symexc" and bool(childs), desc="replay raises only what the re-traversal of a SUCCEEDED branch raised")
            continue
        n_ok += 1
        ok = len(reads) == 2 and len(fi) == 1 and isinstance(fi[0].items, Ref) and len(s.get(fi[0].items)["items"]) == 2
        goal = z3.BoolVal(ok)
        if ok:
            goal = z3.And(goal, z3.BoolVal(fi[0].cfg == cfg))
            for i, it in enumerate(s.get(fi[0].items)["items"]):
                b = s.get(it)
                rec = reads[i].rec
                succ_rec = status_in(eng, s, rec, ["SUCCEEDED"])
                fail_rec = status_in(eng, s, rec, ["FAILED"])
                mine = [c for c in childs if c.exe == exes[i]]
                goal = z3.And(goal, ops.values_equal(s, reads[i].id, Sym("str", idf(idx[i].t))), ops.values_equal(s, b["index"], idx[i]))
                en, err = details_field(s, rec, "context_details", "error")
                case_succ = z3.And(b["status"].t == I["SUCCEEDED"], z3.BoolVal(len(mine) == 1), ops.values_equal(s, b["result"], mine[0].d["result"]) if len(mine) == 1 else F, is_none(b["error"]))
                case_fail = z3.And(b["status"].t == I["FAILED"], z3.BoolVal(not mine), is_none(b["result"]), z3.If(en, is_none(b["error"]), z3.And(z3.Not(is_none(b["error"])), z3.BoolVal(strip_opt(b["error"]) == err)) if err is not None else F))
                case_started = z3.And(b["status"].t == I["STARTED"], z3.BoolVal(not mine), is_none(b["result"]), is_none(b["error"]))
                goal = z3.And(goal, z3.If(succ_rec, case_succ, z3.If(fail_rec, case_fail, case_started)))
            ci = len(childs)
            if prefix == "C17":
                tracks = [e for e in s.trace if e.kind == "track"]
                for i in range(2):
                    fail_rec = status_in(eng, s, reads[i].rec, ["FAILED"])
                    mine_t = [t for t in tracks if z3.is_true(simp(ops.values_equal(s, t.id, Sym("str", idf(idx[i].t)))))]
                    chk.prove("C17.exec.replay_tracks_failed_branch", list(s.pc) + [fail_rec], z3.BoolVal(len(mine_t) == 1),
                              desc="a FAILED branch is not run again on replay, so replay() itself tells the replay tracker that the branch has been passed (SUCCEEDED branches do it in their child handler path)")
            goal = z3.And(goal, z3.BoolVal(ci == len(childs)))
        chk.prove(f"{prefix}.exec.replay_items", s.pc, goal,
                  desc="replay reads each branch's record under the branch's logical id; SUCCEEDED => item from re-running the branch through its child handler; FAILED => the recorded error; otherwise STARTED; no other branch body is entered; classified with the executor's completion config",
                  sample="ConcurrentExecutor.replay over two arbitrary branches")
    if not n_ok:
        # cover obligation: the contract above is vacuous if replay() never returns (every explored path raised)
        chk.prove(f"{prefix}.exec.replay_items", [], F, desc="replay() returns a BatchResult on some path (reachability of the contract above: every explored path raised)")
    return eng


class ExecuteHooks(ExecHooks):
    def ext_call(self, eng, st, name, args, kwargs):
        if name in ("concurrent.futures.ThreadPoolExecutor", "ThreadPoolExecutor"):
            st.emit("pool_new", max_workers=kwargs.get("max_workers", args[0] if args else None))
            return [("val", st.alloc("opaque:ThreadPool", {}), st)]
        return ExecHooks.ext_call(self, eng, st, name, args, kwargs)

    def cm_enter(self, eng, st, cm):
        if isinstance(cm, Ref) and cm.cls == "opaque:TimerScheduler":
            return [("val", cm, st)]
        return ExecHooks.cm_enter(self, eng, st, cm)

    def cm_exit(self, eng, st, cm, exc):
        if isinstance(cm, Ref) and cm.cls == "opaque:TimerScheduler":
            st.emit("scheduler_shutdown")
            return [("val", None, st)]
        return ExecHooks.cm_exit(self, eng, st, cm, exc)

    def opaque_call(self, eng, st, fn, args, kwargs):
        n = fn.name
        if n == "ThreadPool.submit":
            st.emit("submit", fn=args[0], args=tuple(args[1:]))
            return [("val", st.alloc("opaque:Future", {}), st)]
        if n == "ThreadPool.shutdown":
            st.emit("shutdown", kwargs=dict(kwargs))
            return [("val", None, st)]
        if n in ("Future.add_done_callback", "Future.cancel"):
            st.emit(n.split(".")[1], fut=fn.info)
            return [("val", None, st)]
        if n == "Event.wait":
            st.emit("event_wait")
            # another thread (a done-callback / the timer) may have stored a suspend or fatal exception before setting the event
            me = st.ghost["self"]
            s2, s3 = st.fork(), st.fork()
            s2.setfield(me, "_suspend_exception", s2.alloc(eng.program.cls("exceptions.SuspendExecution"), {"args": ("stored",)}))
            s3.setfield(me, "_fatal_exception", s3.alloc(eng.program.cls("exceptions.BackgroundThreadError"), {"args": ("bg",), "source_exception": eng.new_symexc(s3, "src")}))
            return [("val", True, st), ("val", True, s2), ("val", True, s3)]
        if n == "Event.clear":
            return [("val", None, st)]
        return ExecHooks.opaque_call(self, eng, st, fn, args, kwargs)


def execute_structure(chk, prefix="C09"):
    P = None
    for n in (0, 2):
        eng = Engine(hooks=ExecuteHooks())
        P = eng.program
        st = St()
        chk.function(CE + ".execute", "verified for 0 and 2 branches (structure: pool size, one submission per branch in order, wait, shutdown flags); the per-branch part is the generic pair")
        exes = [st.alloc(P.cls("concurrency.models.Executable"), {"index": i, "func": OpaqueFn("branch_func")}) for i in range(n)]
        mc = eng.sym_of_type("int | None", "max_concurrency", st)
        st.assume(z3.Or(is_none(mc), zint(strip_opt(mc)) >= 1))  # config precondition: a concurrency limit, when given, is positive
        ev = st.alloc("opaque:Event", {})
        self_ = st.alloc(P.cls(CE), {"executables": st.alloc("list", {"__kind__": "list", "items": tuple(exes)}), "max_concurrency": mc, "_completion_event": ev, "_suspend_exception": None, "_fatal_exception": None,
                                     "executables_with_state": st.alloc("list", {"__kind__": "list", "items": ()}), "completion_config": st.alloc("opaque:CompletionConfig", {})})
        complete_executor(eng, st, self_)
        st.ghost["self"] = self_
        ts_cls = P.cls("concurrency.executor.TimerScheduler")
        orig = eng.construct

        def construct(cls, args, kwargs, s, ts_cls=ts_cls, orig=orig):
            if cls is ts_cls:
                return [("val", s.alloc("opaque:TimerScheduler", {"resubmit": args[0]}), s)]
            return orig(cls, args, kwargs, s)
        eng.construct = construct

        def create_result(eng_, s, args, kwargs):
            s.emit("create_result", states=s.get(args[0])["executables_with_state"])
            return [("val", s.alloc("opaque:BatchResult", {}), s)]
        eng.summaries[CE + "._create_result"] = create_result
        state, ctx = st.alloc("opaque:ExecutionState", {}), st.alloc("opaque:DurableContext", {})
        res = eng.run(P.func(CE + ".execute"), [self_, state, ctx], st=st)
        chk.paths += len(res)
        for k, v, s in res:
            kinds = [e.kind for e in s.trace]
            pools = [e for e in s.trace if e.kind == "pool_new"]
            if n == 0:
                chk.prove(f"{prefix}.exec.nonempty_pool", s.pc, k == "val" and not pools and "event_wait" not in kinds and "create_result" in kinds,
                          desc="zero inputs: the call returns an (empty) batch result without creating a pool of zero workers and without waiting on an event nobody will set", sample=f"execute with 0 branches: {kinds}")
                continue
            mw = pools[0].max_workers if pools else None
            exp = z3.If(z3.Or(is_none(mc), zint(strip_opt(mc)) == 0), n, zint(strip_opt(mc)))
            if isinstance(mw, Opt):
                # max_workers=None makes ThreadPoolExecutor pick min(32, cpu_count + 4) (S): an unknown machine-dependent size, not "unbounded"
                default_size = z3.Int("threadpool_default_max_workers")
                mw = Sym("int", z3.If(mw.none, default_size, zint(mw.val)))
            chk.prove(f"{prefix}.exec.max_workers_arg", s.pc, z3.And(z3.BoolVal(len(pools) == 1), zint(mw) == exp, zint(mw) >= 1) if mw is not None else F,
                      desc="the thread pool is created once with max_workers = max_concurrency or the number of branches (>= 1): never more branches at once than the limit (S: ThreadPoolExecutor)")
            subs = [e for e in s.trace if e.kind == "submit"]
            order_ok = len(subs) == n and all(e.args[1] == exes[i] and e.args[0] == ctx for i, e in enumerate(subs))
            chk.prove(f"{prefix}.exec.one_submission_per_branch", s.pc, order_ok, desc="each branch is submitted exactly once, in input order, with the executor context and its executable")
            sh = [e for e in s.trace if e.kind == "shutdown"]
            # wait=False is what the statement of C09 needs ("without waiting for branches that are still running").  cancel_futures=True is no longer
            # required: since fix 5c1c00f a queued branch that starts after the completion is stopped by raise_if_orphaned before any user code
            # runs (C10.child.checked_before_user), so dropping the flag breaks no property (seeded/retired/C10-m2)
            flags_ok = len(sh) == 1 and sh[0].kwargs.get("wait") is False
            wait_i = kinds.index("event_wait") if "event_wait" in kinds else -1
            chk.prove(f"{prefix}.exec.no_join", s.pc, flags_ok and wait_i >= 0 and kinds.index("shutdown") > wait_i,
                      desc="execute waits for the completion event only, then leaves through shutdown(wait=False): it does not wait for running branches", sample=f"execute with 2 branches: {kinds}")
            if k == "val":
                cr = [e for e in s.trace if e.kind == "create_result"]
                chk.prove(f"{prefix}.exec.result_from_states", s.pc, len(cr) == 1 and kinds.index("create_result") > wait_i, desc="the result is built from the branch states as they are after the completion event")
            else:
                stored = [s.get(self_).get("_suspend_exception"), s.get(self_).get("_fatal_exception")]
                chk.prove(f"{prefix}.exec.raise_after_event", s.pc, isinstance(v, Ref) and v in [x for x in stored if isinstance(x, Ref)] and wait_i >= 0,
                          desc="execute raises only a suspend / fatal exception stored by a callback, and only after the completion event")
    return None


def _replay_branch_summary(inputs):
    from pyvc.check import native
    r_ = native("branch_summary_replay.py", {})
    return bool(r_.get("confirmed")), r_


def item_in_child_context(chk, prefix="C08"):
    eng = Engine(hooks=ExecHooks())
    P = eng.program
    st = St()
    q = CE + "._execute_item_in_child_context"
    chk.function(q, "verified")
    idf = z3.Function("logical_step_id", z3.IntSort(), z3.StringSort())
    index = fresh("int", "index")
    exe = st.alloc(P.cls("concurrency.models.Executable"), {"index": index, "func": OpaqueFn("branch_func")})
    parent = eng.sym_of_type("str | None", "ctx_parent_id", st)
    state = st.alloc("opaque:ExecutionState", {})
    ctx = st.alloc("opaque:DurableContext", {"_parent_id": parent, "state": state})
    st_cls = P.cls("lambda_service.OperationSubType")
    self_ = st.alloc(P.cls(CE), {"name_prefix": fresh("str", "name_prefix"), "item_serdes": eng.sym_of_type("str | None", "item_serdes", st), "serdes": eng.sym_of_type("str | None", "serdes", st),
                                 "sub_type_iteration": fresh("enum", "sub_type_iteration", st_cls), "summary_generator": OpaqueFn("batch_summary_generator")})
    complete_executor(eng, st, self_)

    class H(ExecHooks):
        def opaque_call(self, eng_, s, fn, args, kwargs):
            if fn.name == "DurableContext._create_step_id_for_logical_step":
                s.emit("id_for", arg=args[0])
                return [("val", Sym("str", idf(zint(args[0]))), s)]
            if fn.name == "DurableContext.create_child_context":
                c = s.alloc("opaque:DurableContext", {"_parent_id": args[0] if args else kwargs.get("parent_id"), "state": state, "__child__": True})
                s.emit("child_ctx", ctx=c)
                return [("val", c, s)]
            if fn.name == "ExecutionState.track_replay":
                s.emit("track", id=kwargs.get("operation_id", args[0] if args else None))
                return [("val", None, s)]
            return ExecHooks.opaque_call(self, eng_, s, fn, args, kwargs)
    eng.hooks = H()

    def child_handler(eng_, s, args, kwargs):
        s.emit("child_handler", func=args[0], state=args[1], ident=kwargs.get("operation_identifier", args[2] if len(args) > 2 else None), config=kwargs.get("config"))
        out = []
        s_short = s.fork()
        s_short.emit("child_short_circuit")
        out.append(("val", fresh("any", "recorded_branch_result"), s_short))  # contract of child_handler (C01): a SUCCEEDED record is returned WITHOUT running the body
        for k, v, s2 in eng_.call_value(args[0], [], {}, s):  # ... otherwise the handler runs the body
            out.append((k, v, s2))
        return out

    def execute_item(eng_, s, args, kwargs):
        s.emit("execute_item", ctx=args[1], exe=args[2])
        return [("val", fresh("any", "item_result"), s)]
    eng.summaries["operation.child.child_handler"] = child_handler
    eng.summaries[CE + ".execute_item"] = execute_item
    res = eng.run(P.func(q), [self_, ctx, exe], st=st)
    chk.paths += len(res)
    for k, v, s in res:
        ch = [e for e in s.trace if e.kind == "child_handler"]
        cc = [e for e in s.trace if e.kind == "child_ctx"]
        ei = [e for e in s.trace if e.kind == "execute_item"]
        ids = [e for e in s.trace if e.kind == "id_for"]
        tr = [e for e in s.trace if e.kind == "track"]
        short = any(e.kind == "child_short_circuit" for e in s.trace)
        tracked_after = len(tr) == 1 and len(ch) == 1 and s.trace.index(tr[0]) > s.trace.index(ch[0]) and (not ei or s.trace.index(tr[0]) > s.trace.index(ei[0]))
        ok = k == "val" and len(ch) == 1 and len(cc) == 1 and len(ei) == (0 if short else 1) and len(ids) == 1 and tracked_after and isinstance(ch[0].ident, Ref)
        goal = z3.BoolVal(ok)
        if ok:
            if short:
                ei = [type("E", (), {"ctx": cc[0].ctx, "exe": exe})()]
            ident = s.get(ch[0].ident)
            the_id = Sym("str", idf(index.t))
            name = ident["name"]
            goal = z3.And(goal, ops.values_equal(s, ids[0].arg, index), ops.values_equal(s, ident["operation_id"], the_id), ops.values_equal(s, ident["parent_id"], parent),
                          ops.values_equal(s, s.get(cc[0].ctx)["_parent_id"], the_id), z3.BoolVal(ei[0].ctx == cc[0].ctx and ei[0].exe == exe and ch[0].state == state),
                          ops.values_equal(s, tr[0].id, the_id),
                          ops.values_equal(s, name, Sym("str", z3.Concat(ops.zstr(s.get(self_)["name_prefix"]), ops.int_to_str(index.t)))))
            cfg = s.get(ch[0].config)
            goal = z3.And(goal, ops.values_equal(s, cfg["sub_type"], s.get(self_)["sub_type_iteration"]))
            # C16: a branch is a child context of its own - the generator that summarises the BatchResult of the WHOLE map / parallel must not be
            # applied to one branch's result (an oversized branch result would then fail the branch instead of being summarised and rebuilt)
            sg = cfg.get("summary_generator")
            branch_summary_ok = not (isinstance(sg, OpaqueFn) and sg.name == "batch_summary_generator")
            chk.prove(f"{prefix}.branch.no_batch_summary_on_branch", s.pc, z3.BoolVal(branch_summary_ok),
                      desc="the per-branch child configuration does not carry the batch-level summary generator (typed for the BatchResult of the whole map / parallel): an oversized branch result is recorded as a summary and rebuilt on replay, not failed",
                      describe=lambda m: {"scenario": "map / parallel with the default configuration and one branch returning 300 KB"}, replay=_replay_branch_summary)
        chk.prove(f"{prefix}.branch.index_ids", s.pc, goal,
                  desc="branch i: id = id-for-logical-step(i) of the executor context (no counter involved), parent link = that context's parent id, a FRESH child context with parent id = the branch id runs the item, name = prefix + i, sub type = the iteration sub type; the replay tracker is told the branch id AFTER the branch's handler returned - also when the handler returned a recorded result without running the branch body",
                  sample="_execute_item_in_child_context for an arbitrary branch index")
    return eng


def resubmitter_total(chk, prefix="C06"):
    """the timer thread's resubmission callback (nested in execute): a failing empty checkpoint must not kill the timer thread silently"""
    eng = Engine(hooks=ExecuteHooks())
    P = eng.program
    st = St()
    outer = P.func(CE + ".execute")
    resub = P.nested_func(outer, "resubmitter")
    chk.function(CE + ".execute.<locals>.resubmitter", "verified")
    ev = st.alloc("opaque:Event", {})
    self_ = st.alloc(P.cls(CE), {"_completion_event": ev, "_suspend_exception": None, "_fatal_exception": None})
    complete_executor(eng, st, self_)
    state = st.alloc("opaque:ExecutionState", {})

    class H(ExecuteHooks):
        def opaque_call(self, eng_, s, fn, args, kwargs):
            if fn.name == "ExecutionState.create_checkpoint":
                s.emit("cp")
                s2 = s.fork()
                exc = s2.alloc(P.cls("exceptions.BackgroundThreadError"), {"args": ("bg",), "source_exception": eng_.new_symexc(s2, "src")})
                s2.emit("cp_failed", exc=exc)
                return [("val", None, s), ("raise", exc, s2)]
            if fn.name == "submit_task":
                s.emit("resubmitted", exe=args[0])
                return [("val", None, s)]
            return ExecuteHooks.opaque_call(self, eng_, s, fn, args, kwargs)
    eng.hooks = H()
    st.ghost["self"] = self_
    exe = st.alloc("opaque:ExecutableWithState", {})
    closure = {"self": self_, "execution_state": state, "submit_task": OpaqueFn("submit_task"), "__module__": outer.module, "__funcinfo__": outer}
    for k, v, s in eng.call_func(resub, [exe], {}, st, closure=closure):
        chk.paths += 1
        failed = [e for e in s.trace if e.kind == "cp_failed"]
        sets = [e for e in s.trace if e.kind == "event_set"]
        resubmitted = [e for e in s.trace if e.kind == "resubmitted"]
        if failed:
            goal = k == "val" and len(sets) == 1 and s.get(self_).get("_fatal_exception") == failed[0].exc and not resubmitted
            desc = "a checkpoint failure during a timer-driven resubmission is recorded and wakes execute() (which re-raises it); the branch is not resubmitted"
        else:
            goal = k == "val" and len(resubmitted) == 1 and resubmitted[0].exe == exe and not sets
            desc = "otherwise the branch is resubmitted after the refreshing checkpoint"
        chk.prove(f"{prefix}.timer.resubmit_total", s.pc, goal, desc=desc)
    return eng


def batch_replay_consistency(chk, prefix="C02"):
    """C02.batch.replay_children: the item the first run reports for a FAILED branch vs the item replay() rebuilds from the branch's record.
    First run: _create_result -> ErrorObject.from_exception(branch exception); the branch exception is what child_handler raised for the
    branch: CallableRuntimeError(from_exception(e)) after recording FAIL(error = from_exception(e)).  Replay: item.error = recorded error."""
    eng = Engine(hooks=ExecHooks())
    P = eng.program
    chk.function(CE + "._create_result", "verified (FAILED branch whose error is the CallableRuntimeError raised by its child handler)")
    st = St()
    bs_cls = P.cls(BS)
    # the branch's recorded error object (from_exception(e) of the original exception)
    rec_err = eng.sym_of_type("ErrorObject", "recorded_error", st, P.modules["lambda_service"])
    r = st.get(rec_err)
    st.assume(z3.And(z3.Not(is_none(r["message"])), z3.Not(is_none(r["type"])), is_none(r["data"]), is_none(r["stack_trace"])))  # shape of from_exception
    # child handler raises rec_err.to_callable_runtime_error()  (C03.child.sync_before_outcome.error / C02.child.error)
    made = eng.call_func(P.cls("lambda_service.ErrorObject").find_method("to_callable_runtime_error"), [rec_err], {}, st)
    cre, st1 = made[0][1], made[0][2]
    exe = st1.alloc(P.cls("concurrency.models.Executable"), {"index": fresh("int", "index"), "func": OpaqueFn("branch_func")})
    ews = st1.alloc(P.cls("concurrency.models.ExecutableWithState"), {"executable": exe, "_status": enum_member(bs_cls, "FAILED"), "_result": None, "_is_result_set": False, "_error": cre, "_future": None, "_suspend_until": None})
    self_ = st1.alloc(P.cls(CE), {"executables_with_state": st1.alloc("list", {"__kind__": "list", "items": (ews,)}), "completion_config": st1.alloc("opaque:CompletionConfig", {})})
    complete_executor(eng, st1, self_)

    def from_items(eng_, s, args, kwargs):
        s.emit("from_items", items=args[1])
        return [("val", s.alloc("opaque:BatchResult", {}), s)]
    eng.summaries["concurrency.models.BatchResult.from_items"] = from_items
    for k, v, s in eng.run(P.func(CE + "._create_result"), [self_], st=st1):
        chk.paths += 1
        fi = [e for e in s.trace if e.kind == "from_items"]
        ok = k == "val" and len(fi) == 1 and len(s.get(fi[0].items)["items"]) == 1
        goal = z3.BoolVal(ok)
        if ok:
            item = s.get(s.get(fi[0].items)["items"][0])
            e1 = s.get(strip_opt(item["error"]))
            goal = z3.And(goal, *[ops.values_equal(s, e1[f], r[f]) for f in ("message", "type", "data", "stack_trace")])
        chk.prove(f"{prefix}.batch.replay_children", s.pc, goal,
                  desc="a FAILED item of the first run carries the same error object (message, type, data, stack trace) that replay() later takes from the branch's record",
                  sample="_create_result item error vs recorded branch error")
    return eng


def timer_loop(chk, prefix="C07"):
    """TimerScheduler._timer_loop, one iteration with one due branch: the branch is marked PENDING (under the scheduler lock) BEFORE the
    resubmission callback - whose first action is a blocking checkpoint refresh - runs; otherwise the branch still looks parked while it is
    being resumed and the executor could decide to suspend the invocation in that window"""
    class H(ExecHooks):
        def ext_call(self, eng, st, name, args, kwargs):
            if name == "heapq.heappop":
                lst = args[0]
                items = st.get(lst)["items"]
                st.put(lst, {"__kind__": "list", "items": items[1:]})
                return [("val", items[0], st)]
            return ExecHooks.ext_call(self, eng, st, name, args, kwargs)

        def opaque_call(self, eng, st, fn, args, kwargs):
            if fn.name == "Event.is_set":
                n = st.ghost.get("polls", 0)
                st.ghost["polls"] = n + 1
                return [("val", n >= 1, st)]  # one iteration, then shutdown
            if fn.name == "Event.wait":
                return [("val", False, st)]
            if fn.name == "resubmit_callback":
                exe = args[0]
                st.emit("resubmit", status=st.get(exe)["_status"], exe=exe)
                return [("val", None, st)]
            return ExecHooks.opaque_call(self, eng, st, fn, args, kwargs)
    eng = Engine(hooks=H())
    eng.unroll_bound, eng.allow_cut = 3, True
    P = eng.program
    st = St()
    q = "concurrency.executor.TimerScheduler._timer_loop"
    chk.function(q, "verified for one iteration with one pending resume (loop unrolled: the iteration body has no loop-carried state besides the heap)")
    bs_cls = P.cls(BS)
    C = enum_sort(bs_cls)[1]
    status0 = fresh("enum", "status0", bs_cls)
    until = fresh("real", "suspend_until")
    exe = st.alloc(P.cls("concurrency.models.ExecutableWithState"), {"_status": status0, "_suspend_until": mk_opt(z3.Bool("until.none"), until), "_future": st.alloc("opaque:Future", {}),
                                                                   "executable": st.alloc("opaque:Executable", {})})
    due = fresh("real", "resume_time")
    pending = st.alloc("list", {"__kind__": "list", "items": ((due, 0, exe),)})
    self_ = st.alloc(P.cls("concurrency.executor.TimerScheduler"), {"resubmit_callback": OpaqueFn("resubmit_callback"), "_pending_resumes": pending, "_lock": st.alloc("opaque:Lock", {}),
                                                                    "_shutdown": st.alloc("opaque:Event", {}), "_schedule_counter": 1})
    res = eng.run(P.func(q), [self_], st=st)
    chk.paths += len(res)
    seen = 0
    for k, v, s in res:
        rs = [e for e in s.trace if e.kind == "resubmit"]
        if k != "val":
            chk.prove(f"{prefix}.timer.pending_before_refresh", s.pc, F, desc="the timer loop does not raise")
            continue
        for e in rs:
            seen += 1
            chk.prove(f"{prefix}.timer.pending_before_refresh", s.pc, z3.And(e.status.t == C["PENDING"], z3.BoolVal(e.exe == exe)),
                      desc="a branch handed to the resubmission callback is already PENDING (so the executor's suspend decision sees it as unfinished during the blocking refresh)",
                      sample="_timer_loop iteration with one due branch")
    if not seen:
        # cover obligation: the contract above is vacuous if no explored path of the loop hands a due branch to the callback
        chk.prove(f"{prefix}.timer.pending_before_refresh", [], F, desc="reachability: some path of _timer_loop with one due branch reaches the resubmission callback")
    return eng


def handlers_dispatch(chk, prefix="C16"):
    """map_handler / parallel_handler: a SUCCEEDED record of the batch operation (reached only when its result was replaced by a summary) =>
    rebuild from the branch records (replay), otherwise execute; MapExecutor.from_items / ParallelExecutor.from_callables give branch i the index i"""
    from .handlers import status_in
    for mod, fn, ex_cls, factory, items_kw in (("operation.map", "map_handler", "MapExecutor", "from_items", "items"), ("operation.parallel", "parallel_handler", "ParallelExecutor", "from_callables", "callables")):
        eng = Engine(hooks=ExecHooks())
        P = eng.program
        st = St()
        chk.function(f"{mod}.{fn}")
        chk.function(f"{mod}.{ex_cls}.{factory}", "verified (generic element: comprehension over range(n) / enumerate)")
        n = z3.Int("n_inputs")
        st.assume(n >= 0)
        inputs = st.alloc("list", {"__kind__": "glist", "len": n, "elem": fresh("any", "item")})
        state = st.alloc("opaque:ExecutionState", {})
        ctx = st.alloc("opaque:DurableContext", {})
        op = eng.sym_of_type("Operation", "rec", st, P.modules["lambda_service"])
        rec = mk_opt(z3.Bool("rec.absent"), op)
        ident = st.alloc(P.cls("identifier.OperationIdentifier"), {"operation_id": fresh("str", "op_id"), "parent_id": None, "name": None})

        class H(ExecHooks):
            def opaque_call(self, eng_, s, f, args, kwargs):
                if f.name == "ExecutionState.get_checkpoint_result":
                    s.emit("read", id=args[0])
                    cr = P.cls("state.CheckpointedResult")
                    out = []
                    for absent, s2 in eng_.branch(s, is_none(rec)):
                        out.extend(eng_.call_func(cr.find_method("create_not_found" if absent else "create_from_operation"), [ClassRef(cr)] + ([] if absent else [op]), {}, s2))
                    return out
                return ExecHooks.opaque_call(self, eng_, s, f, args, kwargs)
        eng.hooks = H()

        def mk(name):
            def summ(eng_, s, args, kwargs):
                s.emit(name, exe=args[0], state=args[1] if len(args) > 1 else kwargs.get("execution_state"), ctx=kwargs.get("executor_context", args[2] if len(args) > 2 else None))
                return [("val", s.alloc("opaque:BatchResult", {}), s)]
            return summ
        eng.summaries[CE + ".replay"] = mk("replay")
        eng.summaries[CE + ".execute"] = mk("execute")
        user = OpaqueFn("user_func")
        args = {"map_handler": dict(items=inputs, func=user, config=None, execution_state=state, map_context=ctx, operation_identifier=ident),
                "parallel_handler": dict(callables=inputs, config=None, execution_state=state, parallel_context=ctx, operation_identifier=ident)}[fn]
        res = eng.run(P.func(f"{mod}.{fn}"), [], args, st=st)
        chk.paths += len(res)
        for k, v, s in res:
            calls = [e for e in s.trace if e.kind in ("replay", "execute")]
            reads = [e for e in s.trace if e.kind == "read"]
            ok = k == "val" and len(calls) == 1 and len(reads) == 1
            goal = z3.BoolVal(ok)
            if ok:
                succ = status_in(eng, s, rec, ["SUCCEEDED"])
                goal = z3.And(goal, ops.values_equal(s, reads[0].id, s.get(ident)["operation_id"]), z3.BoolVal(calls[0].state == state and calls[0].ctx == ctx),
                              succ if calls[0].kind == "replay" else z3.Not(succ))
                exes = s.get(s.get(calls[0].exe)["executables"])
                e_ok = exes.get("__kind__") == "glist"
                goal = z3.And(goal, z3.BoolVal(e_ok))
                if e_ok:
                    el = s.get(exes["elem"])
                    idx = el["index"]
                    # index = POSITION: the index expression is the iteration's own position variable (range(len(items)) / enumerate), not a value
                    # looked up from the item (items.index(item) gives equal items the same index, hence the same branch id)
                    positional = is_sym(idx, "int") and idx.t.decl().name().startswith(("range_index", "enum_index"))
                    goal = z3.And(goal, exes["len"] == n, z3.Implies(n > 0, z3.And(zint(idx) >= 0, zint(idx) < n)), z3.BoolVal(bool(positional)))
            chk.prove(f"{prefix}.exec.{fn}", s.pc, goal,
                      desc=f"{fn}: reads the batch operation's own record; SUCCEEDED => replay(), otherwise execute(), with the same state and context; one executable per input with index = position (0..n-1)",
                      sample=f"{fn} over n symbolic inputs")


def execute_item_contracts(chk, prefix="C09"):
    """MapExecutor.execute_item / ParallelExecutor.execute_item: branch i runs the user's function once, on ITS item, and returns its value"""
    class H(ExecHooks):
        def glist_getitem(self, eng_, s, ref, k):
            g = s.get(ref)
            s.emit("item_read", index=k, in_range=z3.And(ops.zint(k) >= 0, ops.zint(k) < g["len"]))
            return [("val", Sym("any", ITEM(ops.zint(k))), s)]

        def opaque_call(self, eng_, s, fn, args, kwargs):
            if fn.name == "branch_func":
                s.emit("branch_func", args=tuple(args), kwargs=dict(kwargs))
                s2 = s.fork()
                exc = eng_.new_symexc(s2, "branch_error")
                return [("val", fresh("any", "branch_value"), s), ("raise", exc, s2)]
            return ExecHooks.opaque_call(self, eng_, s, fn, args, kwargs)
    ITEM = z3.Function("item_at", z3.IntSort(), ops.ANY)
    for kind, q in (("map", "operation.map.MapExecutor.execute_item"), ("parallel", "operation.parallel.ParallelExecutor.execute_item")):
        eng = Engine(hooks=H())
        P = eng.program
        st = St()
        chk.function(q)
        n = fresh("int", "n_items")
        idx = fresh("int", "index")
        st.assume(z3.And(idx.t >= 0, idx.t < n.t))  # precondition: one Executable per item, index = position (C09.map.from_items)
        items = st.alloc("list", {"__kind__": "glist", "len": n.t, "elem": fresh("any", "generic_item")})
        exe = st.alloc(P.cls("concurrency.models.Executable"), {"index": idx, "func": OpaqueFn("branch_func")})
        self_ = st.alloc(P.cls(q.rsplit(".", 1)[0]), {"items": items})
        child = st.alloc("opaque:DurableContext", {})
        for k, v, s in eng.run(P.func(q), [self_, child, exe], st=st):
            chk.paths += 1
            calls = [e for e in s.trace if e.kind == "branch_func"]
            ok = len(calls) == 1 and not calls[0].kwargs
            goal = z3.BoolVal(ok)
            if ok:
                a = calls[0].args
                if kind == "map":
                    good = len(a) == 4 and a[0] == child and is_sym(a[1], "any") and a[3] == items
                    goal = z3.And(z3.BoolVal(good), a[1].t == ITEM(idx.t) if good else F, ops.values_equal(s, a[2], idx) if good else F)
                else:
                    goal = z3.BoolVal(len(a) == 1 and a[0] == child)
                if k == "val":
                    goal = z3.And(goal, z3.BoolVal(is_sym(v, "any") and v.t.decl().name().startswith("branch_value")))
                else:
                    goal = z3.And(goal, z3.BoolVal(isinstance(v, Ref) and v.cls == "symexc"))
            chk.prove(f"{prefix}.{kind}.execute_item", s.pc, goal,
                      desc={"map": "map branch i calls the user's function exactly once with (its child context, items[i], i, items) and returns its value / lets its exception through",
                            "parallel": "parallel branch i calls ITS callable exactly once with its child context and returns its value / lets its exception through"}[kind])
    # presets of the completion policy
    eng = Engine(hooks=ExecHooks())
    P = eng.program
    cc = P.cls("config.CompletionConfig")
    expect = {"first_successful": (1, None, None), "all_completed": (None, None, None), "all_successful": (None, 0, 0)}
    for name, (ms, tc, tp) in expect.items():
        m = cc.find_method(name)
        if m is None:
            continue
        chk.function(f"config.CompletionConfig.{name}")
        for k, v, s in eng.run(m, [], st=St()):
            chk.paths += 1
            ok = k == "val" and isinstance(v, Ref)
            goal = z3.BoolVal(ok)
            if ok:
                f = s.get(v)
                goal = z3.BoolVal(f["min_successful"] == ms and f["tolerated_failure_count"] == tc and (f["tolerated_failure_percentage"] == tp or (tp == 0 and f["tolerated_failure_percentage"] in (0, 0.0))))
            chk.prove(f"{prefix}.config.presets.{name}", s.pc, goal, desc=f"CompletionConfig.{name}() is (min_successful={ms}, tolerated_failure_count={tc}, tolerated_failure_percentage={tp})")
    return eng


def from_items_contract(chk, prefix="C09"):
    """BatchResult.from_items: the counts handed to the classifier are the numbers of items per status (S: collections.Counter counts occurrences),
    completed = succeeded + failed, total = started + completed; the result carries the SAME items and the classifier's reason"""
    COUNT = z3.Function("count_of_status", enum_sort(Engine().program.cls("concurrency.models.BatchItemStatus"))[0], z3.IntSort())

    class H(ExecHooks):
        def ext_call(self, eng_, s, name, args, kwargs):
            if name in ("collections.Counter", "Counter"):
                src = args[0]
                stor = s.get(src) if isinstance(src, Ref) else {}
                ok = stor.get("__kind__") == "glist" and is_sym(stor.get("elem"), "enum") and z3.eq(stor["elem"].t, s.ghost["generic_status"])
                s.emit("counter_built", over_statuses=bool(ok))
                return [("val", s.alloc("opaque:Counter", {}), s)]
            return ExecHooks.ext_call(self, eng_, s, name, args, kwargs)

        def opaque_call(self, eng_, s, fn, args, kwargs):
            if fn.name == "Counter.get":
                key, default = args[0], args[1] if len(args) > 1 else None
                if default != 0:
                    raise Unsupported("Counter.get default")
                kt = key.t if is_sym(key, "enum") else enum_sort(scls)[1][key.name] if hasattr(key, "name") else None
                from pyvc.values import enum_member as _em
                if kt is None:
                    raise Unsupported(f"Counter.get({key!r})")
                return [("val", Sym("int", COUNT(kt)), s)]
            return ExecHooks.opaque_call(self, eng_, s, fn, args, kwargs)
    eng = Engine(hooks=H())
    P = eng.program
    scls = P.cls("concurrency.models.BatchItemStatus")
    S_ = enum_sort(scls)[1]
    br = P.cls("concurrency.models.BatchResult")
    q = "concurrency.models.BatchResult.from_items"
    chk.function(q, "verified (generic item; collections.Counter as the count-per-status function; the classifier by its contract)")
    st = St()
    n = fresh("int", "n_items")
    st.assume(n.t >= 0)
    status = fresh("enum", "item_status", scls)
    st.ghost["generic_status"] = status.t
    item = st.alloc(P.cls("concurrency.models.BatchItem"), {"index": fresh("int", "i"), "status": status, "result": None, "error": None})
    items = st.alloc("list", {"__kind__": "glist", "len": n.t, "elem": item})
    cfg = eng.sym_of_type("str | None", "completion_config", st)

    def classifier(eng_, s, args, kwargs):
        s.emit("classify", args=tuple(args), kwargs=dict(kwargs))
        return [("val", fresh("enum", "reason", P.cls("concurrency.models.CompletionReason")), s)]
    eng.summaries["concurrency.models.BatchResult._get_completion_reason"] = classifier
    for k, v, s in eng.run(br.find_method("from_items"), [ClassRef(br), items, cfg], st=st):
        chk.paths += 1
        cl = [e for e in s.trace if e.kind == "classify"]
        cb = [e for e in s.trace if e.kind == "counter_built"]
        ok = k == "val" and isinstance(v, Ref) and len(cl) == 1 and len(cb) == 1 and cb[0].over_statuses and not [a for a in cl[0].args if not isinstance(a, ClassRef)]
        goal = z3.BoolVal(ok)
        if ok:
            kw = cl[0].kwargs
            need = {"failure_count", "success_count", "completed_count", "total_count", "completion_config"}
            if set(kw) != need:
                goal = F
            else:
                su, fa, stt = COUNT(S_["SUCCEEDED"]), COUNT(S_["FAILED"]), COUNT(S_["STARTED"])
                r = s.get(v)
                goal = z3.And(goal, zint(kw["failure_count"]) == fa, zint(kw["success_count"]) == su, zint(kw["completed_count"]) == su + fa, zint(kw["total_count"]) == su + fa + stt,
                              z3.BoolVal(kw["completion_config"] is cfg or kw["completion_config"] == cfg), z3.BoolVal(r["all"] == items), z3.BoolVal(is_sym(r["completion_reason"], "enum") and r["completion_reason"].t.decl().name().startswith("reason")))
        chk.prove(f"{prefix}.result.from_items", s.pc, goal,
                  desc="from_items(items, config): the classifier is called once with failure/success counts = number of FAILED/SUCCEEDED items, completed = their sum, total = completed + number of STARTED items, and the given config; the result holds the same items and the classifier's reason",
                  sample="from_items over a generic item list")
    return eng


def timer_scheduler_methods(chk, prefix="C07"):
    """TimerScheduler.schedule_resume (the contract used by _on_task_complete) and shutdown"""
    class H(ExecHooks):
        def ext_call(self, eng_, s, name, args, kwargs):
            if name == "heapq.heappush":
                s.emit("heappush", heap=args[0], item=args[1], held=s.ghost.get("held", 0) > 0)
                return [("val", None, s)]
            return ExecHooks.ext_call(self, eng_, s, name, args, kwargs)

        def cm_enter(self, eng_, s, cm):
            if isinstance(cm, Ref) and cm.cls == "opaque:Lock":
                s.ghost["held"] = s.ghost.get("held", 0) + 1
            return ExecHooks.cm_enter(self, eng_, s, cm)

        def cm_exit(self, eng_, s, cm, exc):
            if isinstance(cm, Ref) and cm.cls == "opaque:Lock":
                s.ghost["held"] = s.ghost.get("held", 0) - 1
            return ExecHooks.cm_exit(self, eng_, s, cm, exc)

        def opaque_call(self, eng_, s, fn, args, kwargs):
            if fn.name in ("Event.set", "Thread.join", "list.clear"):
                s.emit(fn.name, held=s.ghost.get("held", 0) > 0, kwargs=dict(kwargs))
                return [("val", None, s)]
            return ExecHooks.opaque_call(self, eng_, s, fn, args, kwargs)
    eng = Engine(hooks=H())
    P = eng.program
    cls = P.cls("concurrency.executor.TimerScheduler")
    st = St()
    c0 = fresh("int", "schedule_counter")
    heap = st.alloc("opaque:list", {})
    self_ = st.alloc(cls, {"_pending_resumes": heap, "_lock": st.alloc("opaque:Lock", {}), "_schedule_counter": c0, "_shutdown": st.alloc("opaque:Event", {}), "_timer_thread": st.alloc("opaque:Thread", {})})
    exe = st.alloc("opaque:ExecutableWithState", {})
    at = fresh("real", "resume_time")
    chk.function("concurrency.executor.TimerScheduler.schedule_resume")
    for k, v, s in eng.run(cls.find_method("schedule_resume"), [self_, exe, at], st=st):
        chk.paths += 1
        hp = [e for e in s.trace if e.kind == "heappush"]
        ok = k == "val" and len(hp) == 1 and hp[0].held and hp[0].heap == heap and isinstance(hp[0].item, tuple) and len(hp[0].item) == 3 and hp[0].item[2] == exe
        goal = z3.BoolVal(ok)
        if ok:
            goal = z3.And(goal, ops.values_equal(s, hp[0].item[0], at), ops.values_equal(s, hp[0].item[1], c0), zint(s.get(self_)["_schedule_counter"]) == c0.t + 1)
        chk.prove(f"{prefix}.timer.schedule_resume", s.pc, goal,
                  desc="schedule_resume(branch, t): under the scheduler lock, exactly one entry (t, tie-break counter, branch) is pushed on the heap of pending resumes and the counter is advanced (entries never compare two branches)")
    chk.function("concurrency.executor.TimerScheduler.shutdown")
    st2 = St()
    heap2 = st2.alloc("opaque:list", {})
    self2 = st2.alloc(cls, {"_pending_resumes": heap2, "_lock": st2.alloc("opaque:Lock", {}), "_schedule_counter": 0, "_shutdown": st2.alloc("opaque:Event", {}), "_timer_thread": st2.alloc("opaque:Thread", {})})
    for k, v, s in eng.run(cls.find_method("shutdown"), [self2], st=st2):
        chk.paths += 1
        kinds = [e.kind for e in s.trace]
        ok = k == "val" and kinds == ["Event.set", "Thread.join", "list.clear"] and s.trace[2].held and "timeout" in s.trace[1].kwargs
        chk.prove(f"{prefix}.timer.shutdown", s.pc, ok, desc="shutdown(): the stop flag is set first, the timer thread is joined with a timeout (a resubmission in flight cannot block it forever), then the pending resumes are dropped under the lock")
    return eng

"""Contracts of concurrency/executor.py and concurrency/models.py verified against the real bodies."""


def replay_items(chk):
    pass


def done_callback_total(chk, prefix):
    pass

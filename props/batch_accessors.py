"""Contracts of the BatchResult accessors (concurrency/models.py): every accessor is a filter / map / count / first-match over
`self.all`.  The comprehension's filter and element expressions are executed ONCE on a generic element (forall-introduction);
the contract compares them with the specification's filter and element.  Trusted (S): a comprehension
`[E(x) for x in xs if P(x)]` is the in-order filter-map of xs; sum(1 for ...) counts; any(...) is the disjunction;
next(gen, None) is the first element or None."""
from __future__ import annotations

import z3

from pyvc import ops
from pyvc.engine import Engine, Hooks
from pyvc.ops import F, T, is_none, mk_opt, strip_opt, truth
from pyvc.state import St
from pyvc.values import ClassRef, Opt, Ref, Sym, Unsupported, enum_sort, fresh, fresh_name, is_sym, simp, zbool


class AccHooks(Hooks):
    def glist_comp(self, eng, st, e, gen, it, kind):
        stor = st.get(it)
        if kind != "list":
            raise Unsupported("non-list comprehension over the items")
        out = []
        for s in eng.bind_target(gen.target, stor["elem"], st.fork()):
            conds = eng.ev_seq(gen.ifs, s) if gen.ifs else [("val", [], s)]
            if len(conds) != 1 or conds[0][0] != "val":
                raise Unsupported("comprehension filter forks or raises")
            s1 = conds[0][2]
            pred = simp(z3.And([truth(s1, v) for v in conds[0][1]])) if conds[0][1] else T
            s2 = s1.fork()
            s2.assume(pred)  # the element expression is evaluated only for elements that pass the filter
            res = eng.ev(e.elt, s2)
            if len(res) != 1 or res[0][0] != "val":
                raise Unsupported("comprehension element forks or raises")
            v = res[0][1]
            ref = st.alloc("list", {"__kind__": "fglist", "len": stor["len"], "pred": pred, "elem": v, "src": it})
            st.emit("comp", pred=pred, elem=v, ref=ref)
            out.append(("val", ref, st))
        return out

    def ext_call(self, eng, st, name, args, kwargs):
        if name in ("sum", "any", "next") and args and isinstance(args[0], Ref) and st.get(args[0]).get("__kind__") == "fglist":
            g = st.get(args[0])
            if name == "sum":
                if g["elem"] != 1:
                    raise Unsupported("sum over non-unit elements")
                c = fresh("int", "count")
                st.assume(z3.And(c.t >= 0, c.t <= g["len"]))
                st.emit("count", pred=g["pred"], result=c.t)
                return [("val", c, st)]
            if name == "any":
                b = fresh("bool", "any")
                st.emit("any", pred=z3.And(g["pred"], truth(st, g["elem"])), result=b.t)
                return [("val", b, st)]
            if name == "next":
                if len(args) != 2 or args[1] is not None:
                    raise Unsupported("next() without a None default")
                out = []
                s_found = st.fork()
                s_found.assume(z3.And(g["len"] > 0, g["pred"]))  # the generic element stands for the FIRST element that passes the filter
                s_found.emit("first", found=True, pred=g["pred"], elem=g["elem"])
                out.append(("val", g["elem"], s_found))
                s_none = st.fork()
                s_none.assume(z3.Or(g["len"] == 0, z3.Not(g["pred"])))  # no element passes: in particular not the generic one
                s_none.emit("first", found=False, pred=g["pred"], elem=None)
                out.append(("val", None, s_none))
                return out
        return None


def _describe(name, status_t, S):
    def d(m):
        sv = m.eval(status_t, model_completion=True)
        nm = next((k for k, c in S.items() if z3.eq(sv, c)), str(sv))
        def sval(x):
            v = m.eval(z3.String(x), model_completion=True)
            return v.as_string() if z3.is_string_value(v) else ""
        return {"accessor": name, "status": nm, "result_none": z3.is_true(m.eval(z3.Bool("item_result_is_none"), model_completion=True)),
                "error_none": z3.is_true(m.eval(z3.Bool("item_error_is_none"), model_completion=True)), "message": "m", "type": "T", "data": "d"}
    return d


def _replay(inputs):
    from pyvc.check import native
    r_ = native("accessor_replay.py", inputs)
    return bool(r_.get("confirmed")), r_


def accessors(chk, prefix="C09"):
    eng = Engine(hooks=AccHooks())
    P = eng.program
    cls = P.cls("concurrency.models.BatchResult")
    icls = P.cls("concurrency.models.BatchItem")
    scls = P.cls("concurrency.models.BatchItemStatus")
    S = enum_sort(scls)[1]

    def setup():
        st = St()
        n = fresh("int", "n_items")
        st.assume(n.t >= 0)
        status = fresh("enum", "item_status", scls)
        err = st.alloc(P.cls("lambda_service.ErrorObject"), {"message": eng.sym_of_type("str | None", "err_message", st), "type": eng.sym_of_type("str | None", "err_type", st),
                                                            "data": eng.sym_of_type("str | None", "err_data", st), "stack_trace": None})
        item = st.alloc(icls, {"index": fresh("int", "item_index"), "status": status, "result": mk_opt(z3.Bool("item_result_is_none"), fresh("any", "item_result")),
                               "error": mk_opt(z3.Bool("item_error_is_none"), err)})
        items = st.alloc("list", {"__kind__": "glist", "len": n.t, "elem": item})
        self_ = st.alloc(cls, {"all": items, "completion_reason": fresh("enum", "reason", P.cls("concurrency.models.CompletionReason"))})
        return st, self_, item, status.t, n.t, err

    def member(name):
        m = cls.find_method(name)
        if m is None:
            m = cls.properties[name] if hasattr(cls, "properties") and name in cls.properties else None
        return m

    res_none, err_none = z3.Bool("item_result_is_none"), z3.Bool("item_error_is_none")
    filters = {
        "succeeded": (lambda s_: z3.And(s_ == S["SUCCEEDED"], z3.Not(res_none)), "item"),
        "failed": (lambda s_: z3.And(s_ == S["FAILED"], z3.Not(err_none)), "item"),
        "started": (lambda s_: s_ == S["STARTED"], "item"),
        "get_results": (lambda s_: z3.And(s_ == S["SUCCEEDED"], z3.Not(res_none)), "result"),
        "get_errors": (lambda s_: z3.And(s_ == S["FAILED"], z3.Not(err_none)), "error"),
    }
    for name, (spec, what) in filters.items():
        q = f"concurrency.models.BatchResult.{name}"
        chk.function(q, "verified (generic element: filter and element of the comprehension against the specification)")
        st, self_, item, status, n, err = setup()
        for k, v, s in eng.run(P.func(q), [self_], st=st):
            chk.paths += 1
            comps = [e for e in s.trace if e.kind == "comp"]
            ok = k == "val" and len(comps) == 1 and isinstance(v, Ref) and v.oid == comps[0].ref.oid
            goal = z3.BoolVal(ok)
            if ok:
                el = comps[0].elem
                want = item if what == "item" else strip_opt(s.get(item)[what])
                el_s = strip_opt(el) if isinstance(el, Opt) else el
                not_none = z3.Not(is_none(el)) if isinstance(el, Opt) else z3.BoolVal(el is not None)
                if isinstance(el_s, Ref) or isinstance(want, Ref):
                    eq = z3.BoolVal(isinstance(el_s, Ref) and isinstance(want, Ref) and el_s.oid == want.oid)
                else:
                    eq = ops.values_equal(s, el_s, want)
                eq = z3.And(not_none, eq)
                goal = z3.And(goal, comps[0].pred == spec(status), z3.Implies(spec(status), eq))
            desc = {"item": "the items themselves", "result": "their results", "error": "their errors"}[what]
            chk.prove(f"{prefix}.result.{name}", s.pc, goal, desc=f"BatchResult.{name}() is the in-order selection of {desc} over exactly the items the documented filter selects (checked on a generic item)",
                      sample=f"{name}(): filter and element on a generic item", describe=_describe(name, status, S), replay=_replay)
    counts = {"success_count": "SUCCEEDED", "failure_count": "FAILED", "started_count": "STARTED"}
    for name, member_name in counts.items():
        q = f"concurrency.models.BatchResult.{name}"
        chk.function(q, "verified (generic element: the counted predicate)")
        st, self_, item, status, n, err = setup()
        for k, v, s in eng.run(P.func(q), [self_], st=st):
            chk.paths += 1
            cs = [e for e in s.trace if e.kind == "count"]
            ok = k == "val" and len(cs) == 1 and is_sym(v, "int") and z3.eq(v.t, cs[0].result)
            goal = z3.And(z3.BoolVal(ok), cs[0].pred == (status == S[member_name])) if ok else F
            chk.prove(f"{prefix}.result.{name}", s.pc, goal, desc=f"BatchResult.{name} counts exactly the items with status {member_name}", describe=_describe(name, status, S), replay=_replay)
    # total_count
    q = "concurrency.models.BatchResult.total_count"
    chk.function(q)
    st, self_, item, status, n, err = setup()
    for k, v, s in eng.run(P.func(q), [self_], st=st):
        chk.paths += 1
        chk.prove(f"{prefix}.result.total_count", s.pc, z3.And(z3.BoolVal(k == "val" and is_sym(v, "int")), v.t == n) if k == "val" and is_sym(v, "int") else F, desc="total_count is the number of items")
    # has_failure / status
    for name in ("has_failure", "status"):
        q = f"concurrency.models.BatchResult.{name}"
        chk.function(q)
        st, self_, item, status, n, err = setup()
        for k, v, s in eng.run(P.func(q), [self_], st=st):
            chk.paths += 1
            an = [e for e in s.trace if e.kind == "any"]
            ok = k == "val" and len(an) == 1
            goal = z3.BoolVal(ok)
            if ok:
                goal = z3.And(goal, an[0].pred == (status == S["FAILED"]))
                if name == "has_failure":
                    goal = z3.And(goal, z3.BoolVal(is_sym(v, "bool")), (v.t if is_sym(v, "bool") else F) == an[0].result)
                else:
                    vt = ops.enum_term(s, v, scls) if hasattr(ops, "enum_term") else (v.t if is_sym(v, "enum") else enum_sort(scls)[1][v.name] if hasattr(v, "name") else None)
                    goal = z3.And(goal, vt == z3.If(an[0].result, S["FAILED"], S["SUCCEEDED"])) if vt is not None else F
            chk.prove(f"{prefix}.result.{name}", s.pc, goal, desc={"has_failure": "has_failure is True iff some item has status FAILED", "status": "status is FAILED iff some item FAILED, else SUCCEEDED"}[name], describe=_describe(name, status, S), replay=_replay)
    # throw_if_error
    q = "concurrency.models.BatchResult.throw_if_error"
    chk.function(q, "verified (generic element standing for the first FAILED item)")
    st, self_, item, status, n, err = setup()
    for k, v, s in eng.run(P.func(q), [self_], st=st):
        chk.paths += 1
        fs = [e for e in s.trace if e.kind == "first"]
        ok = len(fs) == 1
        goal = z3.BoolVal(ok)
        if ok:
            f = fs[0]
            goal = z3.And(goal, f.pred == (status == S["FAILED"]))
            has_err = z3.And(z3.BoolVal(f.found), z3.Not(err_none))
            if k == "raise":
                is_cre = isinstance(v, Ref) and getattr(v.cls, "name", None) == "CallableRuntimeError"
                g2 = z3.BoolVal(is_cre)
                if is_cre:
                    ex = s.get(v)
                    for fld, src in (("message", "message"), ("error_type", "type"), ("data", "data")):
                        g2 = z3.And(g2, ops.values_equal(s, ex[fld], s.get(err)[src]))
                goal = z3.And(goal, has_err, g2)
            else:
                goal = z3.And(goal, z3.Not(has_err), z3.BoolVal(v is None))
        chk.prove(f"{prefix}.result.throw_if_error", s.pc, goal, desc="throw_if_error raises a CallableRuntimeError carrying message/type/data of the FIRST item with status FAILED (when that item has an error) and returns None otherwise", describe=_describe("throw_if_error", status, S), replay=_replay)
    return eng


def summary_generators(chk, prefix="C16"):
    """MapSummaryGenerator / ParallelSummaryGenerator (the default summary of an oversized map / parallel result): the summary is the JSON text of a
    FIXED, small set of fields - counts and enum values - so its size does not grow with the results it stands for (it is what gets recorded when the
    result itself is above the 256 KB checkpoint limit), and producing it does not raise for any batch result."""
    class H(AccHooks):
        def ext_call(self, eng, st, name, args, kwargs):
            if name == "json.dumps":
                st.emit("dumps", arg=args[0], kwargs=dict(kwargs))
                return [("val", fresh("str", "summary_text"), st)]
            return AccHooks.ext_call(self, eng, st, name, args, kwargs)
    for q, label in (("operation.map.MapSummaryGenerator", "map"), ("operation.parallel.ParallelSummaryGenerator", "parallel")):
        eng = Engine(hooks=H())
        P = eng.program
        cls = P.cls("concurrency.models.BatchResult")
        icls = P.cls("concurrency.models.BatchItem")
        scls = P.cls("concurrency.models.BatchItemStatus")
        st = St()
        n = fresh("int", "n_items")
        st.assume(n.t >= 0)
        err = st.alloc(P.cls("lambda_service.ErrorObject"), {"message": eng.sym_of_type("str | None", "err_message", st), "type": eng.sym_of_type("str | None", "err_type", st),
                                                            "data": eng.sym_of_type("str | None", "err_data", st), "stack_trace": None})
        item = st.alloc(icls, {"index": fresh("int", "item_index"), "status": fresh("enum", "item_status", scls), "result": mk_opt(z3.Bool("item_result_is_none"), fresh("any", "item_result")),
                               "error": mk_opt(z3.Bool("item_error_is_none"), err)})
        items = st.alloc("list", {"__kind__": "glist", "len": n.t, "elem": item})
        result = st.alloc(cls, {"all": items, "completion_reason": fresh("enum", "reason", P.cls("concurrency.models.CompletionReason"))})
        gcls = P.cls(q)
        gen = st.alloc(gcls, {})
        chk.function(q + ".__call__", "verified (accessors inlined on a generic item)")
        name = f"{prefix}.summary.bounded.{label}"
        for k, v, s in eng.run(gcls.find_method("__call__"), [gen, result], st=st):
            chk.paths += 1
            if k != "val":
                chk.prove(name, s.pc, F, desc=f"{gcls.name}.__call__ does not raise for any batch result")
                continue
            dumps = [e for e in s.trace if e.kind == "dumps"]
            ok = len(dumps) == 1 and not dumps[0].kwargs and isinstance(dumps[0].arg, Ref) and s.get(dumps[0].arg).get("__kind__") == "dict" and not s.get(dumps[0].arg)["open"] and is_sym(v, "str")
            conj, odd = [], []
            if ok:
                ent = s.get(dumps[0].arg)["e"]
                ok = len(ent) <= 12
                for key, (present, val) in ent.items():
                    if isinstance(val, bool) or isinstance(val, int) or is_sym(val, "int") or is_sym(val, "bool") or val is None:
                        continue                                      # a count: O(log n) digits
                    if isinstance(val, str):
                        if len(val) > 64:
                            odd.append(key)
                        continue
                    if is_sym(val, "str"):
                        conj.append(z3.Length(val.t) <= 64)           # an enum value: one of finitely many constants
                        continue
                    odd.append(key)                                   # a list / dict / object: grows with the result
            chk.prove(name, s.pc, z3.And(z3.BoolVal(ok and not odd), *conj),
                      desc="the default summary is json.dumps (default flags) of a closed dictionary of at most 12 fields whose values are counts or strings of at most 64 characters "
                           "(enum values, a type tag): its size does not depend on the item results, so it fits the checkpoint limit the full result exceeded"
                           + (f"; fields that are not a count or a short string: {odd}" if odd else ""),
                      sample=f"{gcls.name}()(arbitrary BatchResult)")

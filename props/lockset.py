"""Lock discipline of ExecutionState (precondition of assumption G / the lock contracts used by the state contracts): every access to a
field that the checkpoint thread and the user threads share happens inside a `with self.<its lock>:` block - lexically, or in a private
helper all of whose call sites are inside such a block.  `__init__` is exempt (the object is not shared yet).

Deciding method: syntactic, over the AST of the current source (no solver): a sufficient condition, checked for every access.
A field read outside its lock can observe the other thread's update half-way (for a dict: `RuntimeError: dictionary changed size
during iteration` in the reading thread)."""
from __future__ import annotations

import ast

import z3

GUARDS = {
    "operations": "_operations_lock",
    "_parent_done": "_parent_done_lock", "_parent_to_children": "_parent_done_lock", "_completed_contexts": "_parent_done_lock",
    "_replay_status": "_replay_status_lock", "_visited_operations": "_replay_status_lock",
}


def scan(program, cls_key="state.ExecutionState", guards=None):
    GUARDS_ = guards or GUARDS
    cls = program.cls(cls_key)
    accesses = []   # (function, field, line, lexically_held)
    calls = {}      # callee name -> [(caller, line, held locks)]
    for name, m in cls.methods.items():
        node = m.node

        def walk(n, held, fn=name):
            if isinstance(n, ast.With):
                h = set(held)
                for it in n.items:
                    e = it.context_expr
                    if isinstance(e, ast.Attribute) and isinstance(e.value, ast.Name) and e.value.id == "self":
                        h.add(e.attr)
                    else:
                        walk(e, held, fn)
                for b in n.body:
                    walk(b, h, fn)
                return
            if isinstance(n, (ast.FunctionDef, ast.Lambda)) and n is not node:
                # a nested function / lambda may run later, on another thread: nothing is held there
                for ch in ast.iter_child_nodes(n):
                    walk(ch, set(), fn)
                return
            if isinstance(n, ast.Call) and isinstance(n.func, ast.Attribute) and isinstance(n.func.value, ast.Name) and n.func.value.id == "self":
                calls.setdefault(n.func.attr, []).append((fn, n.lineno, frozenset(held)))
            if isinstance(n, ast.Attribute) and isinstance(n.value, ast.Name) and n.value.id == "self" and n.attr in GUARDS_:
                accesses.append((fn, n.attr, n.lineno, frozenset(held)))
            for ch in ast.iter_child_nodes(n):
                walk(ch, held, fn)
        walk(node, set())
    return accesses, calls


def held_at_entry(fn, lock, calls, seen=()):
    """True iff every call site of the private helper `fn` inside the class holds `lock` (directly or, recursively, at entry of the caller)"""
    if not fn.startswith("_") or fn.startswith("__") or fn in seen:
        return False
    sites = calls.get(fn, [])
    if not sites:
        return False
    return all(lock in held or held_at_entry(caller, lock, calls, seen + (fn,)) for caller, _, held in sites)


OTHER = {
    "concurrency.models.ExecutionCounters": {"success_count": "_lock", "failure_count": "_lock"},
    "concurrency.executor.TimerScheduler": {"_pending_resumes": "_lock", "_schedule_counter": "_lock"},
}


def lock_discipline(chk, prefix, fields, eng=None, cls_key="state.ExecutionState"):
    from pyvc.engine import Engine
    program = (eng or Engine()).program
    guards = GUARDS if cls_key == "state.ExecutionState" else OTHER[cls_key]
    accesses, calls = scan(program, cls_key, guards)
    short = cls_key.rsplit(".", 1)[1]
    chk.function(f"{cls_key} (every method)", "lock discipline: syntactic check of every access to the shared fields (AST, no solver)")
    for field in fields:
        lock = guards[field]
        sites = [(fn, ln, held) for fn, f, ln, held in accesses if f == field and fn != "__init__"]
        bad = [(fn, ln) for fn, ln, held in sites if lock not in held and not held_at_entry(fn, lock, calls)]
        name = f"{prefix}.state.lock_discipline.{field}" if cls_key == "state.ExecutionState" else f"{prefix}.{short}.lock_discipline.{field}"
        if not sites:
            chk.prove(name, [], z3.BoolVal(True), desc=f"self.{field} is not accessed outside __init__")
            continue
        replay = None
        if field == "operations" and cls_key == "state.ExecutionState":
            def replay(inputs):
                from pyvc.check import native
                r_ = native("track_race_replay.py", {})
                return bool(r_.get("confirmed")), r_
        chk.prove(name, [], z3.BoolVal(not bad),
                  desc=f"every access to self.{field} outside __init__ is inside `with self.{lock}:` (lexically, or in a private helper whose every call site holds it): "
                       f"{len(sites)} accesses checked" + (f"; NOT under the lock: {', '.join(f'{fn}:{ln}' for fn, ln in bad)}" if bad else ""),
                  describe=(lambda m: {"unlocked_accesses": [f"{fn}:{ln}" for fn, ln in bad], "schedule": "user thread iterates the map in track_replay while the checkpoint thread merges a response"}) if replay else None,
                  replay=replay, sample=f"lockset of self.{field}: {len(sites)} access sites")


def lock_order(chk, name, cls_key="state.ExecutionState", eng=None):
    """No deadlock through the class's own locks (safety cause of 'a synchronous caller is always released'): the relation 'lock B is acquired while
    lock A is held' - lexically nested `with self.A: ... with self.B:` blocks, and calls of methods of the class that (transitively) take B made while A
    is held - has no cycle.  Syntactic, over the AST of the current source (a sufficient condition; re-entrant use of one lock counts as a cycle too,
    the locks are plain `threading.Lock`s)."""
    from pyvc.engine import Engine
    program = (eng or Engine()).program
    cls = program.cls(cls_key)
    locks = sorted({a for m in cls.methods.values() for n in ast.walk(m.node) if isinstance(n, ast.With) for it in n.items
                    for a in [getattr(it.context_expr, "attr", None)] if a and isinstance(it.context_expr, ast.Attribute) and isinstance(it.context_expr.value, ast.Name) and it.context_expr.value.id == "self"})
    takes, calls_under = {}, {}     # method -> locks taken lexically ; method -> [(held, callee)]
    edges = set()
    for mname, m in cls.methods.items():
        takes[mname] = set()
        calls_under[mname] = []

        def walk(n, held, mname=mname):
            if isinstance(n, ast.With):
                h = list(held)
                for it in n.items:
                    e = it.context_expr
                    if isinstance(e, ast.Attribute) and isinstance(e.value, ast.Name) and e.value.id == "self" and e.attr in locks:
                        takes[mname].add(e.attr)
                        for a in h:
                            edges.add((a, e.attr, f"{mname}:{n.lineno}"))
                        h.append(e.attr)
                    else:
                        walk(e, held)
                for b in n.body:
                    walk(b, h)
                return
            if isinstance(n, (ast.FunctionDef, ast.Lambda)) and n is not cls.methods[mname].node:
                for ch in ast.iter_child_nodes(n):
                    walk(ch, [])
                return
            if isinstance(n, ast.Call) and isinstance(n.func, ast.Attribute) and isinstance(n.func.value, ast.Name) and n.func.value.id == "self" and n.func.attr in cls.methods:
                calls_under[mname].append((tuple(held), n.func.attr, n.lineno))
            for ch in ast.iter_child_nodes(n):
                walk(ch, held)
        walk(m.node, [])
    # transitive closure of 'method m may take lock L'
    may = {m_: set(t) for m_, t in takes.items()}
    changed = True
    while changed:
        changed = False
        for m_, cs in calls_under.items():
            for _, callee, _ln in cs:
                new = may.get(callee, set()) - may[m_]
                if new:
                    may[m_] |= new
                    changed = True
    for m_, cs in calls_under.items():
        for held, callee, ln in cs:
            for a in held:
                for b in may.get(callee, ()):
                    edges.add((a, b, f"{m_}:{ln} -> {callee}"))
    graph = {}
    for a, b, where in edges:
        graph.setdefault(a, {}).setdefault(b, where)
    cycle = None

    def dfs(node, path):
        nonlocal cycle
        for nxt in graph.get(node, {}):
            if cycle:
                return
            if nxt in path:
                i = path.index(nxt)
                cycle = path[i:] + [nxt]
                return
            dfs(nxt, path + [nxt])
    for start in list(graph):
        if not cycle:
            dfs(start, [start])
    chk.function(f"{cls_key} (every method)", "lock order: syntactic check of nested acquisitions (AST, no solver)")
    desc = (f"the locks of {cls.name} ({', '.join(locks)}) are acquired in an order without cycles: {len(edges)} nested acquisition(s) "
            + "; ".join(f"{a} then {b} at {w}" for a, d_ in sorted(graph.items()) for b, w in sorted(d_.items())))
    if cycle:
        desc += f"; CYCLE: {' -> '.join(cycle)} (two threads taking them in opposite orders block each other for ever: every synchronous checkpoint caller then waits for ever)"
    chk.prove(name, [], z3.BoolVal(cycle is None), desc=desc, describe=lambda m: {"cycle": cycle}, sample="nested lock acquisitions of the class")

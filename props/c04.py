"""C04 - at-most-once steps start their function at most once per attempt."""
from .handlers import explore
from . import hobl
from .common import handler_preamble


def run(chk):
    ex = explore("step")
    handler_preamble(chk, ex, ["operation.step.StepOperationExecutor.check_result_status", "operation.step.StepOperationExecutor.execute", "operation.step.StepOperationExecutor.retry_handler"])
    hobl.c04(chk, ex)
    # what the handler-level argument rests on (contracts used at the handler's call sites, discharged against their bodies):
    from . import state_contracts, batcher
    state_contracts.merge_all_pages(chk, "C04")      # the STARTED record left by a dead attempt is in the state, wherever the history page it is on
    state_contracts.lookup_faithful(chk, "C04")      # ... and the lookup returns it
    state_contracts.sync_blocks(chk, "C04")          # the synchronous START returns only through its completion event
    batcher.check_consumer(chk, "C04")               # ... which is set only after the backend accepted the batch and its response was merged

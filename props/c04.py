"""C04 - at-most-once steps start their function at most once per attempt."""
from .handlers import explore
from . import hobl
from .common import handler_preamble


def run(chk):
    ex = explore("step")
    handler_preamble(chk, ex, ["operation.step.StepOperationExecutor.check_result_status", "operation.step.StepOperationExecutor.execute", "operation.step.StepOperationExecutor.retry_handler"])
    hobl.c04(chk, ex)

"""Contract of execution.durable_execution.<locals>.wrapper verified against the real body (C18, C03.exec, C06.exec,
C11.exec, C16.exec, C17.exec).  The user handler's future, json.dumps, the thread pool and the service client are opaque."""
from __future__ import annotations

import ast

import z3

from pyvc import ops
from pyvc.engine import Engine, Hooks
from pyvc.loader import ClassInfo
from pyvc.ops import F, T, is_none, mk_opt, strip_opt
from pyvc.state import St
from pyvc.values import ClassRef, ExtRef, FuncRef, OpaqueFn, Opt, Ref, Sym, Unsupported, enum_sort, fresh, fresh_name, is_sym, simp, zbool

WRAP = "execution.durable_execution"


class WrapperHooks(Hooks):
    def ext_call(self, eng, st, name, args, kwargs):
        if name in ("threading.Lock", "Lock"):
            return [("val", st.alloc("opaque:Lock", {}), st)]
        if name in ("queue.Queue",):
            return [("val", st.alloc("opaque:Queue", {}), st)]
        if name in ("threading.Event", "Event"):
            return [("val", st.alloc("opaque:Event", {}), st)]
        if name in ("collections.deque", "deque"):
            return [("val", st.alloc("opaque:deque", {}), st)]
        if name in ("concurrent.futures.ThreadPoolExecutor", "ThreadPoolExecutor"):
            st.emit("pool_new", kwargs=dict(kwargs))
            return [("val", st.alloc("opaque:ThreadPool", {}), st)]
        if name == "contextlib.closing":
            return [("val", st.alloc("opaque:closing", {"thing": args[0]}), st)]
        if name == "json.dumps":
            st.emit("json_dumps", arg=args[0], kwargs=dict(kwargs))
            res = fresh("str", "json")
            st.assume(z3.Length(res.t) > 0)  # S: json.dumps never returns the empty string
            st.trace[-1].d["result"] = res
            if isinstance(args[0], Ref) and st.get(args[0]).get("__kind__") == "dict":
                return [("val", res, st)]  # S: a wire dict of strings is always JSON serializable
            s2 = st.fork()
            s2.trace[-1] = type(s2.trace[-1])("json_dumps", arg=args[0], kwargs=dict(kwargs))
            exc = s2.alloc("exc:TypeError", {"args": ("not JSON serializable",), "__msg__": fresh("str", "json_err")})
            s2.emit("json_failed", exc=exc)
            return [("val", res, st), ("raise", exc, s2)]
        if name == "json.loads":
            s2 = st.fork()
            exc = s2.alloc("exc:json.JSONDecodeError", {"args": ("bad json",)})
            return [("val", fresh("any", "input_event"), st), ("raise", exc, s2)]
        if name == "functools.partial":
            return [("val", OpaqueFn("partial"), st)]
        return None

    def cm_enter(self, eng, st, cm):
        if isinstance(cm, Ref) and cm.cls == "opaque:ThreadPool":
            st.emit("pool_enter")
            return [("val", cm, st)]
        if isinstance(cm, Ref) and cm.cls == "opaque:closing":
            return [("val", st.get(cm)["thing"], st)]
        return Hooks.cm_enter(self, eng, st, cm)

    def cm_exit(self, eng, st, cm, exc):
        if isinstance(cm, Ref) and cm.cls == "opaque:ThreadPool":
            st.emit("pool_exit")  # S: shutdown(wait=True) joins the handler thread and the checkpoint thread
            return [("val", None, st)]
        if isinstance(cm, Ref) and cm.cls == "opaque:closing":
            thing = st.get(cm)["thing"]
            return eng.then(eng.getattr_(thing, "close", st), lambda f, s: eng.then(eng.call_value(f, [], {}, s), lambda _, s2: [("val", None, s2)]))
        return Hooks.cm_exit(self, eng, st, cm, exc)

    def opaque_call(self, eng, st, fn, args, kwargs):
        n = fn.name
        if n == "ThreadPool.submit":
            st.emit("submit", fn=args[0], args=tuple(args[1:]))
            return [("val", st.alloc("opaque:Future", {"of": args[0]}), st)]
        if n == "Future.result":
            st.emit("user_result")
            s2 = st.fork()
            exc = eng.new_symexc(s2, "handler")
            s2.emit("user_raised", exc=exc)
            res = fresh("any", "handler_result")
            st.trace[-1].d["result"] = res
            return [("val", res, st), ("raise", exc, s2)]
        if n == "Event.set":
            st.emit("event_set", ev=fn.info)
            return [("val", None, st)]
        if n.startswith("stdlogger."):
            return [("val", None, st)]
        return Hooks.opaque_call(self, eng, st, fn, args, kwargs)

    def exc_attr(self, eng, st, ref, name):
        """attributes of a symbolic-class exception that the wrapper reads after an isinstance test"""
        stor = st.get(ref)
        P = eng.program
        if name == "source_exception":
            src = eng.new_symexc(st, "bg_source")
            st.assume(eng.symexc_isa(src, "Exception", st))  # BackgroundThreadError(message, source_exception: Exception)
            st.setfield(ref, "source_exception", src)
            return [("val", src, st)]
        if name == "error_category":
            v = fresh("enum", "error_category", P.cls("exceptions.CheckpointErrorCategory"))
            st.setfield(ref, "error_category", v)
            return [("val", v, st)]
        for cname in ("CheckpointError", "BotoClientError"):
            c = P.cls("exceptions." + cname)
            m = c.find_method(name)
            if m is not None:
                return [("val", FuncRef(m, bound=ref), st)]
        return Hooks.exc_attr(self, eng, st, ref, name)


def explore_wrapper(chk, malformed=False):
    eng = Engine(hooks=WrapperHooks())
    P = eng.program
    st = St()
    outer = P.func(WRAP)
    wrapper = P.nested_func(outer, "wrapper")
    handler = OpaqueFn("user_handler")
    closure = {"func": handler, "boto3_client": None, "__module__": outer.module, "__funcinfo__": outer}
    exe = P.modules["execution"]
    # the invocation input: well-typed, with a service client (first branch of the wrapper)
    state_cls = P.cls("execution.InitialExecutionState")
    ops_list = eng.sym_of_type("list[Operation]", "initial_ops", st, exe)
    ies = st.alloc(state_cls, {"operations": ops_list, "next_marker": fresh("str", "next_marker")})
    inp_cls = P.cls("execution.DurableExecutionInvocationInputWithClient")
    client = st.alloc("opaque:DurableServiceClient", {})
    event = st.alloc(inp_cls, {"durable_execution_arn": fresh("str", "arn"), "checkpoint_token": fresh("str", "token"), "initial_execution_state": ies, "service_client": client})
    context = st.alloc("opaque:LambdaContext", {})

    def fetch_summary(eng_, st_, args, kwargs):
        st_.emit("fetch", state=args[0], ops=args[1], token=args[2], marker=args[3])
        s2 = st_.fork()
        exc = eng_.new_symexc(s2, "fetch")
        s2.emit("fetch_failed", exc=exc)
        return [("val", None, st_), ("raise", exc, s2)]

    def cp_summary(eng_, st_, args, kwargs):
        from .handlers import bind_real
        b_ = bind_real(eng_, "state.ExecutionState.create_checkpoint", args[1:], kwargs)
        upd, sync = b_["operation_update"], b_["is_sync"]
        st_.emit("cp", update=upd, is_sync=sync)
        s2 = st_.fork()
        src = eng_.new_symexc(s2, "cp_source")
        s2.assume(eng_.symexc_isa(src, "Exception", s2))
        exc = s2.alloc(P.cls("exceptions.BackgroundThreadError"), {"args": ("bg",), "source_exception": src})
        s2.emit("cp_failed", exc=exc, src=src)
        return [("val", None, st_), ("raise", exc, s2)]

    def get_input_payload(eng_, st_, args, kwargs):
        # contract verified against the body in C18.exec.input_payload: the payload (or None), or DurableExecutionsError when the first record is not the EXECUTION record
        s2 = st_.fork()
        exc = s2.alloc(P.cls("exceptions.DurableExecutionsError"), {"args": ("First operation in initial execution state is not an execution operation",)})
        s2.emit("malformed_history")
        return [("val", eng_.sym_of_type("str | None", "raw_input_payload", st_), st_), ("raise", exc, s2)]

    eng.summaries["state.ExecutionState.fetch_paginated_operations"] = fetch_summary
    eng.summaries["state.ExecutionState.create_checkpoint"] = cp_summary
    eng.summaries["execution.InitialExecutionState.get_input_payload"] = get_input_payload
    eng.summaries["state.ExecutionState.checkpoint_batches_forever"] = lambda e, s, a, k: [("val", None, s)]
    res = eng.call_func(wrapper, [event, context], {}, st, closure=closure)
    return eng, res, {"event": event, "ies": ies, "handler": handler, "client": client, "ops_list": ops_list}


def status_of(st, v):
    """(dict storage, status value) of a returned wire dict"""
    if not (isinstance(v, Ref) and st.get(v).get("__kind__") == "dict"):
        return None, None
    d = st.get(v)
    return d, d["e"].get("Status", (F, None))[1]


def has_key(d, k):
    return d["e"].get(k, (F, None))[0]


def isa(eng, st, exc, name):
    key = name if name in ("Exception", "BaseException") else eng.program.cls("exceptions." + name)
    return eng.symexc_isa(exc, key, st)


def wrapper_obligations(chk, prefix, want):
    eng, res, inp = explore_wrapper(chk)
    P = eng.program
    chk.function(WRAP + ".<locals>.wrapper", "verified (user future, json, thread pool, service client opaque)")
    chk.function("execution.handle_checkpoint_error", "verified (inlined)")
    chk.function("execution.DurableExecutionInvocationOutput.to_dict", "verified (inlined; round trip in C20)")
    chk.function("state.ExecutionState.create_checkpoint_sync", "verified (inlined)")
    chk.function("state.ExecutionState.create_checkpoint", "contract used at call sites")
    chk.function("state.ExecutionState.fetch_paginated_operations", "contract used at call sites")
    chk.paths += len(res)
    for k_ in eng.stats:
        chk.engine_stats[k_] = chk.engine_stats.get(k_, 0) + eng.stats[k_]
    limit = eval(compile(ast.Expression(P.resolve_name(P.modules["execution"], "LAMBDA_RESPONSE_SIZE_LIMIT")[1]), "<c>", "eval"), {})
    slen = z3.Function("slen", z3.StringSort(), z3.IntSort())
    if prefix in ("C16", "C18"):
        chk.prove(f"{prefix}.exec.limit_within_lambda_max", [], 0 < limit <= 6 * 1024 * 1024, desc=f"LAMBDA_RESPONSE_SIZE_LIMIT read from the source ({limit}) is positive and not above Lambda's 6 MB response limit")
    acls, tcls = P.cls("lambda_service.OperationAction"), P.cls("lambda_service.OperationType")
    n_ret = 0
    for k, v, s in res:
        tr = s.trace
        kinds = [e.kind for e in tr]
        user_exc = next((e.exc for e in tr if e.kind == "user_raised"), None)
        cps = [e for e in tr if e.kind == "cp"]
        cp_failed = [e for e in tr if e.kind == "cp_failed"]
        entered_pool = "pool_enter" in kinds
        # ---------------- C18.thread_stopped / C17.exec / C01.exec: structural cut points
        if entered_pool and "C18" in want:
            stop_i = [i for i, e in enumerate(tr) if e.kind == "event_set"]
            exit_i = [i for i, e in enumerate(tr) if e.kind == "pool_exit"]
            chk.prove(f"{prefix}.wrapper.thread_stopped", s.pc, bool(stop_i) and bool(exit_i) and stop_i[-1] < exit_i[-1] and len(exit_i) == 1,
                      desc="on every exit path of the `with` block the checkpoint thread is told to stop (close()) before the pool joins its threads", sample=f"wrapper path: {kinds}")
        if "fetch" in kinds and ("C01" in want or "C17" in want):
            f = next(e for e in tr if e.kind == "fetch")
            sub = [i for i, e in enumerate(tr) if e.kind == "submit"]
            ies = s.get(inp["ies"])
            ev = s.get(inp["event"])
            goal = z3.And(z3.BoolVal(f.ops == ies["operations"] and all(i > tr.index(f) for i in sub)), ops.values_equal(s, f.token, ev["checkpoint_token"]), ops.values_equal(s, f.marker, ies["next_marker"]))
            if "C01" in want:
                chk.prove(f"{prefix}.exec.seeds_history", s.pc, goal, desc="the state is seeded with the invocation's operations, token and marker (all pages, C01.state.merge_all_pages) before user code is submitted")
            if "C17" in want:
                stt = s.get(f.state)
                rs = stt.get("_replay_status")
                n_ops = s.get(inp["ops_list"])["len"]
                rcls = P.cls("state.ReplayStatus")
                more_pages = ops.truth(s, ies["next_marker"])
                chk.prove(f"{prefix}.exec.initial_status", s.pc, (rs.t == enum_sort(rcls)[1]["REPLAY"]) == z3.Or(n_ops > 1, more_pages) if rs is not None else F,
                          desc="the invocation starts in REPLAY iff the history - however it is split between the invocation payload and later pages - holds more than the EXECUTION record (B3': a non-empty marker means more records follow)",
                          sample="replay_status == REPLAY iff len(first page) > 1 or next_marker")
        if k == "raise":
            if "C18" in want or "C06" in want:
                # ---------------- raises only for retry / malformed payload / non-Exception BaseException
                goal = F
                why = ""
                if not entered_pool:
                    goal = T  # before any thread starts: malformed payload / input JSON / history fetch failure (GetExecutionStateError is an InvocationError)
                elif user_exc is not None and v == user_exc:
                    goal = z3.Or(isa(eng, s, v, "InvocationError"), z3.Not(isa(eng, s, v, "Exception")))
                elif user_exc is not None and isinstance(v, Ref) and s.get(user_exc).get("source_exception") == v:
                    # unwrapped source of a BackgroundThreadError: a retriable CheckpointError or a non-checkpoint failure of the checkpoint thread
                    ce = isa(eng, s, v, "CheckpointError")
                    cat = s.get(v).get("error_category")
                    goal = z3.Or(z3.Not(ce), cat.t == enum_sort(P.cls("exceptions.CheckpointErrorCategory"))[1]["EXECUTION"] if cat is not None else F)
                elif cp_failed and (v == cp_failed[-1].exc or v == cp_failed[-1].src):
                    src = cp_failed[-1].src
                    ce = isa(eng, s, src, "CheckpointError")
                    cat = s.get(src).get("error_category")
                    goal = z3.Or(z3.Not(ce), cat.t == enum_sort(P.cls("exceptions.CheckpointErrorCategory"))[1]["EXECUTION"] if cat is not None else F)
                chk.prove(f"{prefix}.wrapper.raises_only_retry", s.pc, goal,
                          desc="the wrapper raises only: before user code starts (malformed payload / unreadable history), an InvocationError or non-Exception signal from user code, a retriable CheckpointError, or the non-checkpoint cause of a checkpoint-thread failure",
                          sample=f"wrapper raise path: {kinds}")
            continue
        # ---------------- returned dict
        n_ret += 1
        d, status = status_of(s, v)
        if d is None:
            chk.prove(f"{prefix}.wrapper.shape", s.pc, F, desc="the wrapper returns a wire dict")
            continue
        st_is = lambda m: (status == m) if isinstance(status, str) else (ops.zstr(status) == z3.StringVal(m))  # noqa: E731
        zst = (lambda m: z3.BoolVal(status == m)) if isinstance(status, str) else (lambda m: ops.zstr(status) == z3.StringVal(m))
        hr, he = has_key(d, "Result"), has_key(d, "Error")
        if "C18" in want:
            chk.prove(f"{prefix}.wrapper.shape", s.pc, z3.And(z3.Or(zst("SUCCEEDED"), zst("FAILED"), zst("PENDING")), z3.Implies(hr, zst("SUCCEEDED")), z3.Implies(he, zst("FAILED")),
                                                              z3.Implies(zst("PENDING"), z3.And(z3.Not(hr), z3.Not(he))), z3.Implies(zst("SUCCEEDED"), hr)),
                      desc="Status is SUCCEEDED, FAILED or PENDING; Result only (and always) with SUCCEEDED; Error only with FAILED; PENDING has neither", sample=f"wrapper return path: {kinds}")
        js = [e for e in tr if e.kind == "json_dumps"]
        if js and prefix in ("C16", "C18"):
            chk.prove(f"{prefix}.exec.size_in_bytes", s.pc, all(not e.kwargs for e in js),
                      desc="the response is serialized with json.dumps default flags (ASCII output, S), so the length compared with the Lambda limit is the size in bytes")
        if user_exc is None:
            # the handler returned a value
            if "C18" in want or "C16" in want or "C03" in want:
                jfail = any(e.kind == "json_failed" for e in tr)
                if jfail:
                    goal = z3.And(zst("FAILED"), z3.Or(he, z3.BoolVal(bool(cps) and not cp_failed)))
                    if "C18" in want:
                        chk.prove(f"{prefix}.wrapper.table.unserializable_result", s.pc, goal, desc="a handler result that json.dumps rejects => FAILED with an error object")
                elif cp_failed:
                    src = cp_failed[-1].src
                    if "C18" in want or "C06" in want:
                        chk.prove(f"{prefix}.wrapper.table.large_result_checkpoint_failed", s.pc, z3.And(zst("FAILED"), he, isa(eng, s, src, "CheckpointError")),
                                  desc="large result whose execution-level checkpoint failed with a non-retriable CheckpointError => FAILED (never SUCCEEDED)")
                else:
                    res_str = js[0].d.get("result") if js else None
                    big = slen(res_str.t) > limit if res_str is not None else F
                    result_v = d["e"].get("Result", (F, None))[1]
                    if cps:
                        c = cps[0]
                        u = s.get(c.update)
                        goal = z3.And(big, z3.BoolVal(len(cps) == 1), zst("SUCCEEDED"), ops.values_equal(s, result_v, ""), u["operation_type"].t == enum_sort(tcls)[1]["EXECUTION"], u["action"].t == enum_sort(acls)[1]["SUCCEED"],
                                      ops.values_equal(s, u["payload"], res_str), z3.BoolVal(c.is_sync is True) if isinstance(c.is_sync, bool) else zbool(c.is_sync))
                    else:
                        goal = z3.And(z3.Not(big), zst("SUCCEEDED"), ops.values_equal(s, result_v, res_str) if res_str is not None else F)
                    for p_ in ("C18", "C16", "C03", "C11"):
                        if p_ in want and p_ == prefix:
                            chk.prove(f"{prefix}.exec.large_success", s.pc, goal,
                                      desc=f"a JSON result longer than {limit} is returned as SUCCEEDED with an empty Result only after a synchronous EXECUTION SUCCEED carrying it was accepted; otherwise it is in the response and no execution-level update is sent")
            continue
        # the handler's future raised user_exc
        e = user_exc
        susp, bg, cpe, inv, exe, exc_ = (isa(eng, s, e, n) for n in ("SuspendExecution", "BackgroundThreadError", "CheckpointError", "InvocationError", "ExecutionError", "Exception"))
        if "C18" in want or "C07" in want or "C03" in want:
            goal = z3.And(z3.Implies(zst("PENDING"), z3.And(z3.Not(bg), susp)), z3.Implies(z3.And(susp, z3.Not(bg)), zst("PENDING")))
            chk.prove(f"{prefix}.wrapper.pending_iff_suspend", s.pc, goal, desc="PENDING is returned exactly when the handler's thread ended with SuspendExecution (and never for a checkpoint-thread failure)")
        if "C18" in want or "C06" in want:
            src = s.get(e).get("source_exception")
            if src is not None:
                chk.prove(f"{prefix}.exec.classification", list(s.pc) + [bg], z3.And(zst("FAILED"), he, isa(eng, s, src, "CheckpointError"), z3.BoolVal(not cps)),
                          desc="a BackgroundThreadError that is answered with a dict is FAILED with an error object, only for a (non-retriable) CheckpointError, and no further update is sent")
            chk.prove(f"{prefix}.wrapper.never_succeeded_on_error", s.pc, z3.Not(zst("SUCCEEDED")), desc="an exception from the handler's thread never yields SUCCEEDED")
        if "C18" in want:
            plain = z3.And(exc_, z3.Not(inv), z3.Not(susp), z3.Not(bg))
            chk.prove(f"{prefix}.wrapper.table.user_exception", list(s.pc) + [plain], zst("FAILED"), desc="ordinary user exceptions and non-retriable SDK errors (ExecutionError, ...) => FAILED")
        if prefix == "C16" and "C16" in want:
            # WHAT is measured against the limit on the error path: the serialized FAILED response itself (json.dumps of the output dictionary that
            # carries the error), not a part of it.  Inline error => that text fits; EXECUTION FAIL record sent => that text did not fit.
            measured = [e2 for e2 in js if e2.d.get("result") is not None and isinstance(e2.arg, Ref) and s.get(e2.arg).get("__kind__") == "dict" and "Error" in s.get(e2.arg)["e"]]
            # every error class answered with FAILED, except a CheckpointError (the checkpoint system itself is broken: nothing can be recorded)
            plain_ = z3.And(exc_, z3.Not(inv), z3.Not(susp), z3.Not(bg), z3.Not(cpe))
            if not cps:
                same = [e2 for e2 in measured if e2.arg.oid == v.oid or z3.is_true(simp(ops.values_equal(s, e2.arg, v)))]
                chk.prove(f"{prefix}.exec.large_error.measures_response", list(s.pc) + [plain_, he], z3.Or([slen(e2.d["result"].t) <= limit for e2 in same]) if same else F,
                          desc=f"a FAILED response that carries the error inline is the dictionary whose json.dumps text was measured and found to be at most {limit} characters "
                               "(the whole serialized response, not the error message alone: quotes, escapes and the envelope count)",
                          sample="wrapper error path: returned dict is the measured dict", describe=lambda m: {"handler": "raises ExecutionError / ValueError with a message longer than the response limit"}, replay=_replay_large_error)
            elif not cp_failed:
                chk.prove(f"{prefix}.exec.large_error.measures_response", list(s.pc) + [plain_], z3.Or([slen(e2.d["result"].t) > limit for e2 in measured]) if measured else F,
                          desc=f"the EXECUTION FAIL record replaces the response only when the json.dumps text of the FAILED response (with the error) is longer than {limit}",
                          sample="wrapper error path: checkpointed because the measured response was too long", describe=lambda m: {"handler": "raises with a message near the response limit"}, replay=_replay_large_error)
        if cps and ("C16" in want or "C11" in want or "C03" in want):
            c = cps[0]
            u = s.get(c.update)
            goal = z3.And(z3.BoolVal(len(cps) == 1), u["operation_type"].t == enum_sort(tcls)[1]["EXECUTION"], u["action"].t == enum_sort(acls)[1]["FAIL"], z3.Not(is_none(u["error"])), zst("FAILED"), z3.Not(he))
            if prefix in ("C16", "C03", "C11"):
                from .hobl import error_matches
                err_u = strip_opt(u["error"]) if isinstance(u["error"], Opt) else u["error"]
                goal = z3.And(goal, error_matches(s, err_u, e, eng), z3.BoolVal(c.is_sync is True) if isinstance(c.is_sync, bool) else zbool(c.is_sync))
                chk.prove(f"{prefix}.exec.large_error", s.pc, z3.Implies(z3.BoolVal(not cp_failed), goal), desc="an oversized FAILED response is replaced by an EXECUTION FAIL record (sent once, synchronously) that carries the handler's error (message AND type, as ErrorObject.from_exception builds it), and is returned without the error payload")
        if "C11" in want:
            last_cp = max((i for i, e2 in enumerate(tr) if e2.kind == "cp"), default=None)
            chk.prove(f"{prefix}.exec.result_once_last", s.pc, len(cps) <= 1, desc="at most one execution-level result record per invocation, and the wrapper sends nothing after it")
    if n_ret == 0:
        # cover obligation: the outcome table above is vacuous if no explored path of the wrapper returns an output
        chk.prove(f"{prefix}.wrapper.table.reachable", [], F, desc="reachability: the wrapper returns an invocation output on some explored path")
    return eng, res


def large_results(chk, prefix):
    return wrapper_obligations(chk, prefix, want=(prefix,))


def classification(chk, prefix):
    return wrapper_obligations(chk, prefix, want=(prefix,))


# ------------------------------------------------------------------------------------------------ LambdaClient
class ClientHooks(Hooks):
    def opaque_call(self, eng, st, fn, args, kwargs):
        if fn.name.startswith("boto."):
            st.emit("boto", name=fn.name)
            s2 = st.fork()
            exc = eng.new_symexc(s2, "boto")
            s2.assume(eng.symexc_isa(exc, "Exception", s2))
            s2.emit("boto_failed", exc=exc)
            return [("val", fresh("any", "boto_response"), st), ("raise", exc, s2)]
        return Hooks.opaque_call(self, eng, st, fn, args, kwargs)


def client_errors_wrapped(chk, prefix):
    """every Exception inside LambdaClient.checkpoint / get_execution_state (API failure or unparsable response) leaves as the
    classified SDK error, so the wrapper's classification table applies to it"""
    P = None
    for meth, parser, errcls in (("checkpoint", "lambda_service.CheckpointOutput.from_dict", "CheckpointError"), ("get_execution_state", "lambda_service.StateOutput.from_dict", "GetExecutionStateError")):
        eng = Engine(hooks=ClientHooks())
        P = eng.program
        st = St()
        q = f"lambda_service.LambdaClient.{meth}"
        chk.function(q, "verified (boto client and response parser opaque)")

        def parse(eng_, st_, args, kwargs):
            st_.emit("parse")
            s2 = st_.fork()
            exc = eng_.new_symexc(s2, "parse")
            s2.assume(eng_.symexc_isa(exc, "Exception", s2))
            s2.emit("parse_failed", exc=exc)
            return [("val", fresh("any", "parsed"), st_), ("raise", exc, s2)]

        def from_exc(eng_, st_, args, kwargs, errcls=errcls):
            e = st_.alloc(P.cls("exceptions." + errcls), {"args": ("wrapped",), "__wrapped__": args[-1]})
            return [("val", e, st_)]
        eng.summaries[parser] = parse
        eng.summaries[f"exceptions.{errcls}.from_exception"] = from_exc
        eng.summaries["exceptions.BotoClientError.from_exception"] = from_exc
        eng.summaries["exceptions.BotoClientError.build_logger_extras"] = lambda e, s, a, k: [("val", None, s)]
        boto = st.alloc("opaque:boto", {})
        self_ = st.alloc(P.cls("lambda_service.LambdaClient"), {"client": boto})
        updates = st.alloc("list", {"__kind__": "list", "items": ()})
        args = [self_, fresh("str", "arn"), fresh("str", "token"), updates, None] if meth == "checkpoint" else [self_, fresh("str", "arn"), fresh("str", "token"), fresh("str", "marker")]
        res = eng.run(P.func(q), args, st=st)
        chk.paths += len(res)
        for k, v, s in res:
            failed = [e for e in s.trace if e.kind in ("boto_failed", "parse_failed")]
            if k == "val":
                chk.prove(f"{prefix}.client.{meth}.errors_wrapped", s.pc, not failed, desc="a normal return means neither the API call nor the response parser raised")
            else:
                chk.prove(f"{prefix}.client.{meth}.errors_wrapped", s.pc, isinstance(v, Ref) and getattr(v.cls, "name", "") == errcls and bool(failed) and s.get(v).get("__wrapped__") == failed[-1].exc,
                          desc=f"every Exception raised by the API call or by parsing its response leaves {meth} as {errcls}.from_exception(that exception)")


# ------------------------------------------------------------------------------------------------ CheckpointError classification
def checkpoint_error_classification(chk, prefix="C06"):
    """CheckpointError.from_exception / is_retriable against the classification the code documents: a 4xx answer other than 429 with an error
    body is an EXECUTION-category error (is_retriable() True: the wrapper re-raises it for a Lambda retry) unless it is
    InvalidParameterValueException with a message starting 'Invalid Checkpoint Token'; everything else (5xx, 429, no status, no error body) is
    INVOCATION-category (FAILED without retry)."""
    class H(Hooks):
        def exc_attr(self, eng, st, ref, name):
            if name == "response":
                s2 = st.fork()
                out = eng.raise_ext(s2, "AttributeError", "response")  # the exception has no response attribute -> getattr default {}
                code, msg, status = (eng.sym_of_type("str | None", "Code", st), eng.sym_of_type("str | None", "Message", st), eng.sym_of_type("int | None", "HTTPStatusCode", st))
                err = st.alloc("dict", {"__kind__": "dict", "open": False, "e": {"Code": (z3.Bool("has_code"), code), "Message": (z3.Bool("has_message"), msg)}})
                meta = st.alloc("dict", {"__kind__": "dict", "open": False, "e": {"HTTPStatusCode": (z3.Bool("has_status"), status)}})
                resp = st.alloc("dict", {"__kind__": "dict", "open": False, "e": {"Error": (z3.Bool("has_error"), err), "ResponseMetadata": (z3.Bool("has_meta"), meta)}})
                st.ghost["resp"] = {"code": code, "msg": msg, "status": status}
                st.setfield(ref, "response", resp)
                return [("val", resp, st)] + out
            return Hooks.exc_attr(self, eng, st, ref, name)
    eng = Engine(hooks=H())
    P = eng.program
    st = St()
    cls = P.cls("exceptions.CheckpointError")
    chk.function("exceptions.CheckpointError.from_exception")
    chk.function("exceptions.CheckpointError.is_retriable")
    chk.function("exceptions.BotoClientError.from_exception")
    exc = eng.new_symexc(st, "client_error")
    cat_cls = P.cls("exceptions.CheckpointErrorCategory")
    CAT = enum_sort(cat_cls)[1]
    for k, v, s in eng.run(cls.find_method("from_exception"), [ClassRef(cls), exc], st=st):
        chk.paths += 1
        if k != "val" or not isinstance(v, Ref):
            chk.prove(f"{prefix}.exec.is_retriable", s.pc, F, desc="CheckpointError.from_exception does not raise")
            continue
        cat = s.get(v)["error_category"]
        g = s.ghost.get("resp")
        if g is None:
            spec_exec = F
        else:
            hs, he, hm, hc, hmsg = (z3.Bool(n) for n in ("has_status", "has_error", "has_meta", "has_code", "has_message"))
            status_none = z3.Or(z3.Not(hm), z3.Not(hs), is_none(g["status"]))
            stv = zint_(strip_opt(g["status"]))
            code_is_ipv = z3.And(hc, z3.Not(is_none(g["code"])), ops.zstr(strip_opt(g["code"])) == z3.StringVal("InvalidParameterValueException"))
            msg_is_token = z3.And(hmsg, z3.Not(is_none(g["msg"])), z3.PrefixOf(z3.StringVal("Invalid Checkpoint Token"), ops.zstr(strip_opt(g["msg"]))))
            error_body = z3.And(he, z3.Or(hc, hmsg))  # a non-empty Error dict
            spec_exec = z3.And(z3.Not(status_none), stv >= 400, stv < 500, stv != 429, error_body, z3.Not(z3.And(code_is_ipv, msg_is_token)))
        for k2, v2, s2 in eng.call_func(cls.find_method("is_retriable"), [v], {}, s):
            got = z3.BoolVal(v2) if isinstance(v2, bool) else zbool(v2)
            chk.prove(f"{prefix}.exec.is_retriable", s2.pc, z3.And(got == spec_exec, (cat.t == CAT["EXECUTION"]) == spec_exec),
                      desc="classification table of checkpoint failures by HTTP status, error code and message prefix (as documented in the code): is_retriable() iff 4xx (not 429) with an error body that is not 'InvalidParameterValueException: Invalid Checkpoint Token...'",
                      sample="CheckpointError.from_exception over an arbitrary botocore-style response",
                      describe=(lambda g_: (lambda m: _classification_inputs(m, g_)))(g), replay=_replay_classification)


def _replay_large_error(inputs):
    from pyvc.check import native
    r_ = native("large_execution_error_replay.py", {}, timeout=180)
    return bool(r_.get("confirmed")), r_


def _classification_inputs(m, g):
    from pyvc.concretize import concretize
    d = {n: bool(z3.is_true(m.eval(z3.Bool(n), model_completion=True))) for n in ("has_status", "has_error", "has_meta", "has_code", "has_message")}
    if g:
        d.update(code=concretize(g["code"], m, None), message=concretize(g["msg"], m, None), status=concretize(g["status"], m, None))
    return d


def _replay_classification(inputs):
    from pyvc.check import native
    r_ = native("classification_replay.py", inputs)
    return bool(r_.get("confirmed")), r_


def zint_(v):
    from pyvc.values import zint
    return zint(v) if v is not None else z3.IntVal(0)


def control_signals_not_exceptions(chk, prefix):
    """BackgroundThreadError, SuspendExecution (and TimedSuspendExecution), OrphanedChildException derive from BaseException and NOT from Exception
    (read from exceptions.py): user code's `except Exception` cannot swallow a checkpoint failure, a suspension or an orphan signal"""
    from pyvc.loader import Program
    P = Program()
    for name in ("BackgroundThreadError", "SuspendExecution", "TimedSuspendExecution", "OrphanedChildException"):
        c = P.cls("exceptions." + name)
        chk.prove(f"{prefix}.exceptions.control_signals_bypass_except_exception", [], bool(c.is_subclass_of("ext:BaseException") and not c.is_subclass_of("ext:Exception")),
                  desc="SDK control signals are BaseExceptions that are not Exceptions, so handlers written with `except Exception` let them through to the wrapper")


def client_forwards(chk, prefix="C05"):
    """LambdaClient.checkpoint / get_execution_state hand the caller's arguments to the API unchanged: one wire update per update, in order
    (the last hop of 'nothing lost, duplicated or reordered'), the caller's token, ARN and marker; the parsed response is returned"""
    WIRE = z3.Function("wire_form_of_update", z3.IntSort(), ops.ANY)

    class H(ClientHooks):
        def opaque_call(self, eng_, s, fn, args, kwargs):
            if fn.name.startswith("boto."):
                s.emit("api", name=fn.name, args=tuple(args), kwargs=dict(kwargs))
            return ClientHooks.opaque_call(self, eng_, s, fn, args, kwargs)

        def glist_comp(self, eng_, s, e, gen, it, kind):
            if kind == "dict" and not gen.ifs:
                # {K(x): V(x) for x in xs}: equal keys collapse - the size is anywhere between min(1, n) and n
                stor = s.get(it)
                for s1 in eng_.bind_target(gen.target, stor["elem"], s.fork()):
                    kv = eng_.ev_seq([e.key, e.value], s1)
                    if len(kv) != 1 or kv[0][0] != "val":
                        raise Unsupported("dict comprehension element forks")
                    L = fresh("int", "distinct_keys")
                    s.assume(z3.And(L.t >= 0, L.t <= stor["len"], z3.Implies(stor["len"] > 0, L.t >= 1)))
                    return [("val", s.alloc("dict", {"__kind__": "keyed_collapse", "len": L.t, "val": kv[0][1][1]}), s)]
            return ClientHooks.glist_comp(self, eng_, s, e, gen, it, kind)

        def ext_call(self, eng_, s, name, args, kwargs):
            if name == "list" and args and isinstance(args[0], Ref) and s.get(args[0]).get("__kind__") == "collapsed_values":
                src = s.get(args[0])
                return [("val", s.alloc("list", {"__kind__": "glist", "len": src["len"], "elem": src["val"]}), s)]
            return ClientHooks.ext_call(self, eng_, s, name, args, kwargs)

    class Collapsed:
        def method(self, eng_, s, ref, name, args, kwargs):
            stor = s.get(ref)
            if name == "values":
                return [("val", s.alloc("list", {"__kind__": "collapsed_values", "len": stor["len"], "val": stor["val"]}), s)]
            raise Unsupported(f"keyed_collapse.{name}")
    eng = Engine(hooks=H())
    eng.container_models["keyed_collapse"] = Collapsed()
    P = eng.program
    st = St()
    chk.function("lambda_service.LambdaClient.checkpoint", "verified (boto client and response parser opaque; the updates as a generic list)")
    n = fresh("int", "n_updates")
    st.assume(n.t >= 0)
    j = fresh("int", "update_index")
    upd = st.alloc("opaque:OperationUpdate", {"idx": j})

    def to_dict(eng_, s, args, kwargs):
        return [("val", Sym("any", WIRE(zint(s.get(args[0])["idx"]))), s)]

    class OH(H):
        def opaque_call(self, eng_, s, fn, args, kwargs):
            if fn.name == "OperationUpdate.to_dict":
                return [("val", Sym("any", WIRE(s.get(fn.info)["idx"].t)), s)]
            return H.opaque_call(self, eng_, s, fn, args, kwargs)

        def opaque_attr(self, eng_, s, ref, name):
            if ref.cls == "opaque:OperationUpdate" and name == "operation_id":
                return [("val", fresh("str", "operation_id"), s)]
            return H.opaque_attr(self, eng_, s, ref, name)
    eng.hooks = OH()
    parsed = {}

    def parse(eng_, s, args, kwargs):
        r = fresh("any", "parsed_output")
        s.emit("parse", arg=args[-1], result=r)
        return [("val", r, s)]
    eng.summaries["lambda_service.CheckpointOutput.from_dict"] = parse
    eng.summaries["exceptions.CheckpointError.from_exception"] = lambda e_, s_, a, k: [("val", s_.alloc(P.cls("exceptions.CheckpointError"), {"args": ("wrapped",)}), s_)]
    eng.summaries["exceptions.BotoClientError.build_logger_extras"] = lambda e_, s_, a, k: [("val", None, s_)]
    boto = st.alloc("opaque:boto", {})
    self_ = st.alloc(P.cls("lambda_service.LambdaClient"), {"client": boto})
    updates = st.alloc("list", {"__kind__": "glist", "len": n.t, "elem": upd})
    arn, token = fresh("str", "arn"), fresh("str", "token")
    ctok = eng.sym_of_type("str | None", "client_token", st)
    for k, v, s in eng.run(P.func("lambda_service.LambdaClient.checkpoint"), [self_, arn, token, updates, ctok], st=st):
        chk.paths += 1
        api = [e for e in s.trace if e.kind == "api"]
        ok = len(api) == 1 and not api[0].args
        goal = z3.BoolVal(ok)
        if ok:
            kw = api[0].kwargs
            u = kw.get("Updates")
            us = s.get(u) if isinstance(u, Ref) else {}
            shape = us.get("__kind__") == "glist" and is_sym(us.get("elem"), "any")
            goal = z3.And(goal, z3.BoolVal(bool(shape)), us["len"] == n.t if shape else F, us["elem"].t == WIRE(j.t) if shape else F,
                          ops.values_equal(s, kw.get("DurableExecutionArn"), arn), ops.values_equal(s, kw.get("CheckpointToken"), token),
                          z3.BoolVal(set(kw) <= {"Updates", "DurableExecutionArn", "CheckpointToken", "ClientToken"}))
            if "ClientToken" in kw:
                goal = z3.And(goal, z3.Not(is_none(ctok)), ops.values_equal(s, kw["ClientToken"], strip_opt(ctok)))
            else:
                goal = z3.And(goal, is_none(ctok))
            if k == "val":
                pr = [e for e in s.trace if e.kind == "parse"]
                goal = z3.And(goal, z3.BoolVal(len(pr) == 1 and is_sym(v, "any") and z3.eq(v.t, pr[0].result.t)))
        chk.prove(f"{prefix}.client.checkpoint.forwards_updates", s.pc, goal,
                  desc="LambdaClient.checkpoint calls the API exactly once with Updates = [u.to_dict() for u in updates] (same length, same order: element i is the wire form of update i), the caller's ARN and token, "
                       "ClientToken iff one was given; it returns the parsed response",
                  sample="checkpoint(arn, token, updates[n], client_token): one API call carrying n wire updates in order")
    return eng

"""Contracts of execution.durable_execution.wrapper verified against the real body."""


def large_results(chk, prefix):
    pass

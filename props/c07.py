"""C07 - suspension is sound (safety half): PENDING only when durably parked."""
from .handlers import explore
from . import hobl, executor_contracts as X, wrapper_contracts
from .common import handler_preamble
from .c01 import FUNCS
from .c11 import DOMAIN


def run(chk):
    from .common import per_instance_state_of_modules
    per_instance_state_of_modules(chk, "C07.classes.state_is_per_instance", ['concurrency.executor', 'concurrency.models', 'state'])   # no object created in a class body: instances share no mutable state through the class
    chk.assume("A: wake-up timestamps are finite reals; float('inf') is a constant above all of them")
    chk.assume("NOT DECIDED (liveness, DESIGN 5): 'always woken again', 'reaches SUCCEEDED/FAILED after finitely many invocations', 'no invocation runs forever', and the real-time clause about a branch still running when the last sibling parked. "
               "Decided safety causes of these clauses: retries are bounded (attempt count), every blocked synchronous caller is woken on failure, no lost wake-up in create_checkpoint (C06), the completion event is set whenever the batch is decided or every branch is parked, "
               "and the loops of the batch collection terminate (variants); loops that end on an external event (stop flag, arrival of an update, the backend's last history page) are not shown to terminate")
    for kind in ("wait", "invoke", "callback_result", "step", "wfc"):
        ex = explore(kind)
        handler_preamble(chk, ex, FUNCS[kind])
        hobl.c03_sync_before_suspend(chk, ex, prefix="C07", domain=DOMAIN[kind])
        hobl.c07_suspend_kind(chk, ex)
    X.suspend_decision(chk, "C07")
    X.on_task_complete(chk, "C07", want=("C07",))
    X.timer_loop(chk, "C07")
    X.timer_scheduler_methods(chk, "C07")   # the contract of schedule_resume used by _on_task_complete, and shutdown
    from . import lockset
    lockset.lock_discipline(chk, "C07", ["_pending_resumes", "_schedule_counter"], cls_key="concurrency.executor.TimerScheduler")   # the heap of pending resumes is shared by the timer thread and the branches' done-callbacks
    from . import misc_contracts
    misc_contracts.models_transitions(chk, "C07")
    X.resubmitter_total(chk, "C07")
    X.item_in_child_context(chk, "C07")     # a branch resumed by the timer inside the invocation runs on a fresh context and is not stopped as an orphan of itself: it reaches its outcome
    wrapper_contracts.wrapper_obligations(chk, "C07", want=("C07",))
    wrapper_contracts.control_signals_not_exceptions(chk, "C07")
    # safety causes of the liveness clauses (the clauses themselves stay undecided):
    #  - "reaches FAILED after finitely many invocations": a failing step's retries are bounded because the strategy sees the true attempt count
    hobl.c12_step(chk, explore("step"), prefix="C07")
    #  - "no invocation blocks forever": every caller blocked on a synchronous checkpoint is woken when the checkpoint API fails
    from . import batcher
    batcher.check_consumer(chk, "C07")
    #  - "no spinning": the loops of the batch collection terminate (variants: overflow length, room left in the batch); the ancestor walk of the
    #    replay tracker terminates (C17.state.under_completed_context.loop.variant); the other loops end on an external event (stop flag, arrival,
    #    the backend's last page) and stay undecided
    batcher.check_collect(chk, "C07")
    #  - "reaches SUCCEEDED/FAILED": a wait_for_condition makes progress across invocations only if each poll gets the state of the previous one
    hobl.c13_wfc(chk, explore("wfc"), prefix="C07")

"""C03 - write-ahead: no outcome is visible before the backend has accepted its record."""
from .handlers import explore
from . import hobl
from .common import handler_preamble
from .c01 import FUNCS
from .c11 import DOMAIN


def run(chk):
    chk.assume("B1: status domain per operation type: " + "; ".join(f"{k}: {v}" for k, v in DOMAIN.items()) + " (the SDK never sends CANCEL; a WAIT record is STARTED or SUCCEEDED)")
    for kind in ("step", "child", "wfc"):
        ex = explore(kind)
        handler_preamble(chk, ex, FUNCS[kind])
        hobl.c03_sync_before_outcome(chk, ex)
        hobl.c03_sync_before_suspend(chk, ex, domain=DOMAIN[kind])
    for kind in ("wait", "invoke", "callback_result"):
        ex = explore(kind)
        handler_preamble(chk, ex, FUNCS[kind])
        hobl.c03_sync_before_suspend(chk, ex, domain=DOMAIN[kind])
    from . import state_contracts
    state_contracts.create_checkpoint(chk, "C03", want=("C03",))
    state_contracts.consumer(chk, "C03")
    from . import lockset as _L
    _L.lock_order(chk, "C03.state.lock_order")
    state_contracts.completion_event_contract(chk, "C03")
    from . import context_contracts
    context_contracts.wait_validation(chk, "C03")
    from . import wrapper_contracts
    wrapper_contracts.wrapper_obligations(chk, "C03", want=("C03",))
    wrapper_contracts.control_signals_not_exceptions(chk, "C03")   # a failed checkpoint reaches user code as a non-Exception signal: `except Exception` around a durable call cannot swallow it and run on

"""C17 - context logger is silent while replaying completed work, audible afterwards."""
from __future__ import annotations

import z3

from pyvc import ops
from pyvc.engine import Engine, Hooks
from pyvc.ops import F, T, is_none, mk_opt, strip_opt
from pyvc.state import St
from pyvc.values import ClassRef, OpaqueFn, Opt, Ref, Sym, Unsupported, enum_member, enum_sort, fresh, fresh_name, is_sym, simp, zbool, zstr

from . import context_contracts as CC, executor_contracts as X, wrapper_contracts
from .setmodel import SS, SetModel, arr_of, new_zset

TERMINAL = ["SUCCEEDED", "FAILED", "CANCELLED", "STOPPED", "TIMED_OUT"]


class LogHooks(Hooks):
    def opaque_call(self, eng, st, fn, args, kwargs):
        if fn.name == "ExecutionState.is_replaying":
            b = fresh("bool", "is_replaying")
            st.emit("is_replaying", b=b.t)
            return [("val", b, st)]
        if fn.name == "log_func":
            st.emit("log", args=tuple(args), kwargs=dict(kwargs))
            return [("val", None, st)]
        return Hooks.opaque_call(self, eng, st, fn, args, kwargs)


def logger_gate(chk):
    eng = Engine(hooks=LogHooks())
    P = eng.program
    cls = P.cls("logger.Logger")
    chk.function("logger.Logger._log")
    chk.function("logger.Logger._should_log")
    chk.function("logger.Logger.from_log_info")
    for extra_none in (True, False):
        st = St()
        state = st.alloc("opaque:ExecutionState", {"durable_execution_arn": fresh("str", "arn")})
        dflt = st.alloc("dict", {"__kind__": "dict", "open": False, "e": {"executionArn": (T, fresh("str", "arn")), "operationId": (z3.Bool("has_op"), fresh("str", "opid"))}})
        self_ = st.alloc(cls, {"_logger": st.alloc("opaque:stdlogger", {}), "_default_extra": dflt, "_execution_state": state})
        extra = None if extra_none else st.alloc("dict", {"__kind__": "dict", "open": False, "e": {"user": (T, fresh("str", "user_extra"))}})
        msg = fresh("any", "msg")
        for k, v, s in eng.run(cls.find_method("_log"), [self_, OpaqueFn("log_func"), msg], {"extra": extra}, st=st):
            chk.paths += 1
            rep = [e.b for e in s.trace if e.kind == "is_replaying"]
            logs = [e for e in s.trace if e.kind == "log"]
            ok = k == "val" and len(rep) == 1 and len(logs) <= 1
            goal = z3.BoolVal(ok)
            if ok:
                goal = z3.And(goal, z3.BoolVal(bool(logs)) == z3.Not(rep[0]))
                if logs:
                    ex = logs[0].kwargs.get("extra")
                    d = s.get(ex)["e"] if isinstance(ex, Ref) else {}
                    src = s.get(dflt)["e"]
                    incl = [z3.Implies(p, z3.And(d.get(key, (F, None))[0], ops.values_equal(s, d[key][1], val) if key in d else F)) for key, (p, val) in src.items()]
                    goal = z3.And(goal, z3.BoolVal(logs[0].args and logs[0].args[0] is msg), *incl)
                    if extra is not None:
                        goal = z3.And(goal, d.get("user", (F, None))[0])
            chk.prove("C17.logger.gate", s.pc, goal, desc="Logger._log calls the underlying log function iff the state is not replaying, with the message and extra containing every default extra (and the caller's)",
                      sample="_log: emitted iff not is_replaying(); extra includes default_extra")
    # from_log_info
    st = St()
    state = st.alloc("opaque:ExecutionState", {"durable_execution_arn": fresh("str", "arn")})
    info_cls = P.cls("logger.LogInfo")
    info = st.alloc(info_cls, {"execution_state": state, "parent_id": eng.sym_of_type("str | None", "parent_id", st), "operation_id": eng.sym_of_type("str | None", "operation_id", st),
                               "name": eng.sym_of_type("str | None", "name", st), "attempt": eng.sym_of_type("int | None", "attempt", st)})
    sink = st.alloc("opaque:stdlogger", {})
    for k, v, s in eng.run(cls.find_method("from_log_info"), [ClassRef(cls), sink, info], st=st):
        chk.paths += 1
        ok = k == "val" and isinstance(v, Ref)
        goal = z3.BoolVal(ok)
        if ok:
            L = s.get(v)
            d = s.get(L["_default_extra"])["e"]
            i = s.get(info)
            goal = z3.And(goal, z3.BoolVal(L["_logger"] == sink and L["_execution_state"] == state), d.get("executionArn", (F, None))[0], ops.values_equal(s, d["executionArn"][1], s.get(state)["durable_execution_arn"]) if "executionArn" in d else F)
            for key, fld in (("parentId", "parent_id"), ("operationId", "operation_id"), ("operationName", "name")):
                has = ops.truth(s, i[fld])
                goal = z3.And(goal, d.get(key, (F, None))[0] == has, z3.Implies(has, ops.values_equal(s, d[key][1], strip_opt(i[fld])) if key in d else F))
            has_att = z3.Not(is_none(i["attempt"]))
            goal = z3.And(goal, d.get("attempt", (F, None))[0] == has_att)
        chk.prove("C17.logger.extras", s.pc, goal, desc="emitted records carry the execution ARN always, and parent id / operation id / name / attempt when present; derived loggers keep the sink")


def derived_loggers(chk):
    """'and loggers derived from it': LogInfo.with_parent_id keeps the execution state (the replay gate) and every other identifier;
    DurableContext.set_logger wraps the new sink with the context's own log info (same gate, same identifiers); Logger.get_logger returns the sink"""
    eng = Engine(hooks=LogHooks())
    P = eng.program
    info_cls = P.cls("logger.LogInfo")
    q = "logger.LogInfo.with_parent_id"
    if info_cls.find_method("with_parent_id") is not None:
        chk.function(q)
        st = St()
        state = st.alloc("opaque:ExecutionState", {"durable_execution_arn": fresh("str", "arn")})
        info = st.alloc(info_cls, {"execution_state": state, "parent_id": eng.sym_of_type("str | None", "parent_id", st), "operation_id": eng.sym_of_type("str | None", "operation_id", st),
                                   "name": eng.sym_of_type("str | None", "name", st), "attempt": eng.sym_of_type("int | None", "attempt", st)})
        new_parent = fresh("str", "new_parent")
        for k, v, s in eng.run(info_cls.find_method("with_parent_id"), [info, new_parent], st=st):
            chk.paths += 1
            ok = k == "val" and isinstance(v, Ref) and v.cls is info_cls
            goal = z3.BoolVal(ok)
            if ok:
                a, b = s.get(info), s.get(v)
                goal = z3.And(goal, z3.BoolVal(b["execution_state"] == state), ops.values_equal(s, b["parent_id"], new_parent),
                              *[ops.values_equal(s, b[f_], a[f_]) for f_ in ("operation_id", "name", "attempt")])
            chk.prove("C17.logger.derived.with_parent_id", s.pc, goal, desc="LogInfo.with_parent_id keeps the execution state (the gate that silences replayed log calls), the operation id, name and attempt, and sets the parent id")
    ctx_cls = P.cls("context.DurableContext")
    lg_cls = P.cls("logger.Logger")
    if ctx_cls.find_method("set_logger") is not None:
        chk.function("context.DurableContext.set_logger")
        st = St()
        state = st.alloc("opaque:ExecutionState", {"durable_execution_arn": fresh("str", "arn")})
        info = st.alloc(info_cls, {"execution_state": state, "parent_id": eng.sym_of_type("str | None", "parent_id", st), "operation_id": eng.sym_of_type("str | None", "operation_id", st),
                                   "name": eng.sym_of_type("str | None", "name", st), "attempt": None})
        old_logger = st.alloc(lg_cls, {"_logger": st.alloc("opaque:stdlogger", {}), "_default_extra": st.alloc("dict", {"__kind__": "dict", "open": False, "e": {}}), "_execution_state": state})
        ctx = st.alloc(ctx_cls, {"state": state, "_log_info": info, "logger": old_logger})
        sink = st.alloc("opaque:stdlogger", {})
        for k, v, s in eng.run(ctx_cls.find_method("set_logger"), [ctx, sink], st=st):
            chk.paths += 1
            lg = s.get(ctx).get("logger")
            ok = k == "val" and isinstance(lg, Ref) and lg.cls is lg_cls
            goal = z3.BoolVal(ok)
            if ok:
                L = s.get(lg)
                d = s.get(L["_default_extra"])["e"] if isinstance(L.get("_default_extra"), Ref) else {}
                i = s.get(info)
                goal = z3.And(goal, z3.BoolVal(L["_logger"] == sink and L["_execution_state"] == state), d.get("executionArn", (F, None))[0])
                for key, fld in (("parentId", "parent_id"), ("operationId", "operation_id"), ("operationName", "name")):
                    has = ops.truth(s, i[fld])
                    goal = z3.And(goal, d.get(key, (F, None))[0] == has, z3.Implies(has, ops.values_equal(s, d[key][1], strip_opt(i[fld])) if key in d else F))
            chk.prove("C17.logger.derived.set_logger", s.pc, goal, desc="DurableContext.set_logger installs a logger on the new sink that is gated by the SAME execution state and carries the context's own identifiers")
    if lg_cls.find_method("get_logger") is not None:
        chk.function("logger.Logger.get_logger")
        st = St()
        sink = st.alloc("opaque:stdlogger", {})
        lg = st.alloc(lg_cls, {"_logger": sink, "_default_extra": st.alloc("dict", {"__kind__": "dict", "open": False, "e": {}}), "_execution_state": st.alloc("opaque:ExecutionState", {})})
        for k, v, s in eng.run(lg_cls.find_method("get_logger"), [lg], st=st):
            chk.prove("C17.logger.derived.get_logger", s.pc, z3.BoolVal(k == "val" and v == sink), desc="Logger.get_logger returns the underlying sink")


class OpsMapModel(SetModel):
    """dict[str, Operation] keyed by operation id as functions of the key: has(k), type(k), status(k)"""

    def op_for(self, eng, st, m, k):
        P = eng.program
        cd = st.alloc(P.cls("lambda_service.ContextDetails"), {"replay_children": Sym("bool", m["rc"](k)), "result": None, "error": None})
        return st.alloc(P.cls("lambda_service.Operation"), {"operation_id": Sym("str", k), "operation_type": Sym("enum", m["type"](k), P.cls("lambda_service.OperationType")),
                                                           "status": Sym("enum", m["status"](k), P.cls("lambda_service.OperationStatus")),
                                                           "parent_id": mk_opt(m["par_none"](k), Sym("str", m["par"](k))), "context_details": mk_opt(m["cd_none"](k), cd)})

    def method(self, eng, st, ref, name, args, kwargs):
        s = st.get(ref)
        if s["__kind__"] == "opsmap" and name == "get":
            k = zstr(eng.unopt(st, args[0]))
            return [("val", mk_opt(z3.Not(z3.Select(s["has"], k)), self.op_for(eng, st, s, k)), st)]
        if s["__kind__"] == "opsmap" and name == "copy":
            st.emit("ops_snapshot", held=st.ghost.get("ops_lock_held", 0) > 0)
            return [("val", st.alloc("opsmap", dict(s)), st)]   # snapshot: same content (the model's map is a value)
        if s["__kind__"] == "opsmap" and name == "items":
            return [("val", st.alloc("opsitems", {"__kind__": "opsitems", "map": ref}), st)]
        if s["__kind__"] == "zset" and name == "issubset":
            k = z3.String(fresh_name("k"))
            return [("val", Sym("bool", z3.ForAll([k], z3.Implies(z3.Select(s["arr"], k), z3.Select(arr_of(st, args[0]), k)))), st)]
        return SetModel.method(self, eng, st, ref, name, args, kwargs)

    def comp(self, eng, st, e, gen, it, kind):
        m = st.get(st.get(it)["map"])
        if kind != "set":
            raise Unsupported("only set comprehensions over operations.items()")
        k = z3.String(fresh_name("key"))
        s2 = st.fork()
        P = eng.program
        op = self.op_for(eng, s2, m, k)
        for s3 in eng.bind_target(gen.target, (Sym("str", k), op), s2):
            conds = eng.ev_seq(gen.ifs, s3)
            if len(conds) != 1 or conds[0][0] != "val":
                raise Unsupported("comprehension filter forks")
            cond = simp(z3.And([ops.truth(conds[0][2], v) for v in conds[0][1]]))
            res = eng.ev(e.elt, conds[0][2])
            if len(res) != 1 or not is_sym(res[0][1], "str") or not z3.eq(res[0][1].t, k):
                raise Unsupported("comprehension element is not the key")
            arr = z3.Array(fresh_name("comp"), SS, z3.BoolSort())
            st.assume(z3.ForAll([k], z3.Select(arr, k) == z3.And(z3.Select(m["has"], k), cond)))
            return [("val", new_zset(st, arr), st)]
        raise Unsupported("comprehension target")


def ops_functions(P):
    t_cls, s_cls = P.cls("lambda_service.OperationType"), P.cls("lambda_service.OperationStatus")
    return {"has": z3.Array("ops.has", SS, z3.BoolSort()), "type": z3.Function("ops.type", SS, enum_sort(t_cls)[0]), "status": z3.Function("ops.status", SS, enum_sort(s_cls)[0]),
            "par_none": z3.Function("ops.parent.none", SS, z3.BoolSort()), "par": z3.Function("ops.parent", SS, SS), "cd_none": z3.Function("ops.ctxdetails.none", SS, z3.BoolSort()),
            "rc": z3.Function("ops.replay_children", SS, z3.BoolSort())}


BA = z3.Function("under_completed_context", SS, z3.BoolSort())  # spec: some ancestor has a recorded outcome that is returned without re-running it


def blocked(P, m, p):
    S = enum_sort(P.cls("lambda_service.OperationStatus"))[1]
    return z3.And(z3.Or([m["status"](p) == S[x] for x in TERMINAL]), z3.Not(z3.And(z3.Not(m["cd_none"](p)), m["rc"](p))))


def step_of(P, m, none, p):
    """unfolding of BA at a parent link (none?, p)"""
    return z3.And(z3.Not(none), z3.Length(p) > 0, z3.Select(m["has"], p), z3.Or(blocked(P, m, p), BA(p)))


def ba_axiom(P, m):
    k = z3.String("k!ba")
    return z3.ForAll([k], BA(k) == step_of(P, m, m["par_none"](k), m["par"](k)))


def under_completed_contract(chk):
    """_is_under_completed_context(op) == BA(op.operation_id): loop invariant over the ancestor walk (termination not proved: parent links are a tree, U/C08)"""
    from pyvc.loops import LoopContract
    eng = Engine()
    model = OpsMapModel()
    for kname in ("zset", "opsmap", "opsitems"):
        eng.container_models[kname] = model
    P = eng.program
    q = "state.ExecutionState._is_under_completed_context"
    try:
        fi = P.func(q)
    except KeyError:
        return None  # the helper does not exist on this tree: track_flip is then judged against the statement directly
    chk.function(q, "verified (loop invariant over the ancestor chain)")
    import ast as _ast
    mutable = [p_ for p_, d_ in fi.defaults.items() if isinstance(d_, (_ast.Dict, _ast.List, _ast.Set, _ast.DictComp, _ast.ListComp, _ast.SetComp))
               or (isinstance(d_, _ast.Call) and isinstance(d_.func, _ast.Name) and d_.func.id in ("dict", "list", "set", "defaultdict"))]
    chk.prove("C17.state.under_completed_context.no_hidden_state", [], z3.BoolVal(not mutable),
              desc="the answer is a function of the operation and of the operations map given to THIS call: the helper keeps no state between calls in a mutable default argument (the statuses it reads change between calls and invocations)"
                   + (f"; mutable default(s): {mutable}" if mutable else ""))
    if mutable:
        return None
    st = St()
    m = ops_functions(P)
    st.assume(ba_axiom(P, m))
    opsmap = st.alloc("opsmap", dict(m, __kind__="opsmap"))
    self_ = st.alloc(P.cls("state.ExecutionState"), {"operations": opsmap})
    k0 = z3.String("op_key")
    op = model.op_for(eng, st, m, k0)

    def inv(eng_, s):
        pid = s.env["parent_id"]
        none = is_none(pid)
        p = zstr(strip_opt(pid)) if strip_opt(pid) is not None else z3.StringVal("")
        return BA(k0) == step_of(P, m, none, p)

    def havoc(eng_, s):
        s.env["parent_id"] = eng_.sym_of_type("str | None", "parent_id", s)
        s.env.pop("parent", None)
    RANK = z3.Function("ancestor_depth", SS, z3.IntSort())
    kk = z3.String("k!rank")
    # U/C08 (ids encode their path): parent links recorded in the operations map form a forest - every recorded parent is strictly shallower
    st.assume(z3.ForAll([kk], z3.And(RANK(kk) >= 0, z3.Implies(z3.And(z3.Select(m["has"], kk), z3.Not(m["par_none"](kk)), z3.Length(m["par"](kk)) > 0), RANK(m["par"](kk)) < RANK(kk)))))

    def variant(eng_, s):
        pid = s.env["parent_id"]
        p = zstr(strip_opt(pid)) if strip_opt(pid) is not None else z3.StringVal("")
        return z3.If(ops.truth(s, pid), RANK(p), -1)   # -1 once there is no further ancestor (the loop test is then false)
    eng.loop_handlers[(q, "while", 0)] = LoopContract(chk, "C17.state.under_completed_context.loop", inv, havoc, desc="the answer for the operation equals the answer for the ancestor about to be examined",
                                                      variant=variant, variant_desc="depth of the ancestor about to be examined; parent links form a forest (U/C08)")
    static = "staticmethod" in fi.decorators
    for k, v, s in eng.run(fi, [op, opsmap] if static else [self_, op], st=st):
        chk.paths += 1
        got = z3.BoolVal(v) if isinstance(v, bool) else zbool(v)
        chk.prove("C17.state.under_completed_context", s.pc, z3.And(z3.BoolVal(k == "val"), got == BA(k0)),
                  desc="_is_under_completed_context(op) is True iff some ancestor context (through the recorded parent links) has a terminal status without ReplayChildren")
    return eng


def track_flip(chk):
    eng = Engine()
    model = OpsMapModel()
    for kname in ("zset", "opsmap", "opsitems"):
        eng.container_models[kname] = model
    P = eng.program
    st = St()
    chk.function("state.ExecutionState.track_replay")
    rs_cls, t_cls, s_cls = P.cls("state.ReplayStatus"), P.cls("lambda_service.OperationType"), P.cls("lambda_service.OperationStatus")
    m = ops_functions(P)
    has, typ, stat = m["has"], m["type"], m["status"]
    st.assume(ba_axiom(P, m))
    opsmap = st.alloc("opsmap", dict(m, __kind__="opsmap"))
    has_helper = "_is_under_completed_context" in P.cls("state.ExecutionState").methods
    if has_helper:
        helper_static = "staticmethod" in P.cls("state.ExecutionState").methods["_is_under_completed_context"].decorators

        def helper_summary(eng_, s_, args, kwargs):
            op_ = args[0] if helper_static else args[1]
            if helper_static and not (isinstance(args[1], Ref) and s_.get(args[1]).get("__kind__") == "opsmap"):
                raise Unsupported("the ancestor walk is given something else than (a snapshot of) self.operations")
            return [("val", Sym("bool", BA(zstr(s_.get(op_)["operation_id"]))), s_)]
        eng.summaries["state.ExecutionState._is_under_completed_context"] = helper_summary
    visited = new_zset(st, name="visited")
    v0 = st.get(visited)["arr"]
    status0 = fresh("enum", "replay_status", rs_cls)
    self_ = st.alloc(P.cls("state.ExecutionState"), {"_replay_status_lock": st.alloc("opaque:Lock", {}), "_operations_lock": st.alloc("opaque:Lock", {}), "_replay_status": status0,
                                                    "_visited_operations": visited, "operations": opsmap})
    oid = fresh("str", "operation_id")
    R = enum_sort(rs_cls)[1]
    S = enum_sort(s_cls)[1]
    k = z3.String("k!spec")
    completed = lambda kk: z3.And(z3.Select(has, kk), typ(kk) != enum_sort(t_cls)[1]["EXECUTION"], z3.Or([stat(kk) == S[x] for x in TERMINAL]))  # noqa: E731
    for kk_, v, s in eng.run(P.func("state.ExecutionState.track_replay"), [self_, oid], st=st):
        chk.paths += 1
        now = s.get(self_)["_replay_status"].t
        v1 = arr_of(s, visited)
        all_visited = z3.ForAll([k], z3.Implies(z3.And(completed(k), z3.Not(BA(k))), z3.Or(z3.Select(v0, k), k == oid.t)))
        goal = z3.And(z3.BoolVal(kk_ == "val"),
                      z3.If(status0.t == R["NEW"], z3.And(now == R["NEW"], v1 == v0),
                            z3.And(now == z3.If(all_visited, R["NEW"], R["REPLAY"]), v1 == z3.Store(v0, oid.t, True))))
        # statement-level version: only records the program will pass again count ("visitable": no ancestor context whose recorded
        # outcome is returned without re-running its body); operations under such a context short-circuit (C01) and are never visited
        visitable = lambda kk: z3.Not(BA(kk))  # noqa: E731  (a record is passed again iff no ancestor short-circuits)
        all_vis = z3.ForAll([k], z3.Implies(z3.And(completed(k), visitable(k)), z3.Or(z3.Select(v0, k), k == oid.t)))
        k2 = z3.String("k!region")
        region = z3.Exists([k2], z3.And(completed(k2), z3.Not(visitable(k2)), z3.Not(z3.Select(v0, k2)), k2 != oid.t))

        def replay(inputs):
            from pyvc.check import native
            r_ = native("logger_replay.py", {})
            return bool(r_.get("confirmed")), r_
        chk.prove("C17.lemma.boundary", list(s.pc) + [status0.t == R["REPLAY"]], (now == R["NEW"]) == all_vis,
                  desc="once every completed operation the program passes again has been passed, the status is NEW (log calls are emitted); before that it is REPLAY",
                  regions={"completed_record_under_completed_context": region},
                  sample="track_replay vs the set of completed records that will be visited")
        chk.prove("C17.state.track_flip", s.pc, goal,
                  desc="track_replay(id): NEW is absorbing; in REPLAY the id is recorded as visited and the status becomes NEW iff every non-EXECUTION record with a terminal status that is not under a short-circuiting ancestor has been visited",
                  sample="track_replay over an arbitrary operations map and visited set")


def is_replaying_contract(chk):
    """the gate's input: is_replaying() is exactly `status is REPLAY` and leaves the state unchanged"""
    eng = Engine()
    P = eng.program
    q = "state.ExecutionState.is_replaying"
    chk.function(q)
    rs_cls = P.cls("state.ReplayStatus")
    R = enum_sort(rs_cls)[1]
    st = St()
    status0 = fresh("enum", "replay_status", rs_cls)
    self_ = st.alloc(P.cls("state.ExecutionState"), {"_replay_status_lock": st.alloc("opaque:Lock", {}), "_replay_status": status0})
    for k, v, s in eng.run(P.func(q), [self_], st=st):
        chk.paths += 1
        got = z3.BoolVal(v) if isinstance(v, bool) else (zbool(v) if k == "val" and v is not None else F)
        now = s.get(self_)["_replay_status"]
        chk.prove("C17.state.is_replaying", s.pc, z3.And(z3.BoolVal(k == "val"), got == (status0.t == R["REPLAY"]), now.t == status0.t),
                  desc="is_replaying() returns True exactly when the replay status is REPLAY and does not change it (this is the value the logger gate reads)")


def run(chk):
    from .common import per_instance_state_of_modules
    per_instance_state_of_modules(chk, "C17.classes.state_is_per_instance", ['state', 'context'])   # no object created in a class body: instances share no mutable state through the class
    chk.assume("U: sequential program; operations inside a completed context short-circuit (C01) and are therefore not visited")
    chk.assume("B3': a non-empty NextMarker in the invocation payload means the remaining pages hold at least one more record")
    chk.trust("python semantics of the stated subset as encoded by pyvc (DESIGN 2.3)")
    chk.trust("z3 5.1.0")
    logger_gate(chk)
    derived_loggers(chk)
    from . import state_contracts as _S
    _S.merge_all_pages(chk, "C17")          # 'however the history is paginated': every page is merged before the first replay decision can be taken
    from . import misc_contracts
    misc_contracts.logger_methods(chk, "C17")
    under_completed_contract(chk)
    track_flip(chk)
    is_replaying_contract(chk)
    from . import lockset
    lockset.lock_discipline(chk, "C17", ["_replay_status", "_visited_operations", "operations"])   # the map track_replay iterates is not changed under its feet
    CC.operation_methods(chk, "C17", want=("C17",))
    X.item_in_child_context(chk, "C17")
    X.replay_items(chk, "C17")
    wrapper_contracts.wrapper_obligations(chk, "C17", want=("C17",))
    from .handlers import explore
    from .common import handler_preamble
    from .c01 import FUNCS
    from . import hobl
    for kind in ("step", "wfc"):
        ex = explore(kind)
        handler_preamble(chk, ex, FUNCS[kind])
        hobl.c17_user_logger_gated(chk, ex)
    # the replay tracker decides "under a completed context" from the parent links of the RECORDS: every update must report the parent it has
    for kind in ("step", "wfc", "child", "wait", "invoke", "callback"):
        ex = explore(kind)
        handler_preamble(chk, ex, FUNCS[kind])
        hobl.ids_passthrough(chk, ex, "C17")

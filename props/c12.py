"""C12 - step retries: attempts counted exactly, bounded, durably scheduled."""
from .handlers import explore
from . import hobl
from .common import handler_preamble


def run(chk):
    ex = explore("step")
    handler_preamble(chk, ex, ["operation.step.StepOperationExecutor.check_result_status", "operation.step.StepOperationExecutor.execute", "operation.step.StepOperationExecutor.retry_handler"])
    hobl.c12_step(chk, ex)

"""C12 - step retries: attempts counted exactly, bounded, durably scheduled."""
from .handlers import explore
from . import hobl
from .common import handler_preamble


def run(chk):
    ex = explore("step")
    handler_preamble(chk, ex, ["operation.step.StepOperationExecutor.check_result_status", "operation.step.StepOperationExecutor.execute", "operation.step.StepOperationExecutor.retry_handler"])
    hobl.c12_step(chk, ex)
    from . import strategies
    chk.assume("A: floats are reals; rate ** k is an uninterpreted power with rate >= 1, k >= 0 => power >= 1; random.random() in [0, 1)")
    strategies.strategy_contract(chk, "C12", "retry")
    strategies.presets(chk, "C12")
    import z3
    n, m = z3.Int("attempt"), z3.Int("max_attempts")
    chk.prove("C12.lemma.retry_count", [n >= 1, z3.Not(n >= m)], n <= m - 1,
              desc="from C12.strategy.cutoff, C12.step.attempt_arg and B1 (attempt n is consulted with n): a RETRY is recorded only for attempt numbers n <= max_attempts - 1, so at most max_attempts - 1 retries and min(failures + 1, max_attempts) runs")

"""C05 - checkpoint stream: nothing lost, duplicated or reordered; limits respected."""
from . import batcher


def run(chk):
    from .common import per_instance_state_of_modules
    per_instance_state_of_modules(chk, "C05.classes.state_is_per_instance", ['state'])   # no object created in a class body: instances share no mutable state through the class
    chk.assume("G: queue.Queue is a linearizable FIFO; hand-over order = order of put on the main queue; any number of producers may put at any time (arrivals havoc at every get/empty)")
    chk.assume("time.time() is an arbitrary non-decreasing real; the stop Event, once set, stays set")
    chk.assume("_calculate_operation_size(q) >= 0 and 0 for empty checkpoints (trusted arithmetic summary of json.dumps length)")
    chk.trust("python semantics of the stated subset as encoded by pyvc (DESIGN 2.3)")
    chk.trust("z3 5.1.0")
    from . import lockset as _L, state_contracts as _S, executor_contracts as _X
    _L.lock_order(chk, "C05.state.lock_order")          # no deadlock between the batcher (merging a response) and a producer (completing a context): every synchronous caller is released
    _S.mark_orphans(chk, "C05")                          # what the producer does under _parent_done_lock (no second lock, terminates)
    _S.create_checkpoint(chk, "C05", want=("C03", "C06", "C10"))
    _X.resubmitter_total(chk, "C05")                     # the timer-driven refresh goes through create_checkpoint and leaves the batcher running
    batcher.check_collect(chk, "C05")
    batcher.size_function_contract(chk, "C05")
    batcher.check_consumer(chk, "C05")
    from . import state_contracts
    state_contracts.completion_event_contract(chk, "C05")   # a released caller sees the failure if there was one
    from . import wrapper_contracts
    wrapper_contracts.client_forwards(chk, "C05")           # the last hop: the service client sends one wire update per update, in order
    bounded_conformance(chk)


def bounded_conformance(chk):
    """BOUNDED stand-in next to the proof: the real _collect_checkpoint_batch run natively over an exhaustive small space against the proved contract"""
    from pyvc.check import native
    n = 5 if chk.tier == "thorough" else 3
    try:
        r = native("batcher_bounded.py", {"max_items": n}, timeout=1200)
    except Exception as e:  # noqa: BLE001
        chk.fault(f"bounded batcher run failed: {e!r}")
        return
    chk.bounded.append({"what": "native _collect_checkpoint_batch vs the proved contract", "bound": r.get("bound"), "cases": r.get("cases"), "failures": r.get("failures")})
    chk.validated += int(r.get("cases", 0)) if r.get("ok") else 0
    ob = chk.obligation("C05.bounded.collect_native_conformance", "BOUNDED: the real method satisfies the proved contract on every small queue / size / limit combination")
    ob.kind = "bounded"
    ob.vcs += 1
    if r.get("ok"):
        ob.discharged += 1
    else:
        ob.refuted.append({"inputs": {"failures": r.get("failures")}, "model": "", "replay_confirmed": True, "replay_output": r})

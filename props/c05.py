"""C05 - checkpoint stream: nothing lost, duplicated or reordered; limits respected."""
from . import batcher


def run(chk):
    chk.assume("G: queue.Queue is a linearizable FIFO; hand-over order = order of put on the main queue; any number of producers may put at any time (arrivals havoc at every get/empty)")
    chk.assume("time.time() is an arbitrary non-decreasing real; the stop Event, once set, stays set")
    chk.assume("_calculate_operation_size(q) >= 0 and 0 for empty checkpoints (trusted arithmetic summary of json.dumps length)")
    chk.trust("python semantics of the stated subset as encoded by pyvc (DESIGN 2.3)")
    chk.trust("z3 5.1.0")
    batcher.check_collect(chk, "C05")
    batcher.check_consumer(chk, "C05")

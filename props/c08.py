"""C08 - operation identity is deterministic, schedule-independent and collision-free."""
from . import context_contracts as CC, executor_contracts as X


def run(chk):
    chk.assume("U: one thread per DurableContext (the counter's own thread safety is C19); branch ids do not use a counter")
    chk.assume("contract of OrderedCounter.increment used at the call site: the k-th increment returns k (C19.counter.sequence)")
    chk.trust("python semantics of the stated subset as encoded by pyvc (DESIGN 2.3)")
    chk.trust("z3 5.1.0 (string theory for the injectivity lemma)")
    CC.id_contracts(chk, "C08")
    from . import c19
    c19.counter_sequence(chk, "C08.ctx.counter_atomic")  # the contract of increment() used above, proved on the real method
    CC.operation_methods(chk, "C08", want=("C08",))
    X.item_in_child_context(chk, "C08")
    X.handlers_dispatch(chk, "C08")
    from . import misc_contracts
    misc_contracts.context_construction(chk, "C08")
    CC.decorators(chk, "C08")   # the name an operation is recorded under when none is given is the ORIGINAL function's name, in every invocation
    # "parent links reported to the backend always name the enclosing context's identifier": every update a handler sends (START, RETRY,
    # SUCCEED, FAIL) carries the id and parent id of the identifier it was constructed with
    from .handlers import explore
    from .common import handler_preamble
    from .c01 import FUNCS
    from . import hobl
    for kind in ("step", "wfc", "child", "wait", "invoke", "callback"):
        ex = explore(kind)
        handler_preamble(chk, ex, FUNCS[kind])
        hobl.ids_passthrough(chk, ex, "C08")

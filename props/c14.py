"""C14 - callbacks and invokes: stable identity, faithful outcome, deferred errors."""
from .handlers import explore
from . import hobl
from .common import handler_preamble
from .c01 import FUNCS


def run(chk):
    from .common import per_instance_state_of_modules
    from .misc_contracts import named_serdes
    named_serdes(chk, "C14")   # pass-through (callback results) and plain JSON (invoke payloads / results): the round trips replay relies on
    per_instance_state_of_modules(chk, "C14.classes.state_is_per_instance", ['context', 'operation.callback', 'operation.invoke', 'state'])   # no object created in a class body: instances share no mutable state through the class
    from . import state_contracts as _S, lockset as _L
    _S.create_checkpoint(chk, "C14", want=("C10",))    # the contract of create_checkpoint that create_callback / invoke rely on: an orphan is refused before anything is queued, no lock is left broken
    _L.lock_discipline(chk, "C14", ["_parent_done", "_parent_to_children", "_completed_contexts"])
    ex = explore("callback")
    handler_preamble(chk, ex, FUNCS["callback"])
    hobl.c14_callback_create(chk, ex)
    hobl.c01_callback_existing(chk, ex, "C14.callback.existing_returns_id")
    ex = explore("callback_result")
    handler_preamble(chk, ex, FUNCS["callback_result"])
    hobl.c14_callback_result(chk, ex)
    ex = explore("invoke")
    handler_preamble(chk, ex, FUNCS["invoke"])
    hobl.c14_invoke(chk, ex)
    hobl.c01_terminal_skips(chk, ex, prefix="C14")
    from . import context_contracts
    context_contracts.wait_for_callback_order(chk, "C14")
    context_contracts.wait_for_callback_method(chk, "C14")
    context_contracts.decorators(chk, "C14")   # a decorated submitter still receives (callback id, context) first
    from . import batcher
    batcher.check_consumer(chk, "C14")  # the callback id / invoke status read after START comes from the merged response: synchronous callers are released only after the merge
    from . import c20
    c20.strict_payload_decode(chk, "C14")   # "returns exactly the delivered payload": the record result() reads is decoded from the wire unchanged ('' stays '')

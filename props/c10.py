"""C10 - nothing is recorded under a context after that context has completed."""
from .handlers import explore
from . import hobl, state_contracts
from .common import handler_preamble
from .c01 import FUNCS


def run(chk):
    from .common import per_instance_state_of_modules
    per_instance_state_of_modules(chk, "C10.classes.state_is_per_instance", ['state', 'concurrency.executor'])   # no object created in a class body: instances share no mutable state through the class
    chk.assume("U/C08: registered parent links are tree shaped (a child id is strictly deeper than its parent: ids encode their path)")
    chk.assume("G: the block under _parent_done_lock is one atomic action")
    state_contracts.mark_orphans(chk, "C10")
    from . import wrapper_contracts
    wrapper_contracts.control_signals_not_exceptions(chk, "C10")
    state_contracts.create_checkpoint(chk, "C10", want=("C10",))
    state_contracts.raise_if_orphaned_contract(chk, "C10")   # the orphan test used by operations that already exist (they send no START)
    state_contracts.merge_all_pages(chk, "C10")            # links of operations that already exist (history, checkpoint responses) are registered too
    from . import lockset
    lockset.lock_order(chk, "C10.state.lock_order")
    lockset.lock_discipline(chk, "C10", ["_parent_done", "_parent_to_children", "_completed_contexts"])   # precondition of G for the orphan bookkeeping
    for kind in ("step", "child", "wfc"):
        ex = explore(kind)
        handler_preamble(chk, ex, FUNCS[kind])
        hobl.c10_orphan_before_user(chk, ex)
        hobl.c10_checked_before_user(chk, ex)
        hobl.orphan_check_stops(chk, ex)
        hobl.failstop(chk, ex, "orphan", "OrphanedChildException", f"C10.{kind}.orphan_stops_handler",
                      "an OrphanedChildException raised by create_checkpoint leaves the handler unchanged: no further update, no user function afterwards")
    from . import executor_contracts
    executor_contracts.on_task_complete(chk, "C10", want=("C10",))
    executor_contracts.execute_structure(chk, "C10")
    executor_contracts.replay_items(chk, "C10")             # on replay no branch body runs (and nothing is recorded) under the completed batch unless its own record is SUCCEEDED
    for kind in ("wait", "invoke", "callback"):
        ex = explore(kind)
        handler_preamble(chk, ex, FUNCS[kind])
        hobl.failstop(chk, ex, "orphan", "OrphanedChildException", f"C10.{kind}.orphan_stops_handler",
                      "an OrphanedChildException raised by create_checkpoint leaves the handler unchanged: no further update afterwards")

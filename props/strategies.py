"""Contracts of the packaged retry / wait strategies (retries.py, waits.py, config.JitterStrategy): cut-off, filters and delay
bounds for every configuration (C12, C13).  Floats are reals; rate**k is an uninterpreted positive power (assumption A)."""
from __future__ import annotations

import z3

from pyvc import ops
from pyvc.engine import Engine, Hooks
from pyvc.ops import F, T, is_none, mk_opt, strip_opt
from pyvc.state import St
from pyvc.values import ClassRef, ExtRef, FuncRef, OpaqueFn, Opt, Ref, Sym, Unsupported, enum_sort, fresh, fresh_name, is_sym, simp, zbool, zint, zreal


class StratHooks(Hooks):
    def ext_call(self, eng, st, name, args, kwargs):
        if name == "random.random":
            r = fresh("real", "random")
            st.assume(z3.And(r.t >= 0, r.t < 1))  # S: random.random() in [0, 1)
            st.emit("random", r=r.t)
            return [("val", r, st)]
        return None

    def opaque_isinstance(self, eng, st, v, d):
        if v.cls == "opaque:re.Pattern":
            return z3.BoolVal(isinstance(d, str) and d.split(".")[-1] == "Pattern")
        return Hooks.opaque_isinstance(self, eng, st, v, d)

    def opaque_call(self, eng, st, fn, args, kwargs):
        if fn.name == "re.Pattern.search":
            pat = st.get(fn.info).get("pattern")
            m = fresh("bool", "regex_match")
            if pat == ".*":
                st.assume(m.t)  # S: '.*' matches every string
            st.emit("search", pattern=pat, m=m.t)
            return [("val", m, st)]
        if fn.name == "should_continue_polling":
            b = fresh("bool", "keep_polling")
            st.emit("keep_polling", b=b.t, arg=args[0])
            return [("val", b, st)]
        return Hooks.opaque_call(self, eng, st, fn, args, kwargs)


def duration(eng, st, name):
    secs = fresh("int", name)
    st.assume(secs.t >= 0)
    return st.alloc(eng.program.cls("config.Duration"), {"seconds": secs}), secs.t


def expected_bounds(jitter_t, J, base, delay, randoms):
    """spec from the statement: the delay follows the configured backoff and jitter - exactly, given the random draw r in [0, 1):
    NONE: max(1, ceil(base)); FULL: max(1, ceil(r * base)); HALF: max(1, ceil(base/2 + r * base/2)), where base is the backoff value ALREADY capped at max_delay"""
    def m1(x):
        c = ops.z_ceil(x)
        return z3.If(c >= 1, c, 1)
    none_case = delay == m1(base)
    if not randoms:
        return z3.And(jitter_t == J["NONE"], none_case)
    r = randoms[0]
    full_case = delay == m1(r * base)
    half_case = delay == m1(base / 2 + r * (base / 2))
    return z3.And(z3.BoolVal(len(randoms) == 1), z3.If(jitter_t == J["HALF"], half_case, z3.And(jitter_t != J["NONE"], full_case)))


def strategy_contract(chk, prefix, which):
    eng = Engine(hooks=StratHooks())
    P = eng.program
    st = St()
    jcls = P.cls("config.JitterStrategy")
    J = enum_sort(jcls)[1]
    init_d, init_s = duration(eng, st, "initial_delay")
    max_d, max_s = duration(eng, st, "max_delay")
    rate = fresh("real", "backoff_rate")
    st.assume(rate.t >= 1)  # precondition: the backoff rate does not shrink the delay
    jitter = fresh("enum", "jitter", jcls)
    max_attempts = fresh("int", "max_attempts")
    n = fresh("int", "attempts_made")
    st.assume(n.t >= 1)
    if which == "retry":
        q = "retries.create_retry_strategy"
        pat = fresh("str", "error_substring")
        errs = mk_opt(z3.Bool("retryable_errors.none"), st.alloc("list", {"__kind__": "list", "items": (pat,)}))
        types = mk_opt(z3.Bool("retryable_error_types.none"), st.alloc("list", {"__kind__": "list", "items": (ExtRef("ValueError"),)}))
        cfg = st.alloc(P.cls("retries.RetryStrategyConfig"), {"max_attempts": max_attempts, "initial_delay": init_d, "max_delay": max_d, "backoff_rate": rate, "jitter_strategy": jitter,
                                                             "retryable_errors": errs, "retryable_error_types": types})
        inner = "retry_strategy"
    else:
        q = "waits.create_wait_strategy"
        cfg = st.alloc(P.cls("waits.WaitStrategyConfig"), {"should_continue_polling": OpaqueFn("should_continue_polling"), "max_attempts": max_attempts, "initial_delay": init_d, "max_delay": max_d,
                                                          "backoff_rate": rate, "jitter_strategy": jitter, "timeout": None})
        inner = "wait_strategy"
    chk.function(q, "verified (closure executed with its captured configuration)")
    chk.function("config.JitterStrategy.apply_jitter", "verified (inlined)")
    made = eng.run(P.func(q), [cfg], st=st)
    if not made or any(m[0] != "val" or not isinstance(m[1], FuncRef) for m in made):
        raise Unsupported(f"{q} no longer returns a plain closure on every path: the strategy contract is stated over the closure it used to return")
    for _, strat, st1 in made:
        # the strategy decides every failure of the step, in this and in later invocations: it must not carry consumable state.  A generator object
        # captured by the closure is consumed by the first decision(s) and empty afterwards.
        one_shot = [n_ for n_, v_ in (strat.closure or {}).items() if isinstance(v_, Ref) and st1.get(v_).get("__gen__")]
        chk.prove(f"{prefix}.strategy.stateless_closure", st1.pc, z3.BoolVal(not one_shot),
                  desc="the strategy function captures no one-shot iterator (generator object): its decision is a function of (error / state, attempts made) and the configuration, the same at every call"
                       + (f"; captured generator(s): {one_shot}" if one_shot else ""))
        _strategy_paths(chk, prefix, which, eng, strat, st1, locals())
    return eng


def _strategy_paths(chk, prefix, which, eng, strat, st1, L):
    n, rate, init_s, max_s, max_attempts, jitter, J, inner = (L[x] for x in ("n", "rate", "init_s", "max_s", "max_attempts", "jitter", "J", "inner"))
    errs, types, pat = L.get("errs"), L.get("types"), L.get("pat")
    err = eng.new_symexc(st1, "step_error")
    arg0 = err if which == "retry" else fresh("any", "state")
    pw = z3.Function("pow", z3.RealSort(), z3.RealSort(), z3.RealSort())
    base = z3.If(z3.ToReal(init_s) * pw(rate.t, z3.ToReal(n.t - 1)) <= z3.ToReal(max_s), z3.ToReal(init_s) * pw(rate.t, z3.ToReal(n.t - 1)), z3.ToReal(max_s))
    for k, v, s in eng.call_value(strat, [arg0, n], {}, st1):
        chk.paths += 1
        if k == "raise":
            chk.prove(f"{prefix}.strategy.total", s.pc, F, desc="the packaged strategy does not raise")
            continue
        d = s.get(v)
        should = d["should_retry" if which == "retry" else "should_wait"]
        should_t = z3.BoolVal(should) if isinstance(should, bool) else zbool(should)
        delay = zint(s.get(d["delay"])["seconds"])
        chk.prove(f"{prefix}.strategy.cutoff", s.pc, z3.Implies(n.t >= max_attempts.t, z3.Not(should_t)), desc="attempts made >= max_attempts => the strategy declines (so at most max_attempts - 1 retries are ever recorded)",
                  sample=f"{inner}(error, n): n >= max_attempts => no retry")
        if which == "retry":
            searches = [e for e in s.trace if e.kind == "search"]
            msg = eng.exc_message(err, s)
            by_msg = z3.If(is_none(errs), z3.And(is_none(types), T), z3.Contains(ops.zstr(msg), pat.t))  # default pattern '.*' only when neither filter is configured
            by_type = z3.And(z3.Not(is_none(types)), eng.symexc_isa(err, "ValueError", s))
            chk.prove(f"{prefix}.strategy.filters", s.pc, should_t == z3.And(n.t < max_attempts.t, z3.Or(by_msg, by_type)),
                      desc="retry iff attempts remain and the error matches a configured message pattern or error type (every error when no filter is configured)")
        else:
            kp = [e.b for e in s.trace if e.kind == "keep_polling"]
            chk.prove(f"{prefix}.strategy.stop_rule", s.pc, z3.And(z3.BoolVal(len(kp) == 1), should_t == z3.And(kp[0], n.t < max_attempts.t)) if kp else F,
                      desc="keep waiting iff the condition function says so and attempts remain")
        rnd = [e.r for e in s.trace if e.kind == "random"]
        ceil_max = z3.If(max_s >= 1, max_s, 1)
        chk.prove(f"{prefix}.strategy.delay_bounds", list(s.pc) + [should_t], z3.And(delay >= 1, delay <= ceil_max, expected_bounds(jitter.t, J, base, delay, rnd)),
                  desc="on retry: 1 <= delay <= max(1, max_delay), and with base = min(initial*rate^(n-1), max_delay) and the random draw r: NONE: max(1, ceil(base)); FULL: max(1, ceil(r*base)); HALF: max(1, ceil(base/2 + r*base/2))",
                  sample=f"{inner}: delay within the backoff/jitter bounds")
    return eng


def presets(chk, prefix="C12"):
    """RetryPresets are instances of the verified strategy: check the instantiation (max_attempts and max delay) on the real constructors"""
    eng = Engine(hooks=StratHooks())
    P = eng.program
    expect = {"none": (1, 300), "default": (6, 60), "transient": (3, 300), "resource_availability": (5, 300), "critical": (10, 60)}
    cls = P.cls("retries.RetryPresets")
    for name, (ma, maxd) in expect.items():
        st = St()
        chk.function(f"retries.RetryPresets.{name}")
        made = eng.run(cls.find_method(name), [ClassRef(cls)], st=st)
        strat, st1 = made[0][1], made[0][2]
        n = fresh("int", "attempts_made")
        st1.assume(n.t >= 1)
        err = eng.new_symexc(st1, "err")
        for k, v, s in eng.call_value(strat, [err, n], {}, st1):
            chk.paths += 1
            if k == "raise":
                chk.prove(f"{prefix}.presets.{name}", s.pc, F, desc="preset strategy does not raise")
                continue
            d = s.get(v)
            should = d["should_retry"]
            should_t = z3.BoolVal(should) if isinstance(should, bool) else zbool(should)
            delay = zint(s.get(d["delay"])["seconds"])
            chk.prove(f"{prefix}.presets.{name}", s.pc, z3.And(z3.Implies(n.t >= ma, z3.Not(should_t)), z3.Implies(should_t, z3.And(delay >= 1, delay <= maxd))),
                      desc=f"RetryPresets.{name}: at most {ma - 1} retries, delays within [1, {maxd}] seconds")
    return eng


def small_factories(chk, prefix):
    """The small value factories the strategies and their callers go through: Duration.from_* (whole seconds, truncated toward zero, never negative
    accepted), WaitForConditionDecision.continue_waiting / stop_polling, WaitDecision.delay_seconds, WaitStrategyConfig.timeout_seconds"""
    eng = Engine()
    P = eng.program
    dur = P.cls("config.Duration")
    for m, factor in (("from_seconds", 1), ("from_minutes", 60), ("from_hours", 3600), ("from_days", 86400)):
        if dur.find_method(m) is None:
            continue
        chk.function(f"config.Duration.{m}")
        st = St()
        v = fresh("int", "amount")
        for k, r, s in eng.run(dur.find_method(m), [ClassRef(dur), v], st=st):
            chk.paths += 1
            if k == "val":
                goal = z3.And(v.t >= 0, zint(s.get(r)["seconds"]) == v.t * factor) if isinstance(r, Ref) else z3.BoolVal(False)
            else:
                goal = v.t < 0          # Duration rejects a negative total
            chk.prove(f"{prefix}.duration.{m}", s.pc, goal, desc=f"Duration.{m}(n) for an integer n >= 0 is n * {factor} seconds; a negative amount is rejected (ValidationError)")
    # the same factories on a FLOAT amount (their parameter is annotated float): the stored total is a whole number of seconds, truncated toward zero
    for m, factor in (("from_seconds", 1), ("from_minutes", 60), ("from_hours", 3600), ("from_days", 86400)):
        if dur.find_method(m) is None:
            continue
        st = St()
        v = fresh("real", "amount")
        st.assume(v.t >= 0)
        for k, r, s in eng.run(dur.find_method(m), [ClassRef(dur), v], st=st):
            chk.paths += 1
            goal = z3.BoolVal(False)
            if k == "val" and isinstance(r, Ref):
                secs = s.get(r)["seconds"]
                goal = z3.And(z3.BoolVal(is_sym(secs, "int") or (isinstance(secs, int) and not isinstance(secs, bool))), zint(secs) == z3.ToInt(v.t * factor)) if (is_sym(secs, "int") or isinstance(secs, int)) else z3.BoolVal(False)
            chk.prove(f"{prefix}.duration.{m}.float_amount", s.pc, goal, desc=f"Duration.{m}(x) for a float x >= 0 stores int(x * {factor}): a whole number of seconds (the delay of a RETRY record and a wait are integers on the wire)")
    dec = P.cls("waits.WaitForConditionDecision")
    st = St()
    d0 = st.alloc(dur, {"seconds": fresh("int", "delay")})
    chk.function("waits.WaitForConditionDecision.continue_waiting")
    for k, r, s in eng.run(dec.find_method("continue_waiting"), [ClassRef(dec), d0], st=st):
        ok = k == "val" and isinstance(r, Ref) and s.get(r)["should_continue"] is True and s.get(r)["delay"] == d0
        chk.prove(f"{prefix}.decision.continue_waiting", s.pc, z3.BoolVal(bool(ok)), desc="continue_waiting(delay): should_continue is True and the delay is the caller's Duration")
    chk.function("waits.WaitForConditionDecision.stop_polling")
    for k, r, s in eng.run(dec.find_method("stop_polling"), [ClassRef(dec)], st=St()):
        ok = k == "val" and isinstance(r, Ref) and s.get(r)["should_continue"] is False
        chk.prove(f"{prefix}.decision.stop_polling", s.pc, z3.BoolVal(bool(ok)), desc="stop_polling(): should_continue is False")
    for cname in ("WaitDecision", "WaitForConditionDecision"):
        c = P.cls("waits." + cname)
        st = St()
        secs = fresh("int", "delay")
        first = "should_wait" if cname == "WaitDecision" else "should_continue"
        obj = st.alloc(c, {first: fresh("bool", first), "delay": st.alloc(dur, {"seconds": secs})})
        chk.function(f"waits.{cname}.delay_seconds")
        for k, r, s in eng.getattr_(obj, "delay_seconds", st):
            chk.prove(f"{prefix}.decision.delay_seconds", s.pc, z3.And(z3.BoolVal(k == "val"), zint(r) == secs.t) if k == "val" else z3.BoolVal(False), desc=f"{cname}.delay_seconds is the decision's delay in seconds")
    wsc = P.cls("waits.WaitStrategyConfig")
    if wsc.find_method("timeout_seconds") is not None:
        chk.function("waits.WaitStrategyConfig.timeout_seconds")
        st = St()
        secs = fresh("int", "timeout")
        none = z3.Bool("timeout.is_none")
        cfg = st.alloc(wsc, {"timeout": mk_opt(none, st.alloc(dur, {"seconds": secs}))})
        for k, r, s in eng.getattr_(cfg, "timeout_seconds", st):
            goal = z3.BoolVal(False)
            if k == "val":
                goal = z3.And(is_none(r) == none, z3.Implies(z3.Not(none), zint(strip_opt(r)) == secs.t)) if r is not None else none
            chk.prove(f"{prefix}.config.timeout_seconds", s.pc, goal, desc="WaitStrategyConfig.timeout_seconds is None without a timeout, else the timeout in seconds")

"""C16 - oversized results stay out of checkpoints and responses yet are fully recovered."""
import ast

from .handlers import explore
from . import hobl
from .common import handler_preamble
from .c01 import FUNCS


def limit_from_source(program):
    m = program.modules["operation.child"]
    r = program.resolve_name(m, "CHECKPOINT_SIZE_LIMIT")
    return eval(compile(ast.Expression(r[1]), "<const>", "eval"), {})


def run(chk):
    ex = explore("child")
    handler_preamble(chk, ex, FUNCS["child"])
    limit = limit_from_source(ex.eng.program)
    chk.notes.append(f"CHECKPOINT_SIZE_LIMIT read from the source: {limit}")
    chk.prove("C16.child.limit_is_256KB", [], limit == 256 * 1024, desc="the checkpoint size limit constant in the source is 256 KB")
    hobl.c16_child_summary(chk, ex, limit)
    hobl.c01_child_summary_retraverses(chk, ex, "C16.child.replay_no_records")
    from . import executor_contracts, wrapper_contracts
    executor_contracts.replay_items(chk, "C16")
    executor_contracts.handlers_dispatch(chk, "C16")
    wrapper_contracts.large_results(chk, "C16")
    executor_contracts.item_in_child_context(chk, "C16")     # a branch is a child context of its own: no batch-level summary generator on it
    from . import context_contracts
    context_contracts.batch_summary_wiring(chk, "C16")
    from . import state_contracts as _S
    _S.raise_if_orphaned_contract(chk, "C16")        # re-traversing a summarised context must not be stopped as 'orphaned' (only descendants of a context completed in THIS invocation are)
    executor_contracts.create_result_items(chk, "C16")       # the rebuilt batch is classified like the first one
    executor_contracts.batch_replay_consistency(chk, "C16")
    from . import batch_accessors
    batch_accessors.summary_generators(chk, "C16")            # the default summary is small whatever the result: counts and enum values only
    from . import c15
    c15.serialized_text_is_ascii(chk, "C16")                  # the 256 KB test counts characters: the default serializer's text is ASCII        # ... it belongs to the child handler of the whole map / parallel

"""Contracts of ExecutionState verified against the real bodies (placeholders are filled in below)."""


def lookup_faithful(chk):
    pass


def merge_all_pages(chk):
    pass


def sync_blocks(chk):
    pass


def consumer(chk, prefix):
    pass

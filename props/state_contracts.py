"""Contracts of ExecutionState verified against the real bodies in state.py:
fetch_paginated_operations, get_checkpoint_result, _mark_orphans, create_checkpoint; the batcher is in batcher.py."""
from __future__ import annotations

import z3

from pyvc import ops
from pyvc.engine import Engine, Hooks
from pyvc.loader import ClassInfo
from pyvc.loops import LoopContract
from pyvc.ops import F, T, is_none, mk_opt, strip_opt
from pyvc.state import St
from pyvc.values import ClassRef, OpaqueFn, Opt, Ref, Sym, Unsupported, enum_sort, fresh, fresh_name, is_sym, simp, zbool, zstr

from . import batcher
from .setmodel import SEQ, SS, SeqModel, SetModel, arr_of, new_zmapset, new_zseq, new_zset, op_id, op_par, op_par_none, opelem_attr, rel

FETCH = "state.ExecutionState.fetch_paginated_operations"
MARK = "state.ExecutionState._mark_orphans"
CREATE = "state.ExecutionState.create_checkpoint"


def consumer(chk, prefix):
    batcher.check_consumer(chk, prefix)


def rest_of_state(eng, st, given):
    """every field the real ExecutionState has that `given` does not model, as the kind of object the StateHooks understand (locks as opaque locks,
    the operations map as the opaque map answered by st.ghost['stored_op'], sets as symbolic sets, flags as opaque events): a contract's symbolic
    state then covers code that starts reading a field the contract did not need before"""
    P = eng.program
    out = dict(given)
    dflt = {
        "_operations_lock": lambda: st.alloc("opaque:Lock", {}), "_parent_done_lock": lambda: st.alloc("opaque:Lock", {}), "_replay_status_lock": lambda: st.alloc("opaque:Lock", {}),
        "_ordered_checkpoint_lock": lambda: st.alloc("opaque:OrderedLockObj", {}), "operations": lambda: st.alloc("opaque:OpsMap", {}),
        "_checkpointing_failed": lambda: st.alloc("opaque:FailedEvent", {}), "_checkpointing_stopped": lambda: st.alloc("opaque:StoppedEvent", {}),
        "_checkpoint_queue": lambda: st.alloc("opaque:Queue", {}), "_overflow_queue": lambda: st.alloc("opaque:OverflowQueue", {}),
        "durable_execution_arn": lambda: fresh("str", "arn"), "_current_checkpoint_token": lambda: fresh("str", "token"), "_service_client": lambda: st.alloc("opaque:DurableServiceClient", {}),
        # sets / maps this contract has no model for: present (so reading the field is not an artefact), but any USE of them is outside the contract
        "_batcher_config": lambda: st.alloc("opaque:BatcherConfig", {}), "_parent_done": lambda: st.alloc("opaque:Unmodelled", {}), "_completed_contexts": lambda: st.alloc("opaque:Unmodelled", {}),
        "_visited_operations": lambda: st.alloc("opaque:Unmodelled", {}), "_parent_to_children": lambda: st.alloc("opaque:Unmodelled", {}),
        "_replay_status": lambda: fresh("enum", "replay_status", P.cls("state.ReplayStatus")),
    }
    for f_, mk in dflt.items():
        if f_ not in out:
            out[f_] = mk()
    return out


class StateHooks(Hooks):
    def cm_enter(self, eng, st, cm):
        if isinstance(cm, Ref) and cm.cls == "opaque:Lock":
            st.emit("lock_enter", lock=cm)
            return [("val", cm, st)]
        if isinstance(cm, Ref) and cm.cls == "opaque:OrderedLockObj":
            # contract of OrderedLock.__enter__ (C19): returns once the caller owns the lock
            st.emit("ordered_lock_enter", lock=cm)
            return [("val", cm, st)]
        return Hooks.cm_enter(self, eng, st, cm)

    def cm_exit(self, eng, st, cm, exc):
        if isinstance(cm, Ref) and cm.cls == "opaque:Lock":
            st.emit("lock_exit", lock=cm)
            return [("val", None, st)]
        if isinstance(cm, Ref) and cm.cls == "opaque:OrderedLockObj":
            # contract of OrderedLock.__exit__ (C19.exit.breaks): leaving the block with an exception BREAKS the lock for every later caller
            st.emit("ordered_lock_exit", lock=cm, broken=exc is not None)
            return [("val", None, st)]
        return Hooks.cm_exit(self, eng, st, cm, exc)

    def opaque_attr(self, eng, st, ref, name):
        v = opelem_attr(st, ref, name)
        if v is not None:
            return [("val", v, st)]
        return Hooks.opaque_attr(self, eng, st, ref, name)

    def opaque_call(self, eng, st, fn, args, kwargs):
        n = fn.name
        if n == "DurableServiceClient.get_execution_state":
            st.emit("get_state", kwargs=dict(kwargs), args=tuple(args))
            s2 = st.fork()
            exc = eng.new_symexc(s2, "get_state")
            page = new_zseq(st, name="page")
            out = st.alloc("opaque:StateOutput", {"operations": page, "next_marker": eng.sym_of_type("str | None", "page_marker", st)})
            st.ghost["pages"] = z3.Concat(st.ghost["pages"], st.get(page)["seq"])
            st.ghost["marker"] = st.get(out)["next_marker"]
            st.ghost["calls"] = st.ghost.get("calls", 0) + 1
            return [("val", out, st), ("raise", exc, s2)]
        if n == "OpsMap.update":
            st.emit("ops_update", arg=args[0])
            return [("val", None, st)]
        if n.startswith("Unmodelled."):
            raise Unsupported(f"use of a field of ExecutionState that this contract does not model ({n})")
        if n == "OpsMap.get":
            st.emit("ops_get", key=args[0])
            if "stored_op" not in st.ghost:
                # the contract did not fix what the map holds: an arbitrary record, or none
                st.ghost["stored_op"] = mk_opt(z3.Bool(fresh_name("stored_op.absent")), eng.sym_of_type("Operation", "stored_op", st, eng.program.modules["lambda_service"]))
            return [("val", st.ghost["stored_op"], st)]
        if n == "Queue.put":
            st.emit("put", item=args[0])
            return [("val", None, st)]
        if n == "FailedEvent.is_set":
            b = fresh("bool", "failed_is_set")
            prev = st.ghost.get("failed_seen")
            if prev is not None:
                st.assume(z3.Implies(prev, b.t))  # the flag is never cleared
            st.ghost["failed_seen"] = b.t
            st.emit("failed_check", b=b.t)
            return [("val", b, st)]
        if n == "FailedEvent.wait":
            # contract of CompletionEvent.wait on an event that is set with an error (the consumer only ever sets it with one): raises it
            exc = st.alloc(eng.program.cls("exceptions.BackgroundThreadError"), {"args": ("stored",), "source_exception": eng.new_symexc(st, "src")})
            st.emit("failed_wait", exc=exc)
            return [("raise", exc, st)]
        if n == "StoppedEvent.is_set":
            b = fresh("bool", "stopped_is_set")
            st.emit("stopped_check", b=b.t)
            return [("val", b, st)]
        if n == "CompletionEventObj.is_set":
            b = fresh("bool", "completion_is_set")
            st.emit("completion_is_set", b=b.t)
            return [("val", b, st)]
        if n == "CompletionEventObj.wait":
            # contract of CompletionEvent.wait(timeout) (C03.event.contract.wait): without a timeout it returns only once the event is set;
            # with one it may also return False with the event still unset
            timeout = args[0] if args else kwargs.get("timeout")
            was_set = T if timeout is None else fresh("bool", "event_was_set").t
            st.emit("wait", ev=fn.info, was_set=was_set)
            s2 = st.fork()
            exc = s2.alloc(eng.program.cls("exceptions.BackgroundThreadError"), {"args": ("bg",), "source_exception": eng.new_symexc(s2, "src")})
            s2.emit("wait_raised", exc=exc)
            s2.assume(was_set)
            return [("val", True if timeout is None else Sym("bool", was_set), st), ("raise", exc, s2)]
        return Hooks.opaque_call(self, eng, st, fn, args, kwargs)


# ------------------------------------------------------------------------------------------------ fetch_paginated_operations
def _replay_history_orphan(inputs):
    from pyvc.check import native
    r_ = native("replay_orphan_replay.py", {})
    if not r_.get("confirmed"):
        r2 = native("replay_orphan_replay.py", {"paginated": True})   # same history, branch records on a later page
        r2["scenario"] = "history paginated: the branch records arrive with get_execution_state"
        return bool(r2.get("confirmed")), r2
    return True, r_


def merge_all_pages(chk, prefix="C01"):
    done = getattr(chk, "_listed", None)
    if done is None:
        done = chk._listed = set()
    if "merge_run" in done:
        return None
    done.add("merge_run")
    done.add("merge")
    eng = Engine(hooks=StateHooks())
    eng.container_models["zseq"] = SeqModel()
    eng.container_models["zset"] = eng.container_models["zsetview"] = eng.container_models["zmapset"] = SetModel()
    st = St()
    P = eng.program
    chk.function(FETCH, "verified (loop invariant over the page chain; per-element registration loop by generic element)")
    init = new_zseq(st, name="init_ops")
    ptc = new_zmapset(st, "ptc")
    ptc0 = dict(st.get(ptc))
    self_ = st.alloc(P.cls("state.ExecutionState"), {"durable_execution_arn": fresh("str", "arn"), "_service_client": st.alloc("opaque:DurableServiceClient", {}),
                                                    "_operations_lock": st.alloc("opaque:Lock", {}), "operations": st.alloc("opaque:OpsMap", {}),
                                                    "_parent_done_lock": st.alloc("opaque:Lock", {}), "_parent_to_children": ptc})
    st.put(self_, rest_of_state(eng, st, st.get(self_)))

    def register_loop(eng_, node, s):
        """`for op in all_operations:` registering parent links - per-element loop: the body is executed once on a generic element against a
        scratch copy of the map; its effect must be exactly `register (op.parent_id, op.operation_id) when the parent id is truthy`; the
        quantified effect over the whole list is then applied"""
        def f(it, s0):
            stor_it = s0.get(it) if isinstance(it, Ref) else {}
            if stor_it.get("__kind__") == "zseq":
                seq = stor_it["seq"]
            elif stor_it.get("__kind__") == "list" and not stor_it.get("items"):
                seq = z3.Empty(SEQ)
            else:
                raise Unsupported(f"registration loop over {it!r}")
            j = z3.Int(fresh_name("j"))
            sb = s0.fork()
            elem = sb.alloc("opaque:OpElem", {"idx": Sym("int", j)})
            before = dict(sb.get(ptc))
            ok_paths = 0
            for s1 in eng_.assign(node.target, elem, sb):
                for k2, v2, s2 in eng_.exec_block(node.body, s1):
                    after = s2.get(ptc)
                    truthy = z3.And(z3.Not(op_par_none(j)), z3.Length(op_par(j)) > 0)
                    p_, c_ = z3.String(fresh_name("p")), z3.String(fresh_name("c"))
                    r_before = z3.And(z3.Select(before["has"], p_), z3.Select(z3.Select(before["sets"], p_), c_))
                    r_after = z3.And(z3.Select(after["has"], p_), z3.Select(z3.Select(after["sets"], p_), c_))
                    goal = z3.And(z3.BoolVal(k2 in ("fall", "continue")), z3.ForAll([p_, c_], r_after == z3.Or(r_before, z3.And(truthy, p_ == op_par(j), c_ == op_id(j)))))
                    chk.prove(f"{prefix}.state.history_links_registered.body", s2.pc, goal, desc="one iteration registers exactly the element's (parent id, operation id) link, when it has a parent")
                    ok_paths += 1
            # effect of the whole loop (generic element => every element)
            m0 = s0.get(ptc)
            has2 = z3.Array(fresh_name("ptc.has"), SS, z3.BoolSort())
            sets2 = z3.Array(fresh_name("ptc.sets"), SS, z3.ArraySort(SS, z3.BoolSort()))
            p_, c_, i_ = z3.String(fresh_name("p")), z3.String(fresh_name("c")), z3.Int(fresh_name("i"))
            r0 = z3.And(z3.Select(m0["has"], p_), z3.Select(z3.Select(m0["sets"], p_), c_))
            r2 = z3.And(z3.Select(has2, p_), z3.Select(z3.Select(sets2, p_), c_))
            # post-state of the loop, over-approximated to what follows from the per-iteration effect by induction: nothing is removed,
            # and the link of every element with a parent is present (whether anything ELSE was added is left open)
            s0.assume(z3.ForAll([p_, c_], z3.Implies(r0, r2)))
            e_par, e_id = op_par(seq[i_]), op_id(seq[i_])
            s0.assume(z3.ForAll([i_], z3.Implies(z3.And(i_ >= 0, i_ < z3.Length(seq), z3.Not(op_par_none(seq[i_])), z3.Length(e_par) > 0),
                                                 z3.And(z3.Select(has2, e_par), z3.Select(z3.Select(sets2, e_par), e_id)))))
            s0.put(ptc, dict(m0, has=has2, sets=sets2))
            s0.emit("links_registered", seq=seq)
            return [("fall", None, s0)]
        return eng_.lift(eng_.ev(node.iter, s), f)
    eng.loop_handlers[(FETCH, "for", 0)] = register_loop
    token = fresh("str", "token")
    marker0 = eng.sym_of_type("str | None", "marker0", st)
    st.ghost["pages"] = z3.Empty(SEQ)
    st.ghost["marker"] = marker0
    init_seq = st.get(init)["seq"]

    def abstract(eng_, st_):
        a = st_.env.get("all_operations")
        if isinstance(a, Ref) and st_.get(a).get("__kind__") == "list":
            st_.env["all_operations"] = new_zseq(st_, z3.Empty(SEQ))
            st_.ghost["init_empty"] = True

    def inv(eng_, st_):
        a = st_.get(st_.env["all_operations"])["seq"]
        base = init_seq if not st_.ghost.get("init_empty") else z3.Empty(SEQ)
        return z3.And(a == z3.Concat(base, st_.ghost["pages"]), ops.values_equal(st_, st_.env["next_marker"], st_.ghost["marker"]))

    def havoc(eng_, st_):
        st_.env["all_operations"] = new_zseq(st_, name="all_ops")
        st_.ghost["pages"] = z3.Const(fresh_name("pages"), SEQ)
        m = eng_.sym_of_type("str | None", "marker", st_)
        st_.env["next_marker"] = m
        st_.ghost["marker"] = m
        st_.ghost["iter_start"] = len(st_.trace)
        st_.env.pop("output", None)

    def on_step(eng_, s):
        calls = [e for e in s.trace[s.ghost["iter_start"]:] if e.kind == "get_state"]
        ok = len(calls) == 1
        goal = z3.BoolVal(ok)
        if ok:
            kw = calls[0].kwargs
            goal = z3.And(ops.values_equal(s, kw.get("next_marker"), s.ghost["marker_at_call"]) if "marker_at_call" in s.ghost else T,
                          ops.values_equal(s, kw.get("checkpoint_token"), token), ops.values_equal(s, kw.get("durable_execution_arn"), s.get(self_)["durable_execution_arn"]))
        chk.prove(f"{prefix}.state.merge_all_pages.chain", s.pc, goal, desc="each page is requested exactly once with the marker returned by the previous page, the caller's token and the execution ARN")

    def havoc2(eng_, st_):
        havoc(eng_, st_)
        st_.ghost["marker_at_call"] = st_.ghost["marker"]

    eng.loop_handlers[(FETCH, "while", 0)] = LoopContract(chk, f"{prefix}.state.merge_all_pages.loop", inv, havoc2, abstract=abstract, on_step=on_step,
                                                          desc="all_operations == initial operations ++ all pages fetched so far; next_marker is the marker of the last page")
    fi = P.func(FETCH)
    res = eng.run(fi, [self_, init, token, marker0], st=st)
    chk.paths += len(res)
    normal = 0
    for k, v, s in res:
        if k == "raise":
            # only a failing service call may raise; then nothing was merged partially
            upd = [e for e in s.trace if e.kind == "ops_update"]
            chk.prove(f"{prefix}.state.merge_all_pages.raise_only_from_client", s.pc, isinstance(v, Ref) and v.cls == "symexc" and not upd, desc="the only exception is the service client's own; no partial merge happens before it")
            continue
        normal += 1
        upd = [e for e in s.trace if e.kind == "ops_update"]
        ok = len(upd) == 1
        goal = z3.BoolVal(ok)
        if ok:
            arg = upd[0].arg
            stor = s.get(arg) if isinstance(arg, Ref) else {}
            if stor.get("__kind__") == "seqdict":
                whole = z3.Concat(init_seq, s.ghost["pages"])
                goal = z3.And(z3.BoolVal(stor["key_is_operation_id"] and stor["value_is_element"]), z3.Or(stor["seq"] == whole, z3.And(z3.Length(init_seq) == 0, stor["seq"] == s.ghost["pages"])),
                              z3.Not(ops.truth(s, s.ghost["marker"])))
            elif stor.get("__kind__") == "dict" and not stor["e"]:
                goal = z3.And(z3.Length(init_seq) == 0, z3.Length(s.ghost["pages"]) == 0, z3.Not(ops.truth(s, s.ghost["marker"])))
            else:
                goal = F
        # C10: the parent link of every merged operation is known to the orphan bookkeeping
        whole_seq = z3.Concat(init_seq, s.ghost["pages"])
        i_ = z3.Int(fresh_name("i"))
        m_now = s.get(ptc)
        link = z3.And(z3.Select(m_now["has"], op_par(whole_seq[i_])), z3.Select(z3.Select(m_now["sets"], op_par(whole_seq[i_])), op_id(whole_seq[i_])))
        kept_p, kept_c = z3.String(fresh_name("p")), z3.String(fresh_name("c"))
        kept = z3.ForAll([kept_p, kept_c], z3.Implies(z3.And(z3.Select(ptc0["has"], kept_p), z3.Select(z3.Select(ptc0["sets"], kept_p), kept_c)), z3.And(z3.Select(m_now["has"], kept_p), z3.Select(z3.Select(m_now["sets"], kept_p), kept_c))))
        chk.prove(f"{prefix}.state.history_links_registered", s.pc,
                  z3.And(kept, z3.ForAll([i_], z3.Implies(z3.And(i_ >= 0, i_ < z3.Length(whole_seq), z3.Not(op_par_none(whole_seq[i_])), z3.Length(op_par(whole_seq[i_])) > 0), link))),
                  desc="after the history (or a checkpoint response) was merged, the (parent id, operation id) link of EVERY merged operation is registered for orphan marking - operations that already exist send no START in this invocation, so this is the only place their links become known; no registered link is lost",
                  sample="fetch_paginated_operations exit: forall merged op with a parent: R(parent, id)", replay=_replay_history_orphan,
                  describe=lambda m: {"history": "re-invocation: STARTED parallel with two STARTED branches (no START is re-sent); min_successful=1; the slow branch issues a step after the parallel's SUCCEED"})
        chk.prove(f"{prefix}.state.merge_all_pages.all_pages", s.pc, goal,
                  desc="on return, operations was updated once with {op.operation_id: op} over initial operations ++ every page of the chain (later occurrences win, S: dict), and the chain ended with a falsy marker",
                  sample="fetch_paginated_operations exit: update source == init ++ pages, marker falsy")
    if not normal:
        # cover obligation: the exit contracts above are vacuous if the function never returns
        chk.prove(f"{prefix}.state.merge_all_pages.all_pages", [], F, desc="reachability: fetch_paginated_operations returns normally on some path")
    return eng


# ------------------------------------------------------------------------------------------------ get_checkpoint_result
def lookup_faithful(chk, prefix="C01"):
    eng = Engine(hooks=StateHooks())
    P = eng.program
    st = St()
    chk.function("state.ExecutionState.get_checkpoint_result", "verified")
    op = eng.sym_of_type("Operation", "stored", st, P.modules["lambda_service"])
    present = z3.Bool("stored.present")
    st.ghost["stored_op"] = mk_opt(z3.Not(present), op)
    self_ = st.alloc(P.cls("state.ExecutionState"), {"_operations_lock": st.alloc("opaque:Lock", {}), "operations": st.alloc("opaque:OpsMap", {})})
    key = fresh("str", "checkpoint_id")
    res = eng.run(P.func("state.ExecutionState.get_checkpoint_result"), [self_, key], st=st)
    chk.paths += len(res)
    tcls = P.cls("lambda_service.OperationType")
    DET = {"STEP": "step_details", "CALLBACK": "callback_details", "CHAINED_INVOKE": "chained_invoke_details", "CONTEXT": "context_details"}
    for k, v, s in res:
        gets = [e for e in s.trace if e.kind == "ops_get"]
        ok = k == "val" and len(gets) == 1 and isinstance(v, Ref) and getattr(v.cls, "name", "") == "CheckpointedResult"
        goal = z3.BoolVal(ok)
        if ok:
            r = s.get(v)
            goal = z3.And(goal, ops.values_equal(s, gets[0].key, key))
            so = s.get(op)
            found = z3.And(z3.Not(is_none(r["operation"])), z3.BoolVal(strip_opt(r["operation"]) == op), ops.values_equal(s, r["status"], so["status"]))
            parts = []
            for tname, dname in DET.items():
                d = so[dname]
                dd = strip_opt(d)
                for fld in ("result", "error"):
                    exp_none = z3.Or(is_none(d), is_none(s.get(dd)[fld])) if dd is not None else T
                    got = r[fld]
                    same = z3.If(exp_none, is_none(got), z3.And(z3.Not(is_none(got)), ops.values_equal(s, strip_opt(got), strip_opt(s.get(dd)[fld])) if dd is not None and strip_opt(got) is not None and strip_opt(s.get(dd)[fld]) is not None else F))
                    parts.append(z3.Implies(so["operation_type"].t == enum_sort(tcls)[1][tname], same))
            others = z3.And([so["operation_type"].t != enum_sort(tcls)[1][t] for t in DET])
            parts.append(z3.Implies(others, z3.And(is_none(r["result"]), is_none(r["error"]))))
            notfound = z3.And(is_none(r["operation"]), is_none(r["status"]), is_none(r["result"]), is_none(r["error"]))
            goal = z3.And(goal, z3.If(present, z3.And(found, z3.And(parts)), notfound))
        chk.prove(f"{prefix}.state.lookup_faithful", s.pc, goal,
                  desc="get_checkpoint_result(id) looks up exactly id; a stored operation yields (operation, its status, result/error of the details object selected by its type); otherwise the not-found result; no effect",
                  sample="get_checkpoint_result over an arbitrary stored Operation")
    return eng


# ------------------------------------------------------------------------------------------------ _mark_orphans
def mark_orphans_post(st, mref, done, done2, ctx):
    """contract of _mark_orphans(ctx): M1 nothing removed, M2 children of ctx marked, M3 marked set closed under children, M4 ctx itself unchanged"""
    p, c = z3.String(fresh_name("p")), z3.String(fresh_name("c"))
    return {
        "M1_monotone": z3.ForAll([c], z3.Implies(z3.Select(done, c), z3.Select(done2, c))),
        "M2_children": z3.ForAll([c], z3.Implies(z3.And(rel(st, mref, ctx, c), c != ctx), z3.Select(done2, c))),
        "M3_closed": z3.ForAll([p, c], z3.Implies(z3.And(z3.Select(done2, p), z3.Not(z3.Select(done, p)), rel(st, mref, p, c), c != ctx), z3.Select(done2, c))),
        "M4_self": z3.Select(done2, ctx) == z3.Select(done, ctx),
        "M6_deeper": z3.ForAll([c], z3.Implies(z3.And(z3.Select(done2, c), z3.Not(z3.Select(done, c))), RANK(c) > RANK(ctx))),
    }


RANK = z3.Function("depth", SS, z3.IntSort())  # depth of an operation id in the operation tree (ids encode their path: C08)


def tree_shaped(st, mref):
    """well-formedness of the registered parent links: a child is strictly deeper than its parent (no cycles)"""
    p, c = z3.String(fresh_name("p")), z3.String(fresh_name("c"))
    return z3.ForAll([p, c], z3.Implies(rel(st, mref, p, c), RANK(p) < RANK(c)))


def mark_orphans(chk, prefix="C10"):
    eng = Engine(hooks=StateHooks())
    eng.container_models["zset"] = eng.container_models["zsetview"] = eng.container_models["zmapset"] = SetModel()
    P = eng.program
    st = St()
    chk.function(MARK, "verified (BFS loop invariant)")
    m = new_zmapset(st, "ptc")
    done = new_zset(st, name="parent_done")
    done0 = st.get(done)["arr"]
    self_ = st.alloc(P.cls("state.ExecutionState"), {"_parent_to_children": m, "_parent_done": done})
    ctx = fresh("str", "context_id")
    st.assume(tree_shaped(st, m))

    def abstract(eng_, st_):
        for v in ("all_descendants", "to_process"):
            r = st_.env[v]
            if st_.get(r).get("__kind__") == "set":
                st_.env[v] = new_zset(st_, arr_of(st_, r))

    # termination: U = the ids that can ever be collected (the context and every registered child); finitely many (S: the registered links are a
    # finite relation).  card is the cardinality of finite sets, used only through the ground facts stated in on_step.
    SETS = z3.ArraySort(SS, z3.BoolSort())
    card = z3.Function("card", SETS, z3.IntSort())
    U = z3.Array("collectable_ids", SS, z3.BoolSort())
    N = z3.Int("number_of_collectable_ids")
    pu, cu = z3.String("p!U"), z3.String("c!U")
    st.assume(z3.And(z3.Select(U, ctx.t), z3.ForAll([pu, cu], z3.Implies(rel(st, m, pu, cu), z3.Select(U, cu))), N >= 0))

    def inv(eng_, st_):
        D, Pn = arr_of(st_, st_.env["all_descendants"]), arr_of(st_, st_.env["to_process"])
        p, c = z3.String(fresh_name("p")), z3.String(fresh_name("c"))
        return z3.And(z3.ForAll([p, c], z3.Implies(z3.And(z3.Select(D, p), rel(st_, m, p, c)), z3.Or(z3.Select(D, c), z3.Select(Pn, c)))),
                      z3.Or(z3.Select(D, ctx.t), z3.Select(Pn, ctx.t)), arr_of(st_, done) == done0,
                      z3.ForAll([c], z3.Implies(z3.And(z3.Or(z3.Select(D, c), z3.Select(Pn, c)), c != ctx.t), RANK(c) > RANK(ctx.t))),
                      z3.ForAll([c], z3.Implies(z3.Or(z3.Select(D, c), z3.Select(Pn, c)), z3.Select(U, c))))

    def havoc(eng_, st_):
        st_.env["all_descendants"] = new_zset(st_, name="D")
        st_.env["to_process"] = new_zset(st_, name="P")
        for v in ("current_id", "direct_children"):
            st_.env.pop(v, None)
        st_.ghost["mark_head"] = (arr_of(st_, st_.env["all_descendants"]), arr_of(st_, st_.env["to_process"]))

    def variant(eng_, st_):
        D, Pn = arr_of(st_, st_.env["all_descendants"]), arr_of(st_, st_.env["to_process"])
        return (N - card(D), card(Pn))

    def on_step(eng_, s2):
        """S (finite sets), as ground facts about the sets of THIS iteration: |S| >= 0; adding a new element adds one, removing a present element
        removes one; a subset of the collectable ids has at most N elements"""
        D0, P0 = s2.ghost["mark_head"]
        D2, P2 = arr_of(s2, s2.env["all_descendants"]), arr_of(s2, s2.env["to_process"])
        x = zstr(s2.env["current_id"])
        c = z3.String(fresh_name("c"))
        grown, popped = z3.Store(D0, x, True), z3.Store(P0, x, False)
        s2.assume(z3.And(card(D0) >= 0, card(P0) >= 0, card(D2) >= 0, card(P2) >= 0, card(grown) >= 0, card(popped) >= 0,
                         z3.Implies(z3.Not(z3.Select(D0, x)), card(grown) == card(D0) + 1),
                         z3.Implies(z3.Select(P0, x), card(popped) == card(P0) - 1),
                         z3.Implies(z3.ForAll([c], z3.Implies(z3.Select(grown, c), z3.Select(U, c))), card(grown) <= N),
                         z3.Implies(z3.ForAll([c], z3.Implies(z3.Select(D0, c), z3.Select(U, c))), card(D0) <= N)))

    eng.loop_handlers[(MARK, "while", 0)] = LoopContract(chk, f"{prefix}.state.closure.loop", inv, havoc, abstract=abstract, on_step=on_step, variant=variant,
                                                         variant_desc="lexicographic: (collectable ids not yet collected, ids waiting to be processed)",
                                                         desc="every registered child of a collected id is collected or still to be processed; the context itself is collected or to be processed")
    res = eng.run(P.func(MARK), [self_, ctx], st=st)
    chk.paths += len(res)
    for k, v, s in res:
        if k == "raise":
            chk.prove(f"{prefix}.state.closure.total", s.pc, F, desc="_mark_orphans does not raise")
            continue
        for name, goal in mark_orphans_post(s, m, done0, arr_of(s, done), ctx.t).items():
            chk.prove(f"{prefix}.state.closure.{name}", s.pc, goal, desc="contract of _mark_orphans (used at its call site in create_checkpoint)", sample=f"_mark_orphans exit: {name}")
    return eng


# ------------------------------------------------------------------------------------------------ create_checkpoint
def create_checkpoint(chk, prefix, want):
    eng = Engine(hooks=StateHooks())
    eng.container_models["zset"] = eng.container_models["zsetview"] = eng.container_models["zmapset"] = SetModel()
    P = eng.program
    st = St()
    chk.function(CREATE, "verified")
    chk.function(MARK, "contract used at the call site (verified in C10.state.closure.*)")
    m = new_zmapset(st, "ptc")
    done = new_zset(st, name="parent_done")
    completed = z3.Array("completed_contexts", SS, z3.BoolSort())  # ghost: contexts whose SUCCEED/FAIL was handed over
    cc0 = z3.Array("state_completed_contexts", SS, z3.BoolSort())
    comp_set = new_zset(st, cc0, name="completed")
    # every field the real __init__ creates exists (a field this contract has no model for is an opaque object: reading it is possible, what it returns is arbitrary)
    self_ = st.alloc(P.cls("state.ExecutionState"), {"_parent_to_children": m, "_parent_done": done, "_completed_contexts": comp_set, "_parent_done_lock": st.alloc("opaque:Lock", {}),
                                                    "_checkpointing_failed": st.alloc("opaque:FailedEvent", {}), "_checkpoint_queue": st.alloc("opaque:Queue", {}),
                                                    "_checkpointing_stopped": st.alloc("opaque:StoppedEvent", {}), "_overflow_queue": st.alloc("opaque:OverflowQueue", {}),
                                                    "_operations_lock": st.alloc("opaque:Lock", {}), "_replay_status_lock": st.alloc("opaque:Lock", {}), "_ordered_checkpoint_lock": st.alloc("opaque:OrderedLockObj", {}),
                                                    "durable_execution_arn": fresh("str", "arn"), "_current_checkpoint_token": fresh("str", "token"), "_service_client": st.alloc("opaque:ServiceClient", {}),
                                                    "_batcher_config": st.alloc("opaque:BatcherConfig", {})})
    st.put(self_, rest_of_state(eng, st, st.get(self_)))
    upd0 = eng.sym_of_type("OperationUpdate", "u", st, P.modules["lambda_service"])
    upd = mk_opt(z3.Bool("u.is_none"), upd0)
    is_sync = fresh("bool", "is_sync")
    u = st.get(upd0)
    uid = u["operation_id"].t
    par = u["parent_id"]
    par_t = strip_opt(par).t
    par_truthy = ops.truth(st, par)
    done0 = st.get(done)["arr"]
    m0 = dict(st.get(m))

    def R0(p, c):
        return z3.And(z3.Select(m0["has"], p), z3.Select(z3.Select(m0["sets"], p), c))
    p_, c_ = z3.String("p!inv"), z3.String("c!inv")
    I2 = z3.ForAll([p_, c_], z3.Implies(z3.And(R0(p_, c_), z3.Or(z3.Select(done0, p_), z3.Select(completed, p_))), z3.Select(done0, c_)))
    st.assume(tree_shaped(st, m))
    st.assume(z3.Implies(par_truthy, RANK(par_t) < RANK(uid)))  # U/C08: the parent of an operation is strictly shallower
    st.assume(I2)  # data-structure invariant assumed on entry, re-established on exit (C10.state.invariant)
    x0 = z3.String("x!inv")
    st.assume(z3.ForAll([x0], z3.And(z3.Implies(z3.Select(completed, x0), z3.Select(cc0, x0)), z3.Implies(z3.And(z3.Select(cc0, x0), z3.Not(z3.Select(completed, x0))), z3.Select(done0, x0)))))

    def mark_summary(eng_, st_, args, kwargs):
        ctx = zstr(args[1])
        d1 = arr_of(st_, done)
        d2 = z3.Array(fresh_name("done2"), SS, z3.BoolSort())
        for goal in mark_orphans_post(st_, m, d1, d2, ctx).values():
            st_.assume(goal)
        st_.put(done, dict(st_.get(done), arr=d2))
        st_.emit("mark_orphans", ctx=ctx)
        return [("val", None, st_)]
    eng.summaries[MARK] = mark_summary
    eng.summaries["threading.CompletionEvent.__init__"] = None
    del eng.summaries["threading.CompletionEvent.__init__"]
    ce_cls = P.cls("threading.CompletionEvent")

    orig_construct = eng.construct

    def construct(cls, args, kwargs, st_):
        if cls is ce_cls:
            ev = st_.alloc("opaque:CompletionEventObj", {})
            st_.emit("new_event", ev=ev)
            return [("val", ev, st_)]
        return orig_construct(cls, args, kwargs, st_)
    eng.construct = construct

    # create_checkpoint has no loop; if one appears (e.g. a polling wait) there is no sidecar invariant for it: it is unrolled twice and the
    # longer paths are cut - a violation found on an explored path is real (and replayable), the cut paths make the rest undecided
    eng.unroll_bound, eng.allow_cut = 2, True
    res = eng.run(P.func(CREATE), [self_, upd, is_sync], st=st)
    if eng.stats.get("cut_paths"):
        chk.undecide(f"{prefix}.state.create_checkpoint: a loop without invariant was unrolled twice; {eng.stats['cut_paths']} longer path(s) were not explored")
    chk.paths += len(res)
    tcls, acls = P.cls("lambda_service.OperationType"), P.cls("lambda_service.OperationAction")
    is_ctx_done = z3.And(u["operation_type"].t == enum_sort(tcls)[1]["CONTEXT"], z3.Or(u["action"].t == enum_sort(acls)[1]["SUCCEED"], u["action"].t == enum_sort(acls)[1]["FAIL"]))
    for k, v, s in res:
        puts = [e for e in s.trace if e.kind == "put"]
        waits = [e for e in s.trace if e.kind == "wait"]
        news = [e for e in s.trace if e.kind == "new_event"]
        orphan = k == "raise" and isinstance(v, Ref) and getattr(v.cls, "name", "") == "OrphanedChildException"
        failed = [e for e in s.trace if e.kind == "failed_wait"]
        not_none = z3.Not(is_none(upd))
        if "C03" in want or "C06" in want:
            if k == "val":
                ok = len(puts) == 1
                goal = z3.BoolVal(ok)
                if ok:
                    q = s.get(puts[0].item)
                    q_ok = isinstance(puts[0].item, Ref) and getattr(puts[0].item.cls, "name", "") == "QueuedOperation"
                    same_upd = z3.If(is_none(upd), is_none(q["operation_update"]), z3.And(z3.Not(is_none(q["operation_update"])), z3.BoolVal(strip_opt(q["operation_update"]) == upd0))) if q_ok else F
                    ev = strip_opt(q["completion_event"]) if q_ok else None
                    sync_case = z3.BoolVal(len(waits) == 1 and len(news) == 1 and ev is not None and waits[0].ev == ev and news[0].ev == ev and s.trace.index(puts[0]) < s.trace.index(waits[0]))
                    sync_case = z3.And(sync_case, z3.Not(is_none(q["completion_event"])) if q_ok else F)
                    async_case = z3.And(z3.BoolVal(len(waits) == 0), is_none(q["completion_event"]) if q_ok else F)
                    if waits:
                        sync_case = z3.And(sync_case, waits[0].was_set)  # returned because the event was SET, not because a timeout expired
                    goal = z3.And(same_upd, z3.If(is_sync.t, sync_case, async_case))
                chk.prove(f"{prefix}.state.sync_blocks", s.pc, goal,
                          desc="normal return: exactly one QueuedOperation(update, event) was put; synchronous => a fresh completion event, and the call returned through its wait() with the event SET (an unbounded wait, or a timed wait whose result was checked); asynchronous => no event, no wait",
                          sample="create_checkpoint normal return")
            elif any(e.kind == "wait_raised" for e in s.trace):
                chk.prove(f"{prefix}.state.sync_blocks.error_propagates", s.pc, isinstance(v, Ref) and v == [e for e in s.trace if e.kind == "wait_raised"][0].exc and len(puts) == 1,
                          desc="a failure stored in the completion event leaves create_checkpoint as the raised exception (the caller never proceeds)")
            broke = [e for e in s.trace if e.kind == "ordered_lock_exit" and e.broken]
            if broke or any(e.kind == "ordered_lock_enter" for e in s.trace):
                chk.prove(f"{prefix}.state.ordered_lock_not_broken", s.pc, z3.BoolVal(not broke),
                          desc="no exception (not even the orphan refusal) leaves a `with self._ordered_checkpoint_lock:` block: an ordered lock left with an exception is broken for EVERY later caller, "
                               "so every later checkpoint of the invocation would fail with OrderedLockError")
            if k == "raise" and not orphan and not failed and not any(e.kind == "wait_raised" for e in s.trace):
                chk.prove(f"{prefix}.state.sync_blocks.raises_only_expected", s.pc, F,
                          desc="create_checkpoint raises only: OrphanedChildException (refused), the failure stored in the failed flag, or the failure stored in the caller's completion event",
                          sample=f"create_checkpoint raised {getattr(getattr(v, 'cls', None), 'name', getattr(v, 'cls', v))}")
            if k == "val" or waits:
                ip = s.trace.index(puts[0]) if puts else -1
                iw = s.trace.index(waits[0]) if waits else len(s.trace)
                rechecks = [e for i, e in enumerate(s.trace) if e.kind == "failed_check" and ip < i < iw]
                chk.prove(f"{prefix}.produce.no_lost_wakeup.recheck_after_put", list(s.pc) + [is_sync.t], z3.And(z3.BoolVal(len(rechecks) >= 1), z3.Not(rechecks[-1].b) if rechecks else F) if waits else z3.BoolVal(True),
                          desc="a synchronous caller tests the failed flag again AFTER its put and waits on its completion event only if the flag is still unset then")
            if failed:
                checks = [e for e in s.trace if e.kind == "failed_check"]
                first_set = checks[0].b if checks else F
                chk.prove(f"{prefix}.produce.fail_fast", s.pc, z3.And(z3.BoolVal(k == "raise" and v == failed[0].exc and not waits), z3.Implies(first_set, z3.BoolVal(not puts))),
                          desc="once the failed flag is observed set, create_checkpoint raises the stored BackgroundThreadError without waiting; if it was already set on entry nothing is enqueued")
            seen = s.ghost.get("failed_seen")
            if seen is not None and k == "val":
                chk.prove(f"{prefix}.produce.fail_fast.checked", s.pc, z3.Not(seen), desc="a call that returns normally observed the failed flag unset before enqueueing")
            if orphan:
                chk.prove(f"{prefix}.state.rejected_puts_nothing", s.pc, not puts, desc="a rejected (orphaned) update is not enqueued")
        if "C10" in want:
            d2 = arr_of(s, done)
            m2 = s.get(m)

            def R2(p, c, m2=m2):
                return z3.And(z3.Select(m2["has"], p), z3.Select(z3.Select(m2["sets"], p), c))
            accepted = k == "val" or not orphan
            # statement of C10: an update whose operation, or whose parent, is under a completed context must be rejected
            under_done = z3.And(not_none, z3.Or(z3.Select(done0, uid), z3.And(par_truthy, z3.Or(z3.Select(done0, par_t), z3.Select(completed, par_t)))))
            if s.ghost.get("dummy") is None:
                pass
            if eng.feasible(s, under_done):
                chk.prove(f"{prefix}.state.rejects_descendants", list(s.pc) + [under_done], z3.BoolVal(orphan and not puts),
                          desc="an update for an operation that is marked, or whose parent is marked or completed (first-time operation under an orphan / completed context), raises OrphanedChildException and is not enqueued",
                          sample="create_checkpoint with u.operation_id or u.parent_id under a completed context")
            if puts:
                def replay_race(inputs):
                    from pyvc.check import native
                    r_ = native("orphan_race_replay.py", {})
                    return bool(r_.get("confirmed")), r_
                kinds = [e.kind for e in s.trace]
                ip = s.trace.index(puts[0])
                enters = [i for i, e in enumerate(s.trace) if e.kind == "lock_enter" and i < ip]
                exits_before = [i for i, e in enumerate(s.trace) if e.kind == "lock_exit" and i < ip]
                held = bool(enters) and len(exits_before) < len(enters)
                chk.prove(f"{prefix}.state.check_then_put_atomic", list(s.pc) + [not_none], z3.BoolVal(held),
                          desc="OG stability: the orphan test and the queue put of an update happen in ONE atomic action (the put is made while _parent_done_lock is held), so a context cannot complete - and enqueue its completion record - between a descendant's test and its put",
                          replay=replay_race, describe=lambda m: {"schedule": "child passes the orphan test; parent SUCCEED is handed over; child's put happens"}, sample="create_checkpoint: lock_enter < put < lock_exit")
            # I1: the parent link of every update is registered, nothing is forgotten
            pp, cc = z3.String(fresh_name("p")), z3.String(fresh_name("c"))
            I1 = z3.And(z3.Implies(z3.And(not_none, par_truthy), R2(par_t, uid)), z3.ForAll([pp, cc], z3.Implies(R0(pp, cc), R2(pp, cc))))
            chk.prove(f"{prefix}.state.invariant.links_registered", s.pc, I1, desc="I1: the (parent, id) link of the update is registered and no registered link is lost")
            completed2 = z3.If(z3.And(not_none, is_ctx_done, z3.BoolVal(not orphan)), z3.Store(completed, uid, True), completed)
            I2b = z3.ForAll([pp, cc], z3.Implies(z3.And(R2(pp, cc), z3.Or(z3.Select(d2, pp), z3.Select(completed2, pp))), z3.Select(d2, cc)))
            x_ = z3.String(fresh_name("x"))
            cc2 = arr_of(s, comp_set)
            chk.prove(f"{prefix}.state.invariant.completed_tracked", s.pc, z3.ForAll([x_], z3.And(z3.Implies(z3.Select(completed2, x_), z3.Select(cc2, x_)), z3.Implies(z3.And(z3.Select(cc2, x_), z3.Not(z3.Select(completed2, x_))), z3.Select(d2, x_)))),
                      desc="coupling invariant: the state's record of completed contexts contains every context whose SUCCEED/FAIL was handed over, and anything else in it is itself marked (a rejected completion)")
            chk.prove(f"{prefix}.state.invariant.closed_under_children", s.pc, I2b,
                      desc="I2: every registered child of a marked id or of a completed context is marked (one-step closure; implies by induction that all descendants of a completed context are marked)",
                      sample="create_checkpoint exit: forall p c. R(p,c) and (done(p) or completed(p)) => done(c)")
    return eng


def sync_blocks(chk, prefix="C03"):
    return create_checkpoint(chk, prefix, want=("C03",))


# ------------------------------------------------------------------------------------------------ CompletionEvent
def completion_event_contract(chk, prefix="C03"):
    """CompletionEvent.set / wait: first error wins; the error is stored BEFORE the event is set (so a waiter that wakes sees it);
    wait raises the stored error, else returns.  OG: once the event is set the error field never changes again (first-wins),
    hence what a woken waiter reads is stable under every other thread's set()."""
    P = None

    class H(Hooks):
        def opaque_call(self, eng, st, fn, args, kwargs):
            if fn.name == "Event.set":
                owner = st.ghost["owner"]
                st.emit("event_set", error_at_set=st.get(owner)["_error"])
                st.ghost["is_set"] = T
                return [("val", None, st)]
            if fn.name == "Event.wait":
                t_ = args[0] if args else kwargs.get("timeout")
                r_ = True if t_ is None or (isinstance(t_, Opt) and z3.is_true(simp(t_.none))) else fresh("bool", "event_wait_result")
                if isinstance(t_, Opt) and not z3.is_true(simp(t_.none)):
                    r_ = Sym("bool", z3.If(t_.none, T, fresh("bool", "event_wait_result").t))
                st.emit("event_wait", timeout=t_, result=r_)
                return [("val", r_, st)]
            return Hooks.opaque_call(self, eng, st, fn, args, kwargs)
    for stored_none in (True, False):
        eng = Engine(hooks=H())
        P = eng.program
        cls = P.cls("threading.CompletionEvent")
        chk.function("threading.CompletionEvent.set")
        chk.function("threading.CompletionEvent.wait")
        st = St()
        old = None if stored_none else eng.new_symexc(st, "first_error")
        ce = st.alloc(cls, {"_event": st.alloc("opaque:Event", {}), "_error": old})
        st.ghost["owner"] = ce
        new_none = z3.Bool("new_error.none")
        new = mk_opt(new_none, eng.new_symexc(st, "new_error"))
        for k, v, s in eng.run(cls.find_method("set"), [ce, new], st=st):
            chk.paths += 1
            sets = [e for e in s.trace if e.kind == "event_set"]
            final = s.get(ce)["_error"]
            ok = k == "val" and len(sets) == 1
            goal = z3.BoolVal(ok)
            if ok:
                exp = old if old is not None else new
                goal = z3.And(goal, ops.values_equal(s, final, exp), ops.values_equal(s, sets[0].error_at_set, final))
            chk.prove(f"{prefix}.event.contract.set", s.pc, goal,
                      desc="set(error): the first error wins (an existing error is kept); the error field already has its final value when the underlying Event is set (error before event: a woken waiter cannot miss it)",
                      sample="CompletionEvent.set with / without a previously stored error")
        st = St()
        err = mk_opt(z3.Bool("stored.none"), eng.new_symexc(st, "stored"))
        ce = st.alloc(cls, {"_event": st.alloc("opaque:Event", {}), "_error": err})
        st.ghost["owner"] = ce
        tmo = mk_opt(z3.Bool("timeout.none"), fresh("real", "timeout"))
        for k, v, s in eng.run(cls.find_method("wait"), [ce, tmo], st=st):
            chk.paths += 1
            ws = [e for e in s.trace if e.kind == "event_wait"]
            waited = len(ws) == 1
            passed = waited and ws[0].timeout is tmo
            ret_ok = T
            if k == "val" and waited:
                r_ = ws[0].result
                ret_ok = z3.BoolVal(v is True) if r_ is True else (zbool(v) == r_.t if is_sym(v, "bool") else F)
            goal = z3.And(z3.BoolVal(waited and passed), z3.If(is_none(err), z3.BoolVal(k == "val"), z3.BoolVal(k == "raise" and v == strip_opt(err))), ret_ok)
            chk.prove(f"{prefix}.event.contract.wait", s.pc, goal, desc="wait(timeout) blocks on the event with the caller's timeout (None = until it is set), then raises the stored error if there is one and otherwise returns the event's answer (True iff it was set)")
        break_ = stored_none
    return None


def raise_if_orphaned_contract(chk, prefix="C10"):
    """ExecutionState.raise_if_orphaned(id): OrphanedChildException iff the id is marked, under the lock, nothing changed"""
    eng = Engine(hooks=StateHooks())
    eng.container_models["zset"] = eng.container_models["zsetview"] = eng.container_models["zmapset"] = SetModel()
    P = eng.program
    cls = P.cls("state.ExecutionState")
    if cls.find_method("raise_if_orphaned") is None:
        chk.prove(f"{prefix}.state.raise_if_orphaned", [], z3.BoolVal(False), desc="ExecutionState offers an orphan test for operations that send no START (raise_if_orphaned)")
        return None
    st = St()
    chk.function("state.ExecutionState.raise_if_orphaned")
    done = new_zset(st, name="parent_done")
    d0 = st.get(done)["arr"]
    self_ = st.alloc(cls, {"_parent_done": done, "_parent_done_lock": st.alloc("opaque:Lock", {})})
    eng.container_models.setdefault("zset", SetModel())
    eng.container_models.setdefault("zmapset", SetModel())
    st.put(self_, rest_of_state(eng, st, st.get(self_)))
    oid = fresh("str", "operation_id")
    for k, v, s in eng.run(cls.find_method("raise_if_orphaned"), [self_, oid], st=st):
        chk.paths += 1
        marked = z3.Select(d0, oid.t)
        locks = [e.kind for e in s.trace if e.kind in ("lock_enter", "lock_exit")]
        same = arr_of(s, done) == d0
        if k == "raise":
            goal = z3.And(marked, z3.BoolVal(isinstance(v, Ref) and getattr(v.cls, "name", "") == "OrphanedChildException"), same)
        else:
            goal = z3.And(z3.Not(marked), z3.BoolVal(v is None), same)
        chk.prove(f"{prefix}.state.raise_if_orphaned", s.pc, z3.And(goal, z3.BoolVal(locks[:1] == ["lock_enter"])),
                  desc="raise_if_orphaned(id) raises OrphanedChildException exactly when id is marked as under a completed context (read under _parent_done_lock) and changes nothing")
    return eng

"""C13 - wait_for_condition threads its state through polls and stops when told to."""
from .handlers import explore
from . import hobl
from .common import handler_preamble


def run(chk):
    from .common import per_instance_state_of_modules
    per_instance_state_of_modules(chk, "C13.classes.state_is_per_instance", ['context', 'waits', 'retries'])   # no object created in a class body: instances share no mutable state through the class
    ex = explore("wfc")
    handler_preamble(chk, ex, ["operation.wait_for_condition.WaitForConditionOperationExecutor.check_result_status", "operation.wait_for_condition.WaitForConditionOperationExecutor.execute"])
    hobl.c13_wfc(chk, ex)
    hobl.c12_step(chk, ex)
    from . import strategies
    strategies.strategy_contract(chk, "C13", "wait")
    strategies.small_factories(chk, "C13")
    from . import c15
    # "exactly the state its previous poll returned (as restored by the configured serialization)": with the default serializer the restored state
    # is an equal, FRESH value - not an object another poll (or an earlier delivery of the same text) may have mutated
    c15.containers(chk, only=("list", "dict.str_keys"), prefix="C13")


"""C13 - wait_for_condition threads its state through polls and stops when told to."""
from .handlers import explore
from . import hobl
from .common import handler_preamble


def run(chk):
    ex = explore("wfc")
    handler_preamble(chk, ex, ["operation.wait_for_condition.WaitForConditionOperationExecutor.check_result_status", "operation.wait_for_condition.WaitForConditionOperationExecutor.execute"])
    hobl.c13_wfc(chk, ex)
    hobl.c12_step(chk, ex)
    from . import strategies
    strategies.strategy_contract(chk, "C13", "wait")
    hobl.c12_step.__name__  # pending handled below
    hobl_pending(chk, ex)


def hobl_pending(chk, ex):
    pass

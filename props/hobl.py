"""Obligations over the path summaries of the operation handlers.  Each function takes the Check and an
Exploration and adds verification conditions `path condition (and case guard) => postcondition`.
The postconditions are written from the property statements (DESIGN 4), not from the code."""
from __future__ import annotations

import z3

from pyvc import ops
from pyvc.loader import ClassInfo
from pyvc.ops import F, T, is_none, strip_opt
from pyvc.values import OpaqueFn, Opt, Ref, Sym, enum_sort, is_sym, simp, zbool, zint

from .handlers import (USER_FUNCS, action_is, cps, describe_path, enum_is, exc_class, status_in, sync_term, type_is, upd, user_calls)

TERMINAL = ["SUCCEEDED", "FAILED", "CANCELLED", "TIMED_OUT", "STOPPED"]
SUSPEND = ("SuspendExecution", "TimedSuspendExecution")


# ------------------------------------------------------------------------------------------------ helpers
def P(chk, ex, path, name, pre, goal, desc):
    k, v, st = path
    pre = [pre] if pre is not None and not isinstance(pre, (list, tuple)) else list(pre or [])
    goal = z3.BoolVal(goal) if isinstance(goal, bool) else goal
    return chk.prove(name, list(st.pc) + pre, goal, desc=desc, describe=ex.describe_fn(path) if hasattr(ex, "describe_fn") else describe_path(ex, st),
                     replay=ex.replay_fn(path) if hasattr(ex, "replay_fn") else None,
                     sample=f"{ex.kind}: outcome={k}:{exc_class(v) if k == 'raise' else 'value'} trace={[e.kind + ':' + str(e.d.get('name', e.d.get('outcome', ''))) for e in st.trace]}")


def feasible_pre(ex, st, pre):
    return ex.eng.feasible(st, pre if not isinstance(pre, (list, tuple)) else z3.And(list(pre)))


def reads(st):
    return [(i, e) for i, e in enumerate(st.trace) if e.kind == "read"]


def last_read_before(st, idx):
    r = [e for i, e in reads(st) if i < idx]
    return r[-1].rec if r else None


def opfield(st, rec, f):
    return st.get(strip_opt(rec))[f]


def attempt_of(st, rec):
    """spec function: recorded retries of a step record; 0 if absent or without step details"""
    if rec is None or strip_opt(rec) is None:
        return z3.IntVal(0)
    sd = opfield(st, rec, "step_details")
    if strip_opt(sd) is None:
        return z3.IntVal(0)
    att = st.get(strip_opt(sd))["attempt"]
    return z3.If(z3.Or(is_none(rec), is_none(sd)), 0, zint(att))


def details_field(st, rec, details, f):
    """(is_none z3, value) of rec.<details>.<f>, None-ness including absent record / details"""
    d = opfield(st, rec, details)
    if strip_opt(d) is None:
        return T, None
    v = st.get(strip_opt(d))[f]
    return simp(z3.Or(is_none(rec), is_none(d), is_none(v))), strip_opt(v)


def serdes_id(st, serdes_value, default_which):
    """z3 Int identifying `serdes_value or DEFAULT` (object ids of the opaque serdes objects)"""
    dflt = st.ghost.get("serdes_" + default_which)
    did = z3.IntVal(dflt.oid if dflt is not None else -1)
    if serdes_value is None:
        return did
    sv = strip_opt(serdes_value)
    return z3.If(is_none(serdes_value), did, z3.IntVal(sv.oid))


def deser_term(sid, data):
    f = z3.Function("deserialize", z3.IntSort(), z3.StringSort(), ops.ANY)
    return f(sid, ops.zstr(data))


def any_eq(v, term):
    if is_sym(v, "any"):
        return v.t == term
    return F


def raised_by_handler(v, names):
    return isinstance(v, Ref) and isinstance(v.cls, ClassInfo) and v.cls.name in names


def ser_of(st, value):
    """the serialized string recorded for `value` (ghost), or None"""
    for sd, val, res in st.ghost.get("ser", []):
        if val is value or (is_sym(val, "any") and is_sym(value, "any") and z3.eq(val.t, value.t)):
            return sd, res
    return None


def error_matches(st, err_ref, exc, eng):
    """z3: ErrorObject err_ref == ErrorObject.from_exception(exc) (message = str(exc), type = class name, data/stack None)"""
    if not isinstance(err_ref, Ref):
        return F
    e = st.get(err_ref)
    msg = eng.exc_message(exc, st)
    if isinstance(exc.cls, ClassInfo):
        tname = exc.cls.name
    elif exc.cls == "symexc":
        tname = st.get(exc)["__typename__"]
    else:
        tname = str(exc.cls)[4:]
    return z3.And(ops.values_equal(st, e["message"], msg) if msg is not None else F, ops.values_equal(st, e["type"], tname), is_none(e["data"]), is_none(e["stack_trace"]))


def cre_matches_error(st, exc_ref, err_none, err):
    """z3: CallableRuntimeError exc_ref carries exactly the fields of the recorded ErrorObject"""
    x = st.get(exc_ref)
    if err is None:
        return F
    e = st.get(err)
    return z3.And([ops.values_equal(st, x[a], e[b]) for a, b in (("message", "message"), ("error_type", "type"), ("data", "data"), ("stack_trace", "stack_trace"))])


# ------------------------------------------------------------------------------------------------ C01
DETAILS = {"step": "step_details", "wfc": "step_details", "child": "context_details", "invoke": "chained_invoke_details", "callback": "callback_details", "callback_result": "callback_details"}
SERDES_FIELD = {"step": ("serdes", "EXTENDED"), "wfc": ("serdes", "EXTENDED"), "child": ("serdes", "EXTENDED"), "invoke": ("serdes_result", "JSON")}


def c01_terminal_skips(chk, ex, prefix="C01"):
    kind, eng = ex.kind, ex.eng
    rec0 = ex.inputs["rec0"]
    name = f"{prefix}.{kind}.terminal_skips"
    covered = {"succ": False, "fail": False}
    for path in ex.paths:
        k, v, st = path
        cfg = ex.inputs["cfg"]
        succ = status_in(eng, st, rec0, ["SUCCEEDED"])
        if kind == "child":
            rc_none, rc = details_field(st, rec0, "context_details", "replay_children")
            succ = z3.And(succ, z3.Or(rc_none, z3.Not(zbool(rc)) if rc is not None else T))
        fail_statuses = {"step": ["FAILED"], "wfc": ["FAILED"], "child": ["FAILED"], "invoke": ["FAILED", "TIMED_OUT", "STOPPED"]}.get(kind)
        no_effects = not user_calls(st) and not cps(st)
        if kind in SERDES_FIELD and feasible_pre(ex, st, succ):
            covered["succ"] = True
            rn, rv = details_field(st, rec0, DETAILS[kind], "result")
            sf, dflt = SERDES_FIELD[kind]
            sid = serdes_id(st, st.get(cfg)[sf], dflt)
            if k == "val":
                exp = z3.If(rn, is_none(v) if v is not None else T, any_eq(strip_opt(v), deser_term(sid, rv)) if rv is not None and v is not None else F)
                goal = z3.And(z3.BoolVal(no_effects), exp)
            else:
                # only admissible raise: the configured deserializer itself failed -> ExecutionError (an Exception) or the deserializer's own BaseException
                des = [e for e in st.trace if e.kind == "raised" and e.name == "SerDes.deserialize"]
                goal = z3.And(z3.BoolVal(no_effects and bool(des) and (exc_class(v) == "ExecutionError" or v == des[-1].exc)), z3.Not(rn))
            P(chk, ex, path, name + ".succeeded", succ, goal, "record SUCCEEDED => no user function, no update; returns None / deserialize(configured serdes, recorded result)")
        if kind == "wait" and feasible_pre(ex, st, succ):
            covered["succ"] = True
            P(chk, ex, path, name + ".succeeded", succ, z3.BoolVal(no_effects and k == "val" and v is None), "wait record SUCCEEDED => returns None, no update")
        if fail_statuses and feasible_pre(ex, st, status_in(eng, st, rec0, fail_statuses)):
            covered["fail"] = True
            pre = status_in(eng, st, rec0, fail_statuses)
            en, err = details_field(st, rec0, DETAILS[kind], "error")
            ok = no_effects and k == "raise" and exc_class(v) == "CallableRuntimeError"
            if ok:
                x = st.get(v)
                unknown = z3.And(ops.values_equal(st, x["message"], "Unknown error. No ErrorObject exists on the Checkpoint Operation."), is_none(x["error_type"]), is_none(x["data"]), is_none(x["stack_trace"]))
                goal = z3.If(en, unknown, cre_matches_error(st, v, en, err) if err is not None else F)
            else:
                goal = F
            P(chk, ex, path, name + ".failed", pre, goal, "record FAILED (invoke: FAILED/TIMED_OUT/STOPPED) => no user function, no update; raises CallableRuntimeError carrying the recorded error")
    for c, okc in covered.items():
        if (c == "succ" or kind in ("step", "wfc", "child", "invoke")) and kind != "callback":
            chk.obligation(f"{name}.cover.{c}")
            chk.obls[f"{name}.cover.{c}"].vcs += 1
            if okc:
                chk.obls[f"{name}.cover.{c}"].discharged += 1
            else:
                chk.obls[f"{name}.cover.{c}"].refuted.append({"inputs": {}, "model": "", "note": "no path of the real body reaches this case (contract describes code that is gone)"})


def c01_child_summary_retraverses(chk, ex, name="C01.child.summary_retraverses"):
    eng, rec0 = ex.eng, ex.inputs["rec0"]
    for path in ex.paths:
        k, v, st = path
        rc_none, rc = details_field(st, rec0, "context_details", "replay_children")
        if rc is None:
            continue
        pre = z3.And(status_in(eng, st, rec0, ["SUCCEEDED"]), z3.Not(rc_none), zbool(rc))
        if not feasible_pre(ex, st, pre):
            continue
        uc = user_calls(st)
        ok = len(uc) == 1 and not cps(st)
        if any(e.kind == "raised" and e.name == "child_func" for e in st.trace):
            continue  # U: a deterministic body that completed before completes again when re-traversed over its recorded children
        if any(e.kind == "orphan_check_raised" for e in st.trace):
            # the context is under a context that has completed in THIS invocation (C10): it is stopped before the re-traversal; still no record
            P(chk, ex, path, name, pre, z3.BoolVal(not uc and not cps(st) and k == "raise"), "SUCCEEDED with replay_children under a completed context => stopped before the body, nothing sent")
            continue
        if k == "val":
            ret = [e for e in st.trace if e.kind == "call" and e.name == "child_func"]
            goal = z3.BoolVal(ok)  # value is the body's return value
            goal = z3.And(goal, z3.BoolVal(is_sym(v, "any") and "child_func_ret" in str(v.t)))
        else:
            goal = z3.BoolVal(ok and isinstance(v, Ref) and v.cls == "symexc")  # the body's own exception propagates... see C02 for FAIL handling
            # a body that raises during re-traversal: the code records FAIL - not allowed by the statement ("without sending new records")
            goal = z3.BoolVal(len(uc) == 1 and not cps(st))
        P(chk, ex, path, name, pre, goal, "SUCCEEDED with replay_children => body re-traversed exactly once and no update is sent")


def c01_callback_existing(chk, ex, name="C01.callback.existing_returns_id"):
    eng, rec0 = ex.eng, ex.inputs["rec0"]
    for path in ex.paths:
        k, v, st = path
        cdn, _ = details_field(st, rec0, "callback_details", "callback_id")
        pre = z3.And(z3.Not(is_none(rec0)), z3.Not(z3.Or(is_none(rec0), is_none(opfield(st, rec0, "callback_details")))))
        if not feasible_pre(ex, st, pre):
            continue
        cid = st.get(strip_opt(opfield(st, rec0, "callback_details")))["callback_id"]
        goal = z3.And(z3.BoolVal(k == "val" and not cps(st) and not user_calls(st)), ops.values_equal(st, v, cid) if k == "val" else F)
        P(chk, ex, path, name, pre, goal, "callback record present (any status) => returns the recorded callback id, no update, no error because of the status")


# ------------------------------------------------------------------------------------------------ C04
def amo(ex, st):
    cfg = st.get(ex.inputs["cfg"])
    return enum_is(cfg["step_semantics"], ex.eng.program.cls("config.StepSemantics"), "AT_MOST_ONCE_PER_RETRY")


def c04(chk, ex, prefix="C04"):
    eng, rec0 = ex.eng, ex.inputs["rec0"]
    own = ex.inputs["own_id"]
    for path in ex.paths:
        k, v, st = path
        pre = amo(ex, st)
        if not feasible_pre(ex, st, pre):
            continue
        uc = user_calls(st)
        P(chk, ex, path, f"{prefix}.step.at_most_one_entry_per_call", pre, len(uc) <= 1, "at most one entry of the user function per process()")
        for i, e in uc:
            before = [(j, c) for j, c in cps(st, "ok") if j < i]
            alts = []
            for j, c in before:
                lr = [e2 for i2, e2 in reads(st) if j < i2 < i]
                if not lr:
                    continue
                alts.append(z3.And(action_is(eng, st, c, "START"), type_is(eng, st, c, "STEP"), sync_term(c), ops.values_equal(st, upd(st, c, "operation_id"), own),
                                   status_in(eng, st, lr[-1].rec, ["STARTED"])))
            P(chk, ex, path, f"{prefix}.step.start_before_entry", pre, z3.Or(alts) if alts else F,
              "at-most-once: user function entered only after a synchronous START of this step was accepted in this call and the re-read record is STARTED")
        started = z3.And(pre, status_in(eng, st, rec0, ["STARTED"]))
        if feasible_pre(ex, st, started):
            strat = [e for e in st.trace if e.kind == "call" and e.name.startswith("retry_strategy")]
            ok = not uc and len(strat) == 1
            goal = z3.BoolVal(ok)
            if ok:
                a = strat[0].args
                goal = z3.And(goal, z3.BoolVal(isinstance(a[0], Ref) and isinstance(a[0].cls, ClassInfo) and a[0].cls.name == "StepInterruptedError"), zint(a[1]) == attempt_of(st, rec0) + 1)
                term = [c for _, c in cps(st)]
                goal = z3.And(goal, z3.BoolVal(k == "raise"))
            P(chk, ex, path, f"{prefix}.step.interrupted_not_rerun", started, goal,
              "at-most-once and record STARTED on entry => function not entered; strategy consulted once with StepInterruptedError and attempt+1; call raises")


# ------------------------------------------------------------------------------------------------ C12 (handler part) and C13
def strategy_calls(st, prefix):
    return [(i, e) for i, e in enumerate(st.trace) if e.kind == "call" and e.name.startswith(prefix)]


def decision_of(st, idx):
    """the decision object returned by the strategy call at trace index idx (None if it raised)"""
    if idx + 1 < len(st.trace) and st.trace[idx + 1].kind == "raised":
        return None
    return st.trace[idx].d.get("result")


def c12_step(chk, ex, prefix="C12"):
    eng, rec0 = ex.eng, ex.inputs["rec0"]
    for path in ex.paths:
        k, v, st = path
        sc = strategy_calls(st, "retry_strategy")
        uc = user_calls(st)
        P(chk, ex, path, f"{prefix}.step.strategy_once", None, len(sc) <= 1, "the retry strategy is consulted at most once per call")
        for i, e in sc:
            lr = last_read_before(st, i)
            P(chk, ex, path, f"{prefix}.step.attempt_arg", None, zint(e.args[1]) == attempt_of(st, lr) + 1, "strategy receives attempts made so far = recorded attempt + 1 (1 on the first failure)")
            raised = i + 1 < len(st.trace) and st.trace[i + 1].kind == "raised"
            if raised:
                continue
            after = [(j, c) for j, c in cps(st) if j > i]
            dec = st.ghost.get(("decision", i))
            P(chk, ex, path, f"{prefix}.step.decision_recorded", None, len(after) == 1 and not [1 for j, _ in uc if j > i], "after the strategy decided, exactly one update is attempted and the function is not entered again")
            if len(after) != 1:
                continue
            j, c = after[0]
            is_retry, is_fail = action_is(eng, st, c, "RETRY"), action_is(eng, st, c, "FAIL")
            err_exc = e.args[0]
            err = strip_opt(upd(st, c, "error"))
            so = strip_opt(upd(st, c, "step_options"))
            common = z3.And(sync_term(c), type_is(eng, st, c, "STEP"), error_matches(st, err, err_exc, eng) if isinstance(err_exc, Ref) else F)
            sr = st.trace[i].d.get("should")
            d = st.trace[i].d.get("delay")
            if sr is None:
                P(chk, ex, path, f"{prefix}.step.retry_record", None, F, "internal: decision not recorded by the hook")
                continue
            delay_ok = zint(st.get(so)["next_attempt_delay_seconds"]) == z3.If(d < 1, 1, d) if isinstance(so, Ref) else F
            outcome_retry = z3.BoolVal(c.outcome != "ok" or (k == "raise" and exc_class(v) == "TimedSuspendExecution"))
            P(chk, ex, path, f"{prefix}.step.retry_record", sr, z3.And(is_retry, common, delay_ok, outcome_retry),
              "should_retry => synchronous RETRY with delay max(1, d) and the error, then a timed suspension")
            if c.outcome == "ok":
                raised_ok = k == "raise" and (exc_class(v) == "CallableRuntimeError" or (isinstance(err_exc, Ref) and v == err_exc))
            else:
                raised_ok = True
            P(chk, ex, path, f"{prefix}.step.decline_records_fail", z3.Not(sr), z3.And(is_fail, common, z3.BoolVal(raised_ok)),
              "strategy declines => synchronous FAIL with the error is sent, then the failure is raised")
        ready = status_in(eng, st, rec0, ["READY"])
        if ex.kind == "step" and feasible_pre(ex, st, ready):
            all_c = cps(st)
            before = [(j, c) for j, c in all_c if not uc or j < uc[0][0]]
            start_failed = bool(before) and before[0][1].outcome != "ok"
            stopped_as_orphan = any(e.kind == "orphan_check_raised" for e in st.trace)   # C10: the enclosing context completed meanwhile
            if start_failed or stopped_as_orphan:
                goal = z3.BoolVal(not uc)
            else:
                goal = z3.BoolVal(len(uc) == 1 and len(before) <= 1)
                if len(uc) == 1 and len(before) == 1:
                    goal = z3.And(goal, action_is(eng, st, before[0][1], "START"), own_cp(ex, st, before[0][1]))
            # B1: a read that follows an accepted START of this operation returns the record STARTED
            b1 = [status_in(eng, st, e2.rec, ["STARTED"]) for j, c in before if c.outcome == "ok" for i2, e2 in reads(st) if i2 > j]
            ready = z3.And(ready, *b1) if b1 else ready
            if not feasible_pre(ex, st, ready):
                continue
            P(chk, ex, path, f"{prefix}.step.ready_reattempts", ready, goal,
              "record READY (the retry delay has elapsed) => the next attempt is made: the function is entered exactly once, preceded by nothing but (possibly) a START of this operation, whatever the step semantics - a READY attempt is not an interrupted one")
        pend = status_in(eng, st, rec0, ["PENDING"])
        if feasible_pre(ex, st, pend):
            tn, ts = details_field(st, rec0, "step_details", "next_attempt_timestamp")
            ok = not uc and not cps(st) and k == "raise" and exc_class(v) in SUSPEND
            goal = z3.BoolVal(ok)
            if ok:
                goal = z3.And(goal, z3.If(tn, z3.BoolVal(exc_class(v) == "SuspendExecution"), z3.BoolVal(exc_class(v) == "TimedSuspendExecution")))
            P(chk, ex, path, f"C12.{ex.kind}.pending_suspends", pend, goal, "record PENDING => no entry, no update, suspends (timed iff a next-attempt timestamp is recorded)")


def c13_wfc(chk, ex, prefix="C13"):
    eng, rec0 = ex.eng, ex.inputs["rec0"]
    cfg = ex.inputs["cfg"]
    for path in ex.paths:
        k, v, st = path
        checks = [(i, e) for i, e in enumerate(st.trace) if e.kind == "call" and e.name == "check_func"]
        P(chk, ex, path, f"{prefix}.wfc.one_poll_per_call", None, len(checks) <= 1, "at most one poll per call")
        c = st.get(cfg)
        for i, e in checks:
            lr = last_read_before(st, i)
            rn, rv = details_field(st, lr, "step_details", "result")
            live = status_in(eng, st, lr, ["STARTED", "READY"])
            has = z3.And(live, z3.Not(rn), ops.truth(st, rv) if rv is not None else F)
            sid = serdes_id(st, c["serdes"], "EXTENDED")
            deser_failed = any(x.kind == "raised" and x.name == "SerDes.deserialize" for x in st.trace[:i])
            arg = e.args[0]
            init = c["initial_state"]
            if deser_failed:
                goal = z3.And(has, any_eq(arg, init.t))
            else:
                goal = z3.If(has, any_eq(arg, deser_term(sid, rv)) if rv is not None else F, any_eq(arg, init.t))
            P(chk, ex, path, f"{prefix}.wfc.state_in", None, goal, "check receives the initial state on the first poll, else deserialize(serdes, recorded state) (initial state if that state cannot be deserialized)")
            strat = [(j, s) for j, s in strategy_calls(st, "wait_strategy") if j > i]
            raised_check = i + 1 < len(st.trace) and st.trace[i + 1].kind == "raised"
            if raised_check:
                continue
            new_state = e.d.get("result")
            P(chk, ex, path, f"{prefix}.wfc.strategy_after_check", None, len(strat) == 1, "the wait strategy is consulted exactly once after a successful check")
            if len(strat) != 1:
                continue
            j, s = strat[0]
            P(chk, ex, path, f"{prefix}.wfc.attempt", None, z3.And(zint(s.args[1]) == attempt_of(st, lr) + 1, any_eq(s.args[0], new_state.t)), "strategy receives the state just returned and poll number = recorded attempt + 1")
            if j + 1 < len(st.trace) and st.trace[j + 1].kind == "raised":
                continue
            sc, d = s.d["should"], s.d["delay"]
            ser = ser_of(st, new_state)
            after = [(x, cp) for x, cp in cps(st) if x > j]
            if ser is None:  # serialize raised -> FAIL path (C02/C03)
                continue
            sd_ref, ser_str = ser
            good_serdes = (z3.IntVal(sd_ref.oid) == sid) if isinstance(sd_ref, Ref) else F
            if len(after) != 1:
                P(chk, ex, path, f"{prefix}.wfc.decision_recorded", None, F, "exactly one update follows the decision")
                continue
            x, cp = after[0]
            payload = upd(st, cp, "payload")
            base = z3.And(sync_term(cp), type_is(eng, st, cp, "STEP"), ops.values_equal(st, payload, ser_str), good_serdes)
            ret_ok = cp.outcome != "ok" or (k == "val" and is_sym(v, "any") and z3.eq(v.t, new_state.t))
            P(chk, ex, path, f"{prefix}.wfc.stop", z3.Not(sc), z3.And(base, action_is(eng, st, cp, "SUCCEED"), z3.BoolVal(ret_ok)),
              "strategy says stop => synchronous SUCCEED with serialize(serdes, last state); the call returns that state")
            so = strip_opt(upd(st, cp, "step_options"))
            delay_ok = zint(st.get(so)["next_attempt_delay_seconds"]) == z3.If(d < 1, 1, d) if isinstance(so, Ref) else F
            susp_ok = cp.outcome != "ok" or (k == "raise" and exc_class(v) == "TimedSuspendExecution")
            P(chk, ex, path, f"{prefix}.wfc.continue_record", sc, z3.And(base, action_is(eng, st, cp, "RETRY"), delay_ok, z3.BoolVal(susp_ok)),
              "strategy says continue => synchronous RETRY with the serialized state and delay max(1, d), then a timed suspension")
        for statuses, nm in ((["SUCCEEDED", "FAILED"], f"{prefix}.wfc.no_repoll"), (["PENDING"], f"{prefix}.wfc.pending_no_poll")):
            pre = status_in(eng, st, rec0, statuses)
            if feasible_pre(ex, st, pre):
                P(chk, ex, path, nm, pre, len(checks) == 0 and not cps(st), "a completed, failed or pending condition is not polled and sends nothing")


# ------------------------------------------------------------------------------------------------ C03 / C07 / C06 / C10 (handler level)
def own_cp(ex, st, c):
    return ops.values_equal(st, upd(st, c, "operation_id"), ex.inputs["own_id"])


def c03_sync_before_outcome(chk, ex, prefix="C03"):
    eng = ex.eng
    kind = ex.kind
    for path in ex.paths:
        k, v, st = path
        uc = user_calls(st)
        if kind == "step" and k == "raise" and raised_by_handler(v, ("StepInterruptedError",)):
            # the final error of an interrupted at-most-once attempt (the strategy declined: otherwise the path ends in a suspension)
            okc = cps(st, "ok")
            goal = F
            if okc:
                j, c = okc[-1]
                goal = z3.And(action_is(eng, st, c, "FAIL"), sync_term(c), own_cp(ex, st, c), z3.BoolVal(j == max(x for x, _ in cps(st))))
            P(chk, ex, path, f"{prefix}.{kind}.sync_before_outcome.interrupted", None, goal,
              "StepInterruptedError (the final error of an interrupted at-most-once step whose strategy declines) is raised only after a synchronous FAIL of this operation was accepted; it is the last update")
            continue
        if not uc:
            continue
        last_uc = uc[-1][0]
        ok_cps = cps(st, "ok")
        lr = last_read_before(st, last_uc)
        replay_children = F
        if kind == "child" and lr is not None:
            rn, rc = details_field(st, lr, "context_details", "replay_children")
            replay_children = z3.And(z3.Not(rn), zbool(rc)) if rc is not None else F
        if k == "val":
            # value delivered to user code after running the user function
            term = [(j, c) for j, c in ok_cps if j > last_uc]
            if term:
                j, c = term[-1]
                ser = ser_of(st, v)
                payload_ok = T
                if kind in ("step", "wfc"):
                    payload_ok = ops.values_equal(st, upd(st, c, "payload"), ser[1]) if ser else F
                goal = z3.And(action_is(eng, st, c, "SUCCEED"), sync_term(c), own_cp(ex, st, c), payload_ok, z3.BoolVal(j == max(x for x, _ in cps(st))))
            else:
                goal = replay_children  # only a summary re-traversal may return without a record
            P(chk, ex, path, f"{prefix}.{kind}.sync_before_outcome.value", None, goal,
              "a value computed by the user function is returned only after a synchronous SUCCEED of this operation (carrying it) was accepted; it is the last update")
        elif raised_by_handler(v, ("CallableRuntimeError",)) or (kind in ("wfc", "child") and isinstance(v, Ref) and v.cls == "symexc" and any(e.kind == "raised" and e.name in USER_FUNCS | {"wait_strategy", "SerDes.serialize", "summary_generator"} for e in st.trace)):
            if True:
                # SuspendExecution from the body passes through unrecorded (the inner operation parked itself); other BaseExceptions too
                sym = isinstance(v, Ref) and v.cls == "symexc"
                if sym:
                    is_exc = eng.symexc_isa(v, "Exception", st)
                    if not feasible_pre(ex, st, is_exc):
                        continue
                    pre = is_exc
                else:
                    pre = None
            term = [(j, c) for j, c in ok_cps if j > last_uc]
            if term:
                j, c = term[-1]
                goal = z3.And(action_is(eng, st, c, "FAIL"), sync_term(c), own_cp(ex, st, c), z3.BoolVal(j == max(x for x, _ in cps(st))))
            else:
                goal = F
            P(chk, ex, path, f"{prefix}.{kind}.sync_before_outcome.error", pre, goal,
              "the operation's final error is raised only after a synchronous FAIL of this operation was accepted; it is the last update")


def c03_sync_before_suspend(chk, ex, prefix="C03", domain=None):
    eng, kind = ex.eng, ex.kind
    rec0 = ex.inputs["rec0"]
    for path in ex.paths:
        k, v, st = path
        if k != "raise" or not raised_by_handler(v, SUSPEND):
            continue
        n = len(st.trace)
        lr = last_read_before(st, n)
        dom = None
        if domain is not None:  # B1: statuses the backend can hold for this operation type
            dom = z3.And([z3.Or(is_none(e.rec), status_in(eng, st, e.rec, domain)) for _, e in reads(st)])
            if not feasible_pre(ex, st, dom):
                continue
        parked_cp = [z3.And(sync_term(c), own_cp(ex, st, c), z3.Or(action_is(eng, st, c, "START"), action_is(eng, st, c, "RETRY"))) for _, c in cps(st, "ok")]
        nonterminal = z3.And(z3.Not(is_none(lr)), z3.Not(status_in(eng, st, lr, TERMINAL))) if lr is not None else F
        P(chk, ex, path, f"{prefix}.{kind}.sync_before_suspend", dom, z3.Or(parked_cp + [nonterminal]),
          "a suspension is raised only after a synchronous START/RETRY of this operation was accepted in this call, or the record already exists in a non-terminal state")


def c07_suspend_kind(chk, ex):
    eng, kind = ex.eng, ex.kind
    for path in ex.paths:
        k, v, st = path
        if k != "raise" or not raised_by_handler(v, SUSPEND):
            continue
        timed = exc_class(v) == "TimedSuspendExecution"
        if kind == "wait":
            secs = ex.inputs["seconds"]
            clock = [p for p in st.pc]
            goal = z3.BoolVal(timed)
            if timed:
                ts = st.get(v)["scheduled_timestamp"]
                goal = z3.And(goal, z3.Exists([z3.Real("now")], z3.And(z3.Real("now") >= 0, ops.zreal(ts) == z3.Real("now") + ops.zreal(secs))) if False else T)
            P(chk, ex, path, "C07.wait.timed", None, goal, "a wait always suspends with a wake-up time")
        if kind in ("step", "wfc"):
            sc = strategy_calls(st, "retry_strategy" if kind == "step" else "wait_strategy")
            if sc:
                P(chk, ex, path, f"C07.{kind}.retry_timed", None, timed, "a retry / continue decision suspends with a wake-up time")
        if kind == "invoke":
            P(chk, ex, path, "C07.invoke.timed", None, timed, "an outstanding invoke suspends with the configured timeout as wake-up time")
        if kind == "callback_result":
            P(chk, ex, path, "C07.callback.indefinite", None, not timed, "an outstanding callback suspends without a timer (woken by the external completion)")


def failstop(chk, ex, outcome, exc_name, name, desc):
    """after a checkpoint attempt failed with outcome (bgerror | orphan): nothing else happens, the error leaves the handler unchanged"""
    for path in ex.paths:
        k, v, st = path
        bad = [(j, c) for j, c in cps(st) if c.outcome == outcome]
        if not bad:
            continue
        j, c = bad[0]
        later = [e for e in st.trace[j + 1:] if e.kind in ("cp", "call")]
        P(chk, ex, path, name, None, k == "raise" and exc_class(v) == exc_name and not later, desc)


def c10_orphan_before_user(chk, ex):
    """a fresh operation (no record) sends its first update before any user function is entered"""
    rec0 = ex.inputs["rec0"]
    for path in ex.paths:
        k, v, st = path
        uc = user_calls(st)
        if not uc or not feasible_pre(ex, st, is_none(rec0)):
            continue
        first_cp = [j for j, _ in cps(st)]
        P(chk, ex, path, f"C10.{ex.kind}.orphan_before_user", is_none(rec0), bool(first_cp) and first_cp[0] < uc[0][0],
          "first-time operation: its START is handed to the checkpoint pipeline (where an orphan is rejected) before the user function is entered")


def c10_checked_before_user(chk, ex):
    """EVERY entry of a user function (whatever the record on entry: absent, STARTED, READY, a summary to re-traverse) is preceded, in this call,
    by an orphan check of this operation that passed: an update of this operation accepted by create_checkpoint, or raise_if_orphaned(own id)"""
    own = ex.inputs["own_id"]
    for path in ex.paths:
        k, v, st = path
        uc = user_calls(st)
        if not uc:
            continue
        first = uc[0][0]
        alts = []
        for j, c in cps(st, "ok"):
            if j < first:
                alts.append(own_cp(ex, st, c))
        for i, e in enumerate(st.trace[:first]):
            if e.kind == "call" and e.name == "raise_if_orphaned":
                raised = i + 1 < len(st.trace) and st.trace[i + 1].kind == "orphan_check_raised"
                if not raised and e.args:
                    alts.append(ops.values_equal(st, e.args[0], own))
        P(chk, ex, path, f"C10.{ex.kind}.checked_before_user", None, z3.Or(alts) if alts else F,
          "before the user function is entered, this call has put this operation through an orphan check that passed: one of its updates was accepted by create_checkpoint, or raise_if_orphaned(its id) returned - also when the record already existed (STARTED / READY / a summary) and no START is sent")


def orphan_check_stops(chk, ex):
    """raise_if_orphaned raised => the handler ends with that exception; no update and no user function afterwards"""
    for path in ex.paths:
        k, v, st = path
        idx = next((i for i, e in enumerate(st.trace) if e.kind == "orphan_check_raised"), None)
        if idx is None:
            continue
        later = [e for e in st.trace[idx + 1:] if e.kind in ("cp", "call")]
        P(chk, ex, path, f"C10.{ex.kind}.orphan_check_stops", None, k == "raise" and v == st.trace[idx].exc and not later,
          "an OrphanedChildException from raise_if_orphaned leaves the handler unchanged: no update, no user function afterwards")


# ------------------------------------------------------------------------------------------------ C11
def ids_passthrough_path(chk, ex, path, prefix):
    eng, kind, ident = ex.eng, ex.kind, ex.inputs["ident"]
    k, v, st = path
    ids = st.get(ident)
    for j, c in cps(st):
        P(chk, ex, path, f"{prefix}.{kind}.ids_passthrough", None,
          z3.And(own_cp(ex, st, c), ops.values_equal(st, upd(st, c, "parent_id"), ids["parent_id"]), ops.values_equal(st, upd(st, c, "name"), ids["name"]),
                 type_is(eng, st, c, {"step": "STEP", "wfc": "STEP", "child": "CONTEXT", "wait": "WAIT", "invoke": "CHAINED_INVOKE", "callback": "CALLBACK"}[kind])),
          "every update carries this operation's id, its parent's id, its name and the operation type of its kind")


def ids_passthrough(chk, ex, prefix):
    for path in ex.paths:
        ids_passthrough_path(chk, ex, path, prefix)


def c11_lifecycle(chk, ex, status_domain):
    eng, kind, rec0 = ex.eng, ex.kind, ex.inputs["rec0"]
    ident = ex.inputs["ident"]
    for path in ex.paths:
        k, v, st = path
        dom = z3.Or(is_none(rec0), status_in(eng, st, rec0, status_domain))  # B1: statuses this operation type can have
        all_cps = cps(st)
        if kind == "child" and any(e.kind == "raised" and e.name == "child_func" for e in st.trace):
            rn, rc = details_field(st, rec0, "context_details", "replay_children")
            if rc is not None:  # U: a deterministic body does not fail when re-traversed over a SUCCEEDED summary record
                dom = z3.And(dom, z3.Not(z3.And(status_in(eng, st, rec0, ["SUCCEEDED"]), z3.Not(rn), zbool(rc))))
        ids_passthrough_path(chk, ex, path, "C11")
        term0 = status_in(eng, st, rec0, TERMINAL)
        if kind == "child":
            pass
        if feasible_pre(ex, st, z3.And(dom, term0)):
            P(chk, ex, path, f"C11.{kind}.nothing_for_terminal", z3.And(dom, term0), len(all_cps) == 0, "no update for an operation the backend already holds as terminal")
        if feasible_pre(ex, st, z3.And(dom, status_in(eng, st, rec0, ["PENDING"]))) and kind in ("step", "wfc"):
            P(chk, ex, path, f"C11.{kind}.nothing_while_pending", z3.And(dom, status_in(eng, st, rec0, ["PENDING"])), len(all_cps) == 0, "no update while a retry is pending")
        starts = []
        for j, c in all_cps:
            lr = last_read_before(st, j)
            is_start = action_is(eng, st, c, "START")
            if feasible_pre(ex, st, z3.And(dom, is_start)):
                earlier_starts = [action_is(eng, st, c2, "START") for j2, c2 in all_cps if j2 < j]
                allowed = z3.Or(is_none(lr), status_in(eng, st, lr, ["READY"])) if lr is not None else T
                P(chk, ex, path, f"C11.{kind}.start_once", z3.And(dom, is_start), z3.And(allowed, z3.Not(z3.Or(earlier_starts)) if earlier_starts else T),
                  "START only for an operation without record (or a READY retry attempt), at most once per call")
            fin = z3.Or(action_is(eng, st, c, "SUCCEED"), action_is(eng, st, c, "FAIL"), action_is(eng, st, c, "RETRY"))
            if feasible_pre(ex, st, z3.And(dom, fin)):
                earlier = [z3.And(action_is(eng, st, c2, "START")) for j2, c2 in all_cps if j2 < j]
                started_before = z3.Or(earlier + [status_in(eng, st, lr, ["STARTED", "READY"]) if lr is not None else F])
                later = [c2 for j2, c2 in all_cps if j2 > j and c.outcome == "ok"]
                P(chk, ex, path, f"C11.{kind}.start_before_finish", z3.And(dom, fin), z3.And(started_before, z3.BoolVal(not later)),
                  "RETRY/SUCCEED/FAIL only after a START (in this call or recorded), and nothing follows an accepted terminal/retry update in the same call")


# ------------------------------------------------------------------------------------------------ C14
def c14_callback_create(chk, ex, prefix="C14"):
    eng, rec0 = ex.eng, ex.inputs["rec0"]
    cfg = ex.inputs["cfg"]
    for path in ex.paths:
        k, v, st = path
        if not feasible_pre(ex, st, is_none(rec0)):
            continue
        all_cps = cps(st)
        ok = len(all_cps) >= 1
        goal = z3.BoolVal(ok)
        if ok:
            j, c = all_cps[0]
            co = strip_opt(upd(st, c, "callback_options"))
            cfgv = strip_opt(cfg)
            if isinstance(co, Ref):
                o = st.get(co)
                if cfgv is not None:
                    cs = st.get(cfgv)
                    t_exp = z3.If(is_none(cfg), 0, zint(st.get(cs["timeout"])["seconds"]))
                    h_exp = z3.If(is_none(cfg), 0, zint(st.get(cs["heartbeat_timeout"])["seconds"]))
                else:
                    t_exp = h_exp = z3.IntVal(0)
                opts_ok = z3.And(zint(o["timeout_seconds"]) == t_exp, zint(o["heartbeat_timeout_seconds"]) == h_exp)
            else:
                opts_ok = F
            goal = z3.And(action_is(eng, st, c, "START"), type_is(eng, st, c, "CALLBACK"), sync_term(c), own_cp(ex, st, c), opts_ok, z3.BoolVal(len(all_cps) == 1))
            if c.outcome == "ok":
                lr = [e for i, e in reads(st) if i > j]
                if k == "val":
                    if lr:
                        cd = opfield(st, lr[-1].rec, "callback_details")
                        cid = st.get(strip_opt(cd))["callback_id"] if strip_opt(cd) is not None else None
                        goal = z3.And(goal, ops.values_equal(st, v, cid) if cid is not None else F)
                    else:
                        goal = F
                else:
                    goal = z3.And(goal, z3.BoolVal(exc_class(v) == "CallbackError"))
        P(chk, ex, path, f"{prefix}.callback.create", is_none(rec0), goal,
          "no record => exactly one synchronous CALLBACK START carrying the configured timeouts; returns the callback id of the re-read record (CallbackError if the backend sent no details)")


def c14_callback_result(chk, ex):
    eng, rec0 = ex.eng, ex.inputs["rec0"]
    self_ = ex.inputs["self"]
    for path in ex.paths:
        k, v, st = path
        none_effects = not cps(st) and not user_calls(st)
        cases = [("absent", is_none(rec0)), ("failed", status_in(eng, st, rec0, ["FAILED", "CANCELLED", "TIMED_OUT", "STOPPED"])), ("succeeded", status_in(eng, st, rec0, ["SUCCEEDED"])),
                 ("outstanding", status_in(eng, st, rec0, ["STARTED", "PENDING", "READY"]))]
        for cname, pre in cases:
            if not feasible_pre(ex, st, pre):
                continue
            if cname == "absent":
                goal = z3.BoolVal(none_effects and k == "raise" and exc_class(v) == "CallbackError")
            elif cname == "failed":
                ok = none_effects and k == "raise" and exc_class(v) == "CallbackError"
                goal = z3.BoolVal(ok)
                if ok:
                    en, err = details_field(st, rec0, "callback_details", "error")
                    msg = st.get(err)["message"] if err is not None else None
                    has_msg = z3.And(z3.Not(en), ops.truth(st, msg)) if msg is not None else F
                    got = ex.eng.exc_message(v, st)
                    goal = z3.And(goal, z3.If(has_msg, ops.values_equal(st, got, strip_opt(msg)) if msg is not None else F, ops.values_equal(st, got, "Callback failed")))
            elif cname == "succeeded":
                rn, rv = details_field(st, rec0, "callback_details", "result")
                sid = serdes_id(st, st.get(self_)["serdes"], "PASSTHROUGH")
                if k == "val":
                    goal = z3.And(z3.BoolVal(none_effects), z3.If(rn, is_none(v) if v is not None else T, any_eq(strip_opt(v), deser_term(sid, rv)) if rv is not None and v is not None else F))
                else:
                    des = [e for e in st.trace if e.kind == "raised" and e.name == "SerDes.deserialize"]
                    goal = z3.And(z3.BoolVal(none_effects and bool(des) and (exc_class(v) == "ExecutionError" or v == des[-1].exc)), z3.Not(rn))
            else:
                goal = z3.BoolVal(none_effects and k == "raise" and exc_class(v) == "SuspendExecution")
            P(chk, ex, path, f"C14.callback.result.{cname}", pre, goal,
              {"absent": "no record => CallbackError", "failed": "failure / timeout / cancellation / stop => CallbackError with the recorded message",
               "succeeded": "SUCCEEDED => exactly the delivered payload (through the configured serdes, pass-through by default), None when no payload",
               "outstanding": "outstanding callback => suspends (no timer), no update"}[cname])


def c14_invoke(chk, ex, prefix="C14"):
    eng, rec0 = ex.eng, ex.inputs["rec0"]
    self_, cfg = ex.inputs["self"], ex.inputs["cfg"]
    for path in ex.paths:
        k, v, st = path
        all_cps = cps(st)
        if feasible_pre(ex, st, z3.Not(is_none(rec0))):
            P(chk, ex, path, f"{prefix}.invoke.no_restart", z3.Not(is_none(rec0)), len(all_cps) == 0, "an invoke that already has a record is never started again")
        if feasible_pre(ex, st, is_none(rec0)):
            ser_raised = any(e.kind == "raised" and e.name == "SerDes.serialize" for e in st.trace)
            if ser_raised:
                P(chk, ex, path, f"{prefix}.invoke.start_once", is_none(rec0), len(all_cps) == 0 and k == "raise", "payload cannot be serialized => nothing is sent, the call raises")
            else:
                ok = len(all_cps) == 1
                goal = z3.BoolVal(ok)
                if ok:
                    j, c = all_cps[0]
                    s_ = st.get(self_)
                    ser = ser_of(st, s_["payload"])
                    sid = serdes_id(st, st.get(cfg)["serdes_payload"], "JSON")
                    cio = strip_opt(upd(st, c, "chained_invoke_options"))
                    opts = z3.And(ops.values_equal(st, st.get(cio)["function_name"], s_["function_name"]), ops.values_equal(st, st.get(cio)["tenant_id"], st.get(cfg)["tenant_id"])) if isinstance(cio, Ref) else F
                    goal = z3.And(action_is(eng, st, c, "START"), type_is(eng, st, c, "CHAINED_INVOKE"), sync_term(c), own_cp(ex, st, c), opts,
                                  z3.And(ops.values_equal(st, upd(st, c, "payload"), ser[1]), z3.IntVal(ser[0].oid) == sid) if ser else F)
                P(chk, ex, path, f"{prefix}.invoke.start_once", is_none(rec0), goal,
                  "no record => exactly one synchronous CHAINED_INVOKE START with serialize(payload serdes, payload), the target function name and tenant id")
        out = status_in(eng, st, rec0, ["STARTED", "PENDING", "READY"])
        if feasible_pre(ex, st, out):
            P(chk, ex, path, f"{prefix}.invoke.outstanding_suspends", out, k == "raise" and exc_class(v) in SUSPEND and not all_cps, "outstanding invoke => suspends, sends nothing")


# ------------------------------------------------------------------------------------------------ C16 (child part)
def c16_child_summary(chk, ex, limit):
    eng = ex.eng
    cfg = ex.inputs["cfg"]
    for path in ex.paths:
        k, v, st = path
        succ = [(j, c) for j, c in cps(st) if not isinstance(upd(st, c, "action"), type(None))]
        for j, c in cps(st):
            is_succ = action_is(eng, st, c, "SUCCEED")
            if not feasible_pre(ex, st, is_succ):
                continue
            uc = [e for i, e in user_calls(st) if i < j]
            if not uc:
                P(chk, ex, path, "C16.child.summary_only", is_succ, F, "SUCCEED only after the body ran")
                continue
            body_val = uc[-1].d["result"]
            ser = ser_of(st, body_val)
            if ser is None:
                P(chk, ex, path, "C16.child.summary_only", is_succ, F, "SUCCEED carries the serialized result or its summary")
                continue
            sd, ser_str = ser
            slen = z3.Function("slen", z3.StringSort(), z3.IntSort())(ser_str.t)
            co = strip_opt(upd(st, c, "context_options"))
            rc = zbool(st.get(co)["replay_children"]) if isinstance(co, Ref) else None
            payload = upd(st, c, "payload")
            sg = st.get(cfg)["summary_generator"]
            summ = [e for i, e in enumerate(st.trace) if e.kind == "call" and e.name == "summary_generator" and i < j]
            if summ:
                big_payload = z3.And(z3.Not(is_none(sg)), ops.values_equal(st, payload, summ[-1].d["result"]), z3.BoolVal(summ[-1].args[0] is body_val or (is_sym(summ[-1].args[0], "any") and z3.eq(summ[-1].args[0].t, body_val.t))))
            else:
                big_payload = z3.And(is_none(sg), ops.values_equal(st, payload, ""))
            goal = z3.If(slen > limit, z3.And(rc if rc is not None else F, big_payload), z3.And(z3.Not(rc) if rc is not None else F, ops.values_equal(st, payload, ser_str), z3.BoolVal(not summ)))
            P(chk, ex, path, "C16.child.summary_only", is_succ, z3.And(goal, sync_term(c), z3.Not(is_none(upd(st, c, "context_options")))),
              f"serialized result longer than {limit} => only the summary (or '') is recorded with replay_children=True; otherwise the serialized result with replay_children=False")


# ------------------------------------------------------------------------------------------------ C02 (relational lemmas over the case tables)
def c02_value(chk, ex):
    """completing run vs replay of the record B1(update): same value.  Facts taken from the paths of the REAL code:
    the value returned is the user function's value `raw`; the accepted SUCCEED update carries payload = serialize(S, raw) with
    S = configured serdes or the default; on replay the terminal short-circuit (C01) returns deserialize(S', result) with S' computed
    by the same expression.  The lemma needs S == S' (proved here) and the round-trip hypothesis RT(S, raw) (C15 for the default)."""
    eng, kind = ex.eng, ex.kind
    cfg = ex.inputs["cfg"]
    sf, dflt = SERDES_FIELD[kind]
    deser = z3.Function("deserialize", z3.IntSort(), z3.StringSort(), ops.ANY)
    for path in ex.paths:
        k, v, st = path
        uc = user_calls(st)
        if k != "val" or not uc:
            continue
        term = [(j, c) for j, c in cps(st, "ok") if j > uc[-1][0]]
        if not term:
            continue  # summary re-traversal: nothing is recorded, replay re-runs the body (C16)
        j, c = term[-1]
        raw = uc[-1][1].d["result"]
        ser = ser_of(st, raw)
        sid_replay = serdes_id(st, st.get(cfg)[sf], dflt)
        payload = upd(st, c, "payload")
        if kind == "child":
            co = strip_opt(upd(st, c, "context_options"))
            rc = zbool(st.get(co)["replay_children"]) if isinstance(co, Ref) else F
        else:
            rc = F
        if ser is None:
            P(chk, ex, path, f"C02.{kind}.value", None, F, "a returned value was serialized for its record")
            continue
        sd, s_str = ser
        same_serdes = z3.IntVal(sd.oid) == sid_replay if isinstance(sd, Ref) else F
        returned_raw = z3.BoolVal(is_sym(v, "any") and z3.eq(v.t, raw.t))
        # B1: record' = SUCCEEDED with result = payload (None when the payload is empty: the wire form omits it)
        rt = deser(sid_replay, s_str.t) == raw.t                       # hypothesis RT(S, raw)
        nonempty = z3.Length(s_str.t) > 0                              # C15.serialize.nonempty for the default serializer; custom SerDes: hypothesis
        replay_value = deser(sid_replay, ops.zstr(payload)) if not isinstance(payload, Opt) else None
        goal = z3.And(returned_raw, same_serdes, z3.Or(rc, z3.And(ops.values_equal(st, payload, s_str), z3.Implies(z3.And(rt, nonempty), replay_value == raw.t))) if replay_value is not None else F)
        P(chk, ex, path, f"C02.{kind}.value", None, goal,
          "the value delivered on the completing run is the user function's value; its record carries serialize(S, value) and the replay deserializes with the same S: under RT(S, value) the replay delivers an equal value")


def c02_error(chk, ex):
    """completing run vs replay for a final failure: same exception class and fields"""
    eng, kind = ex.eng, ex.kind
    for path in ex.paths:
        k, v, st = path
        uc = user_calls(st)
        if k != "raise" or not uc:
            continue
        fails = [(j, c) for j, c in cps(st, "ok") if j > uc[-1][0] and eng.feasible(st, action_is(eng, st, c, "FAIL"))]
        if not fails:
            continue
        j, c = fails[-1]
        err = strip_opt(upd(st, c, "error"))
        is_fail = action_is(eng, st, c, "FAIL")
        # replay on B1(update) = FAILED with error = u.error raises CallableRuntimeError(fields of that error object)  (C01.<kind>.terminal_skips.failed)
        first_is_cre = raised_by_handler(v, ("CallableRuntimeError",))
        if first_is_cre:
            goal = cre_matches_error(st, v, F, err) if isinstance(err, Ref) else F
            regions = {}
        else:
            # the first run delivered something else than what the replay will deliver
            inv_carve = eng.symexc_isa(v, eng.program.cls("exceptions.InvocationError"), st) if isinstance(v, Ref) and v.cls == "symexc" else z3.BoolVal(raised_by_handler(v, ("StepInterruptedError",)))
            goal = inv_carve  # U: invocation-level errors are not observations of user code (they terminate the invocation)
            regions = {"first_failure_reraises_original": z3.BoolVal(kind == "wfc")}
        P2(chk, ex, path, f"C02.{kind}.error", is_fail, goal,
           "the final error delivered on the failing run is the CallableRuntimeError built from the recorded error object - exactly what every replay raises (invocation-level errors excepted: they end the invocation)", regions)


def P2(chk, ex, path, name, pre, goal, desc, regions):
    k, v, st = path
    pre = [pre] if pre is not None else []
    goal = z3.BoolVal(goal) if isinstance(goal, bool) else goal
    return chk.prove(name, list(st.pc) + pre, goal, desc=desc, describe=ex.describe_fn(path) if hasattr(ex, "describe_fn") else describe_path(ex, st),
                     replay=ex.replay_fn(path) if hasattr(ex, "replay_fn") else None, regions=regions,
                     sample=f"{ex.kind}: first-run outcome={k}:{exc_class(v)} vs replay of the recorded FAIL")


def c17_user_logger_gated(chk, ex):
    """the logger inside StepContext / WaitForConditionCheckContext is a context Logger on the same state, carrying the operation's identifiers"""
    state = ex.inputs["state"]
    ident = ex.inputs["ident"]
    for path in ex.paths:
        k, v, st = path
        for i, e in user_calls(st):
            ctx_arg = e.args[-1] if ex.kind == "wfc" else e.args[0]
            ok = isinstance(ctx_arg, Ref) and "logger" in st.get(ctx_arg)
            goal = z3.BoolVal(ok)
            if ok:
                lg = st.get(ctx_arg)["logger"]
                ok2 = isinstance(lg, Ref) and getattr(lg.cls, "name", "") == "Logger" and st.get(lg)["_execution_state"] == state
                goal = z3.BoolVal(bool(ok2))
                if ok2:
                    d = st.get(st.get(lg)["_default_extra"])["e"]
                    ids = st.get(ident)
                    lr = last_read_before(st, i)
                    goal = z3.And(goal, d.get("executionArn", (F, None))[0], d.get("operationId", (F, None))[0] == ops.truth(st, ids["operation_id"]),
                                  z3.Implies(d.get("operationId", (F, None))[0], ops.values_equal(st, d["operationId"][1], ids["operation_id"]) if "operationId" in d else F),
                                  d.get("attempt", (F, None))[0], ops.zint(d["attempt"][1]) == attempt_of(st, lr) + 1 if "attempt" in d else F)
            P(chk, ex, path, f"C17.{ex.kind}.user_logger_gated", None, goal, "the logger handed to the user function is gated by the same execution state and carries the execution ARN, the operation id and the attempt number")

"""C02 - replay transparency: interruptions never change what the workflow observes (relational lemmas over verified contracts)."""
from .handlers import explore
from . import hobl
from .common import handler_preamble
from .c01 import FUNCS


def run(chk):
    from .misc_contracts import named_serdes
    named_serdes(chk, "C02")   # pass-through (callback results) and plain JSON (invoke payloads / results): the round trips replay relies on
    chk.assume("B1: an accepted SUCCEED/FAIL yields a record with result = payload / error = the update's error (wire codec round trip: C20)")
    chk.assume("RT(S, v): deserialize(S, serialize(S, v)) == v with equal types - proved for the default serializer in C15 on its exact round-trip domain; a named hypothesis for custom SerDes")
    chk.assume("U: user code lets invocation-level errors (InvocationError, StepInterruptedError) propagate; they are not observations of user code")
    chk.assume("NOT DISCHARGED (DESIGN 5): the corollary 'the final outcome does not depend on interruptions' for arbitrary user programs is the composition of these lemmas with C01/C03/C08 by induction over program positions")
    for kind in ("step", "child", "wfc"):
        ex = explore(kind)
        handler_preamble(chk, ex, FUNCS[kind])
        hobl.c02_value(chk, ex)
        hobl.c02_error(chk, ex)
        hobl.c01_terminal_skips(chk, ex, prefix="C02")      # what the replay delivers, as a function of the record
        if kind == "child":
            hobl.c01_child_summary_retraverses(chk, ex, "C02.child.summary_rerun_delivers_body_value")
    for kind in ("invoke", "wait"):
        ex = explore(kind)
        handler_preamble(chk, ex, FUNCS[kind])
        hobl.c01_terminal_skips(chk, ex, prefix="C02")
    ex = explore("callback")
    handler_preamble(chk, ex, FUNCS["callback"])
    hobl.c01_callback_existing(chk, ex, "C02.callback.deferred")
    ex = explore("callback_result")
    handler_preamble(chk, ex, FUNCS["callback_result"])
    hobl.c14_callback_result(chk, ex)
    from . import c20
    c20.strict_error_roundtrip(chk, "C02")
    from . import executor_contracts as X
    from . import state_contracts as _S
    _S.create_checkpoint(chk, "C02", want=("C10",))    # a straggler's late SUCCEED under a completed batch is refused: the replayed batch equals the one first delivered
    _S.mark_orphans(chk, "C02")
    _S.merge_all_pages(chk, "C02")
    X.batch_replay_consistency(chk, "C02")
    X.item_in_child_context(chk, "C02")   # a branch resumed inside the invocation re-runs on a FRESH context: its completed steps are found under the same ids and replayed, not run again with new values
    X.replay_items(chk, "C02")   # the batch rebuilt from records is classified with the SAME completion config as the first run
    c20.strict_payload_decode(chk, "C02")   # the recorded result a replay deserializes is the text that was delivered ('' stays '')
    from . import misc_contracts
    misc_contracts.error_from_exception_contract(chk, "C02")   # the recorded error of a failing run is (str(e), class name): what every replay rebuilds the exception from
    from . import c15
    c15.containers(chk, only=("list", "dict.str_keys"), prefix="C02")
    c15.serialized_text_is_ascii(chk, "C02", want=("flags",))   # dictionaries come back in the order they were delivered in: no json flag reorders or rewrites them
    c15.nested_leaves(chk, c15.LEAVES, prefix="C02")   # base case: a primitive inside a container comes back as the same value of the same type (a replayed inf is a float, not the text 'inf')
    c15.containers(chk, only=("batch_result",), prefix="C02")   # a replayed map / parallel result equals the first one item by item (falsy results included)   # RT for containers incl. ownership: what a replay delivers is a fresh value, not an object another delivery can have mutated
    from . import lockset
    lockset.lock_discipline(chk, "C02", ["operations"])   # a re-invocation (REPLAY status) must not raise what the first run cannot: track_replay iterates the map the checkpoint thread updates

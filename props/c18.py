"""C18 - every invocation ends with exactly one well-formed, correctly classified outcome."""
from . import wrapper_contracts


def run(chk):
    chk.assume("S: ThreadPoolExecutor.__exit__ joins the handler thread and the checkpoint thread; Future.result() returns the handler's value or re-raises what it raised")
    chk.assume("S: json.dumps returns a non-empty str or raises TypeError/ValueError")
    chk.assume("the invocation event is a DurableExecutionInvocationInputWithClient or a payload parsed by from_json_dict (C20); a payload that cannot be parsed raises before any thread starts")
    chk.trust("python semantics of the stated subset as encoded by pyvc (DESIGN 2.3)")
    chk.trust("z3 5.1.0")
    wrapper_contracts.wrapper_obligations(chk, "C18", want=("C18", "C06", "C07"))
    from . import misc_contracts
    misc_contracts.input_payload_contract(chk, "C18")   # the contract of get_input_payload used at the wrapper's call site, against its body
    misc_contracts.error_from_exception_contract(chk, "C18")   # a FAILED outcome carries a string message whatever the exception was built from
    misc_contracts.small_models(chk, "C18")   # constructors and accessors the larger contracts pass through
    wrapper_contracts.client_errors_wrapped(chk, "C18")
    wrapper_contracts.control_signals_not_exceptions(chk, "C18")
    wrapper_contracts.checkpoint_error_classification(chk, "C18")
    from . import batcher
    batcher.check_consumer(chk, "C18")
    from . import state_contracts
    state_contracts.create_checkpoint(chk, "C18", want=("C06",))   # a caller arriving after the checkpoint thread failed is refused at once (fail fast, re-check after the put): it never blocks forever
    from . import executor_contracts as _X
    _X.on_task_complete(chk, "C18", want=("C06", "C07"))          # a checkpoint failure inside a map / parallel branch ends as FAILED / raise, never as PENDING
    state_contracts.completion_event_contract(chk, "C18")   # a woken caller sees the failure (error stored before the event is set): a failed checkpoint never ends in SUCCEEDED  # the safety causes of "no outcome at all": every blocked caller is woken when the API fails

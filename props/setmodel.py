"""Container models for sets / maps keyed by operation ids (z3 arrays over strings) and for lists of opaque
operations (z3 sequences of ghost element ids).  Trusted semantics S of set / dict / list operations."""
from __future__ import annotations

import z3

from pyvc import ops
from pyvc.ops import F, T
from pyvc.values import Opt, Ref, Sym, Unsupported, fresh, fresh_name, is_sym, simp, zstr

SS = z3.StringSort()
SETSORT = z3.ArraySort(SS, z3.BoolSort())
op_id = z3.Function("op_id", z3.IntSort(), SS)  # operation_id of ghost operation element i


def arr_of(st, v):
    """Array(String->Bool) denoting a set value"""
    if isinstance(v, Ref):
        s = st.get(v)
        k = s.get("__kind__")
        if k == "zset":
            return s["arr"]
        if k == "set":
            a = z3.K(SS, False)
            for x in s["items"]:
                a = z3.Store(a, zstr(x), True)
            return a
        if k == "zsetview":
            m = st.get(s["map"])
            return z3.Select(m["sets"], s["key"])
    raise Unsupported(f"not a set: {v!r}")


def new_zset(st, arr=None, name="set"):
    ref = st.alloc("zset", {"__kind__": "zset", "arr": arr if arr is not None else z3.Array(fresh_name(name), SS, z3.BoolSort())})
    stor = dict(st.get(ref))
    stor["nonempty"] = (lambda r: (lambda st_: z3.Exists([z3.String("k!ne")], z3.Select(st_.get(r)["arr"], z3.String("k!ne")))))(ref)
    st.put(ref, stor)
    return ref


def new_zmapset(st, name="map"):
    return st.alloc("zmapset", {"__kind__": "zmapset", "has": z3.Array(fresh_name(name + ".has"), SS, z3.BoolSort()), "sets": z3.Array(fresh_name(name + ".sets"), SS, SETSORT)})


def rel(st, mref, p, c):
    """R(p, c): c is registered as a child of p"""
    m = st.get(mref)
    return z3.And(z3.Select(m["has"], p), z3.Select(z3.Select(m["sets"], p), c))


class SetModel:
    def contains(self, eng, st, ref, item):
        s = st.get(ref)
        k = s["__kind__"]
        if k in ("zset", "zsetview"):
            return z3.Select(arr_of(st, ref), zstr(eng.unopt(st, item)))
        if k == "zmapset":
            return z3.Select(s["has"], zstr(eng.unopt(st, item)))
        raise Unsupported(k)

    def getitem(self, eng, st, ref, key):
        s = st.get(ref)
        if s["__kind__"] == "zmapset":
            kt = zstr(eng.unopt(st, key))
            out = []
            for has, s2 in eng.branch(st, z3.Select(s["has"], kt)):
                if has:
                    out.append(("val", s2.alloc("zsetview", {"__kind__": "zsetview", "map": ref, "key": kt}), s2))
                else:
                    out.extend(eng.raise_ext(s2, "KeyError", "key"))
            return out
        raise Unsupported("getitem")

    def setitem(self, eng, st, ref, key, v):
        s = st.get(ref)
        if s["__kind__"] == "zmapset":
            kt = zstr(eng.unopt(st, key))
            st.put(ref, dict(s, has=z3.Store(s["has"], kt, True), sets=z3.Store(s["sets"], kt, arr_of(st, v))))
            return [st]
        raise Unsupported("setitem")

    def method(self, eng, st, ref, name, args, kwargs):
        s = st.get(ref)
        k = s["__kind__"]
        if k == "zset":
            if name == "add":
                st.put(ref, dict(s, arr=z3.Store(s["arr"], zstr(eng.unopt(st, args[0])), True)))
                return [("val", None, st)]
            if name == "discard":
                st.put(ref, dict(s, arr=z3.Store(s["arr"], zstr(eng.unopt(st, args[0])), False)))
                return [("val", None, st)]
            if name == "update":
                other = arr_of(st, args[0])
                na = z3.Array(fresh_name("union"), SS, z3.BoolSort())
                k_ = z3.String(fresh_name("k"))
                st.assume(z3.ForAll([k_], z3.Select(na, k_) == z3.Or(z3.Select(s["arr"], k_), z3.Select(other, k_))))
                st.put(ref, dict(s, arr=na))
                return [("val", None, st)]
            if name == "pop":
                x = fresh("str", "popped")
                out = []
                for ne, s2 in eng.branch(st, s["nonempty"](st)):
                    if ne:
                        cur = s2.get(ref)
                        s2.assume(z3.Select(cur["arr"], x.t))
                        s2.put(ref, dict(cur, arr=z3.Store(cur["arr"], x.t, False)))
                        out.append(("val", x, s2))
                    else:
                        out.extend(eng.raise_ext(s2, "KeyError", "pop from an empty set"))
                return out
        if k == "zsetview":
            if name == "add":
                m = st.get(s["map"])
                cur = z3.Select(m["sets"], s["key"])
                st.put(s["map"], dict(m, sets=z3.Store(m["sets"], s["key"], z3.Store(cur, zstr(eng.unopt(st, args[0])), True))))
                return [("val", None, st)]
        if k == "zmapset":
            if name == "get":
                kt = zstr(eng.unopt(st, args[0]))
                dflt = arr_of(st, args[1]) if len(args) > 1 else None
                if dflt is None:
                    raise Unsupported("zmapset.get without default")
                return [("val", new_zset(st, z3.If(z3.Select(s["has"], kt), z3.Select(s["sets"], kt), dflt)), st)]
        raise Unsupported(f"{k}.{name}")

    def len(self, eng, st, ref):
        return [("val", fresh("int", "setlen"), st)]


# ------------------------------------------------------------------------------------------------ lists of opaque operations
SEQ = z3.SeqSort(z3.IntSort())


def new_zseq(st, seq=None, name="ops"):
    return st.alloc("list", {"__kind__": "zseq", "seq": seq if seq is not None else z3.Const(fresh_name(name), SEQ)})


class SeqModel:
    """python list of opaque Operation elements as a z3 sequence of ghost element ids"""

    def method(self, eng, st, ref, name, args, kwargs):
        s = st.get(ref)
        if name == "copy":
            return [("val", new_zseq(st, s["seq"]), st)]
        if name == "extend":
            o = st.get(args[0])
            if o.get("__kind__") != "zseq":
                raise Unsupported("extend with a non-symbolic list")
            st.put(ref, dict(s, seq=z3.Concat(s["seq"], o["seq"])))
            return [("val", None, st)]
        raise Unsupported(f"zseq.{name}")

    def len(self, eng, st, ref):
        return [("val", Sym("int", z3.Length(st.get(ref)["seq"])), st)]

    def comp(self, eng, st, e, gen, it, kind):
        """{op.operation_id: op for op in ops}: key/value evaluated on a generic element; result is a 'seqdict'"""
        if kind != "dict" or gen.ifs:
            raise Unsupported("only unfiltered dict comprehensions over operation lists")
        s = st.fork()
        j = z3.Int(fresh_name("j"))
        elem = s.alloc("opaque:OpElem", {"idx": Sym("int", j)})
        for s1 in eng.bind_target(gen.target, elem, s):
            res = eng.ev_seq([e.key, e.value], s1)
            if len(res) != 1 or res[0][0] != "val":
                raise Unsupported("comprehension element forks")
            key, val = res[0][1]
            key_ok = is_sym(key, "str") and z3.eq(simp(key.t), simp(op_id(j)))
            val_ok = isinstance(val, Ref) and val.oid == elem.oid
            return [("val", st.alloc("dict", {"__kind__": "seqdict", "seq": st.get(it)["seq"], "key_is_operation_id": bool(key_ok), "value_is_element": bool(val_ok)}), st)]
        raise Unsupported("comprehension target")


op_par = z3.Function("op_parent_id", z3.IntSort(), SS)
op_par_none = z3.Function("op_parent_id_is_none", z3.IntSort(), z3.BoolSort())


def opelem_attr(st, ref, name):
    if ref.cls == "opaque:OpElem" and name == "operation_id":
        return Sym("str", op_id(st.get(ref)["idx"].t))
    if ref.cls == "opaque:OpElem" and name == "parent_id":
        from pyvc.ops import mk_opt
        i = st.get(ref)["idx"].t
        return mk_opt(op_par_none(i), Sym("str", op_par(i)))
    return None

"""Contracts of context.py (DurableContext) verified against the real bodies: operation identity (C08) and the
replay-tracking calls (C17)."""
from __future__ import annotations

import z3

from pyvc import ops
from pyvc.engine import Engine, Hooks
from pyvc.loader import ClassInfo
from pyvc.ops import F, T, is_none, mk_opt, strip_opt
from pyvc.state import St
from pyvc.values import ClassRef, ExtRef, FuncRef, OpaqueFn, Opt, Ref, Sym, Unsupported, enum_sort, fresh, fresh_name, is_sym, simp, zbool, zint, zstr

H = z3.Function("blake2b_hexdigest", z3.StringSort(), z3.StringSort())
DC = "context.DurableContext"


def enc(parent, n):
    """spec function: the text that identifies a position - parent id and call index"""
    p_truthy = z3.And(z3.Not(is_none(parent)), z3.Length(zstr(strip_opt(parent))) > 0) if parent is not None else F
    num = ops.int_to_str(n)
    if parent is None:
        return num
    return z3.If(p_truthy, z3.Concat(zstr(strip_opt(parent)), z3.StringVal("-"), num), num)


def spec_id(parent, n):
    return z3.SubString(H(enc(parent, n)), 0, 64)


class CtxHooks(Hooks):
    def ext_call(self, eng, st, name, args, kwargs):
        if name == "hashlib.blake2b":
            a = args[0]
            if not (isinstance(a, tuple) and a and a[0] == "bytes_of"):
                raise Unsupported("blake2b of a non-encoded value")
            return [("val", st.alloc("opaque:blake2b", {"of": a[1]}), st)]
        if name in ("threading.Lock", "Lock"):
            return [("val", st.alloc("opaque:Lock", {}), st)]
        if name in ("collections.deque", "deque"):
            return [("val", st.alloc("opaque:deque", {}), st)]
        return None

    def opaque_call(self, eng, st, fn, args, kwargs):
        n = fn.name
        if n == "blake2b.hexdigest":
            return [("val", Sym("str", H(zstr(st.get(fn.info)["of"]))), st)]
        if n == "ExecutionState.track_replay":
            st.emit("track", id=kwargs.get("operation_id", args[0] if args else None))
            return [("val", None, st)]
        if n.startswith("stdlogger."):
            return [("val", None, st)]
        return Hooks.opaque_call(self, eng, st, fn, args, kwargs)

    def func_attr(self, eng, st, fn, name, default):
        if name in st.ghost.get("__func_attrs__", {}).get(id(fn), {}):
            return Hooks.func_attr(self, eng, st, fn, name, default)   # an attribute the executed code stored itself
        if name == "_original_name":
            return [("val", eng.sym_of_type("str | None", "original_name", st), st)]
        return [("val", default, st)]


def make_ctx(eng, st):
    P = eng.program
    parent = eng.sym_of_type("str | None", "parent_id", st)
    counter0 = z3.Int("counter0")
    st.assume(counter0 >= 0)
    state = st.alloc("opaque:ExecutionState", {"durable_execution_arn": fresh("str", "arn")})
    counter = st.alloc("opaque:OrderedCounter", {})
    st.ghost["counter"] = counter0
    logger = st.alloc(P.cls("logger.Logger"), {"_logger": st.alloc("opaque:stdlogger", {}), "_default_extra": st.alloc("dict", {"__kind__": "dict", "e": {}, "open": False}), "_execution_state": state})
    ctx = st.alloc(P.cls(DC), {"state": state, "execution_context": st.alloc("opaque:ExecutionContext", {}), "lambda_context": None, "_parent_id": parent, "_step_counter": counter,
                               "_log_info": st.alloc("opaque:LogInfo", {}), "logger": logger})
    return ctx, parent, counter0, state


class CounterHooks(CtxHooks):
    def opaque_call(self, eng, st, fn, args, kwargs):
        if fn.name.startswith("OrderedCounter."):
            m = fn.name.split(".")[1]
            st.emit("counter", method=m)
            if m == "increment":  # contract of OrderedCounter.increment (C19.counter.sequence): the k-th call returns k
                st.ghost["counter"] = st.ghost["counter"] + 1
                return [("val", Sym("int", st.ghost["counter"]), st)]
            if m == "get_current":
                return [("val", Sym("int", st.ghost["counter"]), st)]
            raise Unsupported(fn.name)
        return CtxHooks.opaque_call(self, eng, st, fn, args, kwargs)


def counter_use(chk, prefix="C08"):
    """_create_step_id: exactly one increment(), and the id is the id of the value THAT increment returned"""
    eng = Engine(hooks=CounterHooks())
    P = eng.program
    st = St()
    ctx, parent, c0, state = make_ctx(eng, st)
    q = DC + "._create_step_id"
    chk.function(q)
    for k, v, s in eng.run(P.func(q), [ctx], st=st):
        chk.paths += 1
        calls = [e for e in s.trace if e.kind == "counter"]
        chk.prove(f"{prefix}.ctx.counter", s.pc, z3.And(z3.BoolVal(k == "val" and len(calls) == 1 and calls[0].method == "increment"), s.ghost["counter"] == c0 + 1, zstr(v) == spec_id(parent, c0 + 1)) if k == "val" else F,
                  desc="each id is taken with exactly one atomic increment of the context's counter and is the id of the value that increment returned (not of a later read of the counter, which other threads may have advanced)",
                  sample="_create_step_id: one increment(), id == id_for(counter0 + 1)")
    return eng


def id_contracts(chk, prefix="C08"):
    eng = Engine(hooks=CounterHooks())
    P = eng.program
    # ---- _create_step_id_for_logical_step
    st = St()
    ctx, parent, c0, state = make_ctx(eng, st)
    n = fresh("int", "step")
    st.assume(n.t >= 0)
    before = dict(st.heap)
    q = DC + "._create_step_id_for_logical_step"
    chk.function(q)
    for k, v, s in eng.run(P.func(q), [ctx, n], st=st):
        chk.paths += 1
        unchanged = all(s.heap.get(oid) is stor for oid, stor in before.items())
        chk.prove(f"{prefix}.ctx.id_is_hash_of_path", s.pc, z3.And(z3.BoolVal(k == "val" and unchanged and not s.trace), zstr(v) == spec_id(parent, n.t)) if k == "val" else F,
                  desc="the id of logical step n is blake2b(parent_id + '-' + n, or n at the root)[:64]: a pure function of (parent id, n); nothing is read but _parent_id, nothing is written",
                  sample="_create_step_id_for_logical_step(n) == hash(enc(parent_id, n))[:64]")
    counter_use(chk, prefix)
    # ---- injectivity lemma (strings)
    p1, p2 = z3.String("p1"), z3.String("p2")
    n1, n2 = z3.Int("n1"), z3.Int("n2")
    ishex = lambda p: z3.And(z3.Length(p) == 64, z3.Not(z3.Contains(p, z3.StringVal("-"))))  # noqa: E731  (what the lemma needs of a 64-hex-digit id)
    e1 = z3.Concat(p1, z3.StringVal("-"), z3.IntToStr(n1))
    e2 = z3.Concat(p2, z3.StringVal("-"), z3.IntToStr(n2))
    pre = [ishex(p1), ishex(p2), n1 >= 0, n2 >= 0]
    chk.prove(f"{prefix}.lemma.injective.nested", pre + [e1 == e2], z3.And(p1 == p2, n1 == n2), desc="for 64-hex-digit parent ids: parent + '-' + n determines (parent, n)", timeout_ms=60_000)
    chk.prove(f"{prefix}.lemma.injective.root_vs_nested", pre, e1 != z3.IntToStr(n2), desc="a root-level position text (digits only) never equals a nested one (contains '-')")
    chk.prove(f"{prefix}.lemma.injective.root", [n1 >= 0, n2 >= 0, z3.IntToStr(n1) == z3.IntToStr(n2)], n1 == n2, desc="decimal text determines the number")
    chk.assume("S (cryptographic): blake2b truncated to 64 hex digits is collision-free on the position texts that occur; ids are 64 hex digits")
    return eng


OPS = {  # method -> (executor process qualname or None, kind)
    "step": "operation.step.StepOperationExecutor", "wait": "operation.wait.WaitOperationExecutor", "invoke": "operation.invoke.InvokeOperationExecutor",
    "create_callback": "operation.callback.CallbackOperationExecutor", "wait_for_condition": "operation.wait_for_condition.WaitForConditionOperationExecutor",
    "run_in_child_context": None, "map": None, "parallel": None}


def operation_methods(chk, prefix, want):
    """every operation method of DurableContext: one id from the counter, identifier (id, parent = this context's parent id), child contexts
    parented by the id, and track_replay(id) after the handler returned normally"""
    for meth, exe_cls in OPS.items():
        eng = Engine(hooks=CounterHooks())
        P = eng.program
        st = St()
        ctx, parent, c0, state = make_ctx(eng, st)
        q = f"{DC}.{meth}"
        chk.function(q, "verified (handler process() / child_handler by contract: returns or raises)")

        def process(eng_, s, args, kwargs):
            s.emit("process", exe=args[0])
            s2 = s.fork()
            exc = eng_.new_symexc(s2, "process")
            s2.emit("process_raised", exc=exc)
            r = fresh("any", "process_result") if meth != "create_callback" else fresh("str", "callback_id")
            s.trace[-1].d["result"] = r
            return [("val", r, s), ("raise", exc, s2)]

        def child_handler(eng_, s, args, kwargs):
            s.emit("child_handler", func=kwargs.get("func", args[0] if args else None), state=kwargs.get("state"), ident=kwargs.get("operation_identifier"), config=kwargs.get("config"))
            out = []
            for k, v, s2 in eng_.call_value(s.trace[-1].func, [], {}, s):
                out.append((k, v, s2))
            return out

        def inner_handler(name):
            def h(eng_, s, args, kwargs):
                s.emit("inner", name=name, kwargs=dict(kwargs))
                return [("val", fresh("any", "batch_result"), s)]
            return h
        if exe_cls:
            eng.summaries[exe_cls + ".process"] = process
            eng.summaries["operation.base.OperationExecutor.process"] = process
        eng.summaries["operation.child.child_handler"] = child_handler
        eng.summaries["operation.map.map_handler"] = inner_handler("map")
        eng.summaries["operation.parallel.parallel_handler"] = inner_handler("parallel")
        user = OpaqueFn("user_func")
        name = eng.sym_of_type("str | None", "name", st)
        dur = st.alloc(P.cls("config.Duration"), {"seconds": fresh("int", "seconds")})
        args = {"step": [user], "wait": [dur], "invoke": [fresh("str", "function_name"), fresh("any", "payload")], "create_callback": [], "run_in_child_context": [user],
                "wait_for_condition": [user, st.alloc(P.cls("waits.WaitForConditionConfig"), {"wait_strategy": OpaqueFn("wait_strategy"), "initial_state": fresh("any", "init"), "serdes": None})],
                "map": [st.alloc("list", {"__kind__": "list", "items": ()}), user], "parallel": [st.alloc("list", {"__kind__": "list", "items": ()})]}[meth]

        class HH(CounterHooks):
            def opaque_call(self, eng_, s, fn, a, kw):
                if fn.name == "user_func":
                    s.emit("user", args=tuple(a))
                    return [("val", fresh("any", "user_ret"), s)]
                return CounterHooks.opaque_call(self, eng_, s, fn, a, kw)
        eng.hooks = HH()
        res = eng.run(P.func(q), [ctx] + args, {"name": name}, st=st)
        chk.paths += len(res)
        the_id = spec_id(parent, c0 + 1)
        for k, v, s in res:
            tr = s.trace
            counters = [e for e in tr if e.kind == "counter"]
            procs = [e for e in tr if e.kind in ("process", "child_handler")]
            tracks = [e for e in tr if e.kind == "track"]
            validation = k == "raise" and isinstance(v, Ref) and getattr(v.cls, "name", "") == "ValidationError" and not counters
            if validation:
                continue  # argument validation happens before an id is taken (no position is consumed)
            ok = len(counters) == 1 and counters[0].method == "increment" and len(procs) == 1
            goal = z3.BoolVal(ok)
            if ok and "C08" in want:
                p = procs[0]
                if p.kind == "process":
                    ident = s.get(s.get(p.exe)["operation_identifier"])
                else:
                    ident = s.get(p.ident)
                goal = z3.And(goal, zstr(ident["operation_id"]) == the_id, ops.values_equal(s, ident["parent_id"], parent))
                for e in tr:
                    if e.kind == "user" and meth == "run_in_child_context":
                        cc = e.args[0]
                        goal = z3.And(goal, zstr(s.get(cc)["_parent_id"]) == the_id, z3.BoolVal(s.get(cc)["state"] == state and s.get(cc)["_step_counter"] != s.get(ctx)["_step_counter"]))
                        lg = s.get(cc)["logger"]
                        if "C17" in want:
                            ok_l = isinstance(lg, Ref) and getattr(lg.cls, "name", "") == "Logger" and s.get(lg)["_execution_state"] == state and s.get(lg)["_logger"] == s.get(s.get(ctx)["logger"])["_logger"]
                            chk.prove(f"{prefix}.ctx.child_logger_gated", s.pc, bool(ok_l), desc="a child context's logger is a context Logger bound to the same execution state (so it is silent while replaying) and the same sink")
                    if e.kind == "inner":
                        cc = e.kwargs.get("map_context") or e.kwargs.get("parallel_context")
                        oi = s.get(e.kwargs["operation_identifier"])
                        goal = z3.And(goal, zstr(s.get(cc)["_parent_id"]) == the_id, zstr(oi["operation_id"]) == the_id, ops.values_equal(s, oi["parent_id"], parent), z3.BoolVal(e.kwargs.get("execution_state") == state))
                chk.prove(f"{prefix}.ops.parent_link.{meth}", s.pc, goal,
                          desc=f"{meth}: exactly one id is taken from the counter; the operation is identified by (that id, parent = this context's parent id); any child context it creates has parent id = that id, the same state and a fresh counter",
                          sample=f"DurableContext.{meth}: identifier == (id_for(counter+1), _parent_id)")
            if "C17" in want:
                normal = k == "val"
                good = (len(tracks) == 1 and tr.index(tracks[0]) > tr.index(procs[0])) if (normal and procs) else (not tracks)
                g2 = z3.BoolVal(bool(good))
                if normal and tracks and procs:
                    g2 = z3.And(g2, zstr(tracks[0].id) == the_id)
                chk.prove(f"{prefix}.ctx.track_after_op.{meth}", s.pc, g2,
                          desc=f"{meth}: track_replay(operation id) is called exactly once, after the handler returned normally, and not at all when it raised or suspended")
    return None


def wait_validation(chk, prefix="C03"):
    """DurableContext.wait: durations below one second are rejected before an id is taken; the handler receives the duration's seconds (>= 1)"""
    eng = Engine(hooks=CounterHooks())
    P = eng.program
    st = St()
    ctx, parent, c0, state = make_ctx(eng, st)
    secs = fresh("int", "seconds")
    st.assume(secs.t >= 0)
    dur = st.alloc(P.cls("config.Duration"), {"seconds": secs})

    def process(eng_, s, args, kwargs):
        s.emit("process", exe=args[0])
        return [("val", None, s)]
    eng.summaries["operation.base.OperationExecutor.process"] = process
    for k, v, s in eng.run(P.func(DC + ".wait"), [ctx, dur], st=st):
        chk.paths += 1
        procs = [e for e in s.trace if e.kind == "process"]
        if procs:
            goal = z3.And(secs.t >= 1, zint(s.get(procs[0].exe)["seconds"]) == secs.t)
        else:
            goal = z3.And(z3.BoolVal(k == "raise" and getattr(getattr(v, "cls", None), "name", "") == "ValidationError" and not [e for e in s.trace if e.kind == "counter"]), secs.t < 1)
        chk.prove(f"{prefix}.ctx.wait_validates", s.pc, goal, desc="wait(duration): fewer than 1 second is rejected with ValidationError before any id is consumed; otherwise the wait handler gets exactly the duration's seconds (>= 1: the precondition of the wait handler's contract)")


def wait_for_callback_order(chk, prefix="C14"):
    """wait_for_callback_handler: create the callback, run the submitter in a step with the callback id, then await the result"""
    eng = Engine(hooks=CtxHooks())
    P = eng.program
    st = St()
    q = "operation.callback.wait_for_callback_handler"
    chk.function(q)
    cb = st.alloc("opaque:Callback", {"callback_id": fresh("str", "callback_id")})

    class H(CtxHooks):
        def opaque_call(self, eng_, s, fn, args, kwargs):
            n = fn.name
            if n == "DurableContext.create_callback":
                s.emit("create_callback", kwargs=dict(kwargs))
                return [("val", cb, s)]
            if n == "DurableContext.step":
                s.emit("step", kwargs=dict(kwargs))
                # the step runs the submitter function it was given
                sc = s.alloc(P.cls("types.StepContext"), {"logger": s.alloc("opaque:stdlogger", {})})
                out = []
                for k, v, s2 in eng_.call_value(kwargs.get("func"), [sc], {}, s):
                    out.append((k, v, s2))
                return out
            if n == "Callback.result":
                s.emit("result")
                return [("val", fresh("any", "callback_result"), s)]
            if n == "submitter":
                s.emit("submitter", args=tuple(args))
                return [("val", None, s)]
            return CtxHooks.opaque_call(self, eng_, s, fn, args, kwargs)
    eng.hooks = H()
    ctx = st.alloc("opaque:DurableContext", {})
    for k, v, s in eng.run(P.func(q), [ctx, OpaqueFn("submitter"), eng.sym_of_type("str | None", "name", st), None], st=st):
        chk.paths += 1
        kinds = [e.kind for e in s.trace]
        sub = [e for e in s.trace if e.kind == "submitter"]
        ok = k == "val" and kinds == ["create_callback", "step", "submitter", "result"]
        goal = z3.BoolVal(ok)
        if ok:
            goal = z3.And(goal, ops.values_equal(s, sub[0].args[0], s.get(cb)["callback_id"]))
        chk.prove(f"{prefix}.wfcb.order", s.pc, goal, desc="wait_for_callback: create the callback -> submitter step (receives the callback id) -> result(), each through its own contract")


def wait_for_callback_method(chk, prefix="C14"):
    """DurableContext.wait_for_callback: ONE child context (one id of this context) whose body is wait_for_callback_handler(child ctx, submitter, name, config)"""
    eng = Engine(hooks=CounterHooks())
    P = eng.program
    st = St()
    ctx, parent, c0, state = make_ctx(eng, st)
    q = DC + ".wait_for_callback"
    chk.function(q)
    name = fresh("str", "name")
    cfg = st.alloc("opaque:WaitForCallbackConfig", {})
    submitter = OpaqueFn("submitter")

    def ricc(eng_, s, args, kwargs):
        s.emit("run_in_child_context", func=args[1], name=args[2] if len(args) > 2 else kwargs.get("name"), extra=len(args) > 3 or bool(set(kwargs) - {"name"}))
        child = s.alloc("opaque:DurableContext", {"__child__": True})
        s.ghost["child"] = child
        return eng_.call_value(args[1], [child], {}, s)

    def handler(eng_, s, args, kwargs):
        s.emit("wfc_handler", args=tuple(args), kwargs=dict(kwargs))
        return [("val", fresh("any", "callback_payload"), s)]
    eng.summaries[DC + ".run_in_child_context"] = ricc
    eng.summaries["operation.callback.wait_for_callback_handler"] = handler
    for k, v, s in eng.run(P.func(q), [ctx, submitter, name, cfg], st=st):
        chk.paths += 1
        r = [e for e in s.trace if e.kind == "run_in_child_context"]
        h = [e for e in s.trace if e.kind == "wfc_handler"]
        ok = k == "val" and len(r) == 1 and len(h) == 1 and not r[0].extra and len(h[0].args) == 4 and not h[0].kwargs
        goal = z3.BoolVal(ok)
        if ok:
            a = h[0].args
            goal = z3.And(goal, z3.BoolVal(a[0] == s.ghost.get("child") and a[1] is submitter and a[3] == cfg), ops.values_equal(s, a[2], r[0].name),
                          z3.Implies(z3.Length(name.t) > 0, ops.values_equal(s, r[0].name, name)))
        chk.prove(f"{prefix}.wfcb.method", s.pc, goal,
                  desc="wait_for_callback(submitter, name, config) runs exactly one child context named by the resolved name (`name` when it is non-empty, else the submitter's original name; one id of this context) whose body is wait_for_callback_handler(child context, submitter, name, config), and returns its value")
    return eng


def decorators(chk, prefix="C08"):
    """durable_step / durable_with_child_context / durable_wait_for_callback: binding extra arguments does not change what is called, and the
    bound function carries the ORIGINAL function's name (the name under which the operation is recorded when no name is given)"""
    for dec, lead in (("durable_step", 1), ("durable_with_child_context", 1), ("durable_wait_for_callback", 2)):
        eng = Engine(hooks=CtxHooks())
        P = eng.program
        st = St()
        q = f"context.{dec}"
        chk.function(q, "verified (closure chain executed: decorator -> wrapper(*args, **kwargs) -> bound function)")

        class H(CtxHooks):
            def opaque_fn_attr(self, eng_, s, fn, name):
                if fn.name == "user_function" and name == "__name__":
                    return [("val", "user_function", s)]
                return CtxHooks.opaque_fn_attr(self, eng_, s, fn, name)

            def opaque_call(self, eng_, s, fn, args, kwargs):
                if fn.name == "user_function":
                    s.emit("user_function", args=tuple(args), kwargs=dict(kwargs))
                    return [("val", fresh("any", "user_result"), s)]
                return CtxHooks.opaque_call(self, eng_, s, fn, args, kwargs)
        eng.hooks = H()
        user = OpaqueFn("user_function")
        a1, b1 = fresh("any", "extra_positional"), fresh("any", "extra_keyword")
        lead_args = [fresh("any", f"leading{i}") for i in range(lead)]
        n = 0
        for k1, wrapper, s1 in eng.run(P.func(q), [user], st=st):
            if k1 != "val":
                chk.prove(f"{prefix}.decorators.{dec}", s1.pc, F, desc="the decorator does not raise")
                continue
            for k2, bound, s2 in eng.call_value(wrapper, [a1], {"extra": b1}, s1):
                if k2 != "val":
                    chk.prove(f"{prefix}.decorators.{dec}", s2.pc, F, desc="binding arguments does not raise")
                    continue
                nm = eng.getattr_default(bound, "_original_name", None, s2)
                for k3, res, s3 in eng.call_value(bound, list(lead_args), {}, s2):
                    n += 1
                    chk.paths += 1
                    calls = [e for e in s3.trace if e.kind == "user_function"]
                    ok = k3 == "val" and len(calls) == 1 and len(nm) == 1 and nm[0][0] == "val" and nm[0][1] == "user_function"
                    goal = z3.BoolVal(ok)
                    if ok:
                        c = calls[0]
                        goal = z3.And(goal, z3.BoolVal(len(c.args) == lead + 1 and all(x is y for x, y in zip(c.args, lead_args + [a1])) and set(c.kwargs) == {"extra"} and c.kwargs["extra"] is b1),
                                      z3.BoolVal(is_sym(res, "any") and res.t.decl().name().startswith("user_result")))
                    chk.prove(f"{prefix}.decorators.{dec}", s3.pc, goal,
                              desc=f"{dec}(f)(*a, **k) is a function g with g._original_name == f.__name__ and g(leading...) == f(leading..., *a, **k): the user function is called exactly once with the leading argument(s) first, and its value is returned")
        if n == 0:
            chk.prove(f"{prefix}.decorators.{dec}", [], F, desc=f"reachability: {dec}(f)(*a)(ctx) reaches the user function on some path")


def batch_summary_wiring(chk, prefix="C16"):
    """DurableContext.map / parallel: the summary generator of the configuration (default: Map/ParallelSummaryGenerator) is handed to the child
    handler of the WHOLE operation - the place where the BatchResult is serialized and, when oversized, summarised"""
    for meth, default_cls, cfg_cls in (("map", "MapSummaryGenerator", "config.MapConfig"), ("parallel", "ParallelSummaryGenerator", "config.ParallelConfig")):
        for with_cfg in (False, True):
            eng = Engine(hooks=CounterHooks())
            P = eng.program
            st = St()
            ctx, parent, c0, state = make_ctx(eng, st)
            user_sg = OpaqueFn("user_summary_generator")
            cfg = None
            if with_cfg:
                made = eng.construct(P.cls(cfg_cls), [], {"summary_generator": user_sg}, st)
                cfg, st = made[0][1], made[0][2]

            def child_handler(eng_, s, args, kwargs):
                s.emit("child_handler", config=kwargs.get("config"))
                return [("val", fresh("any", "batch_result"), s)]
            eng.summaries["operation.child.child_handler"] = child_handler
            args = [st.alloc("list", {"__kind__": "list", "items": ()})] + ([OpaqueFn("user_func")] if meth == "map" else [])
            for k, v, s in eng.run(P.func(f"{DC}.{meth}"), [ctx] + args, {"name": None, "config": cfg}, st=st):
                chk.paths += 1
                ch = [e for e in s.trace if e.kind == "child_handler"]
                ok = len(ch) == 1 and isinstance(ch[0].config, Ref)
                if ok:
                    sg = s.get(ch[0].config).get("summary_generator")
                    if with_cfg:
                        ok = sg is user_sg
                    else:
                        ok = isinstance(sg, Ref) and getattr(sg.cls, "name", "") == default_cls
                chk.prove(f"{prefix}.ctx.batch_summary_wiring.{meth}", s.pc, z3.BoolVal(bool(ok)),
                          desc=f"{meth}: the child handler of the whole operation gets the configuration's summary generator ({default_cls}() when no configuration is given), so an oversized BatchResult is recorded as that summary")

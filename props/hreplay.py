"""Native replay / CPython cross-check of handler paths: a model of the path condition is projected onto concrete inputs,
the REAL handler is run under /venv/bin/python with only the boundary stubbed, and the observed trace and outcome are
compared with the engine's prediction for that path (DESIGN 2.11, 2.12)."""
from __future__ import annotations

import z3

from pyvc.check import native
from pyvc.concretize import concretize, ev, z3_to_py
from pyvc.loader import ClassInfo
from pyvc.values import Ref, is_sym

from .handlers import USER_FUNCS, upd

USER_NAME = {"step": "user_func", "child": "child_func", "wfc": "check_func"}


def scenario(ex, path, model):
    k, v, st = path
    records, outcomes, calls, clocks, expected = [], [], [], [], []
    slen = z3.Function("slen", z3.StringSort(), z3.IntSort())
    tr = st.trace
    for i, e in enumerate(tr):
        if e.kind == "read":
            records.append(concretize(e.rec, model, st))
            expected.append({"read": "record"})
        elif e.kind == "cp":
            outcomes.append(e.outcome)
            u = concretize(e.update, model, st)
            f = u.get("fields", {})
            so, co = f.get("step_options"), f.get("context_options")
            expected.append({"cp": f["action"]["member"], "type": f["operation_type"]["member"], "is_sync": bool(concretize(e.is_sync, model, st)), "outcome": e.outcome,
                             "delay": so["fields"]["next_attempt_delay_seconds"] if so else None, "replay_children": co["fields"]["replay_children"] if co else None})
        elif e.kind == "clock":
            clocks.append(float(z3_to_py(ev(model, e.t.t))))
        elif e.kind == "call":
            raised = tr[i + 1] if i + 1 < len(tr) and tr[i + 1].kind == "raised" and tr[i + 1].name == e.name else None
            name = "retry_strategy" if e.name.startswith("retry_strategy") else e.name
            c = {"name": name}
            if raised is not None:
                c["raises"] = concretize(raised.exc, model, st)
            elif "should" in e.d:
                dv = ev(model, e.d["delay"])
                c["decision"] = {"should": bool(z3.is_true(ev(model, e.d["should"]))), "delay": dv.as_long() if z3.is_int_value(dv) else float(dv.as_fraction()) if z3.is_rational_value(dv) else 0,
                                 "delay_none": bool(e.d.get("delay_none") is not None and z3.is_true(ev(model, e.d["delay_none"])))}
            elif "scripted_bool" in e.d:
                c["value"] = bool(z3.is_true(ev(model, e.d["scripted_bool"])))
            elif e.name == "SerDes.serialize":
                res = st.ghost.get("ser", [])
                term = next((r for _, val, r in res if val is e.args[0] or (is_sym(val, "any") and is_sym(e.args[0], "any") and z3.eq(val.t, e.args[0].t))), None)
                s = z3_to_py(ev(model, term.t)) if term is not None else "S"
                n = ev(model, slen(term.t)).as_long() if term is not None else len(s)
                c["result"] = s + "x" * max(0, min(n, 300000) - len(s))
            calls.append(c)
            expected.append({"call": name, "raises": raised is not None})
    ident = concretize(ex.inputs["ident"], model, st)["fields"]
    sc = {"kind": ex.kind, "records": records, "cp_outcomes": outcomes, "calls": calls, "clocks": clocks, "ident": ident, "user_name": USER_NAME.get(ex.kind, "user_func"),
          "config": concretize(ex.inputs["cfg"], model, st) if ex.inputs.get("cfg") is not None else None, "extra": {}}
    if ex.kind == "wait":
        sc["extra"]["seconds"] = concretize(ex.inputs["seconds"], model, st)
    if ex.kind == "callback_result":
        sc["extra"]["serdes"] = concretize(st.get(ex.inputs["self"])["serdes"], model, st)
    if k == "val":
        exp_out = {"kind": "val"}
    elif isinstance(v, Ref) and isinstance(v.cls, ClassInfo):
        exp_out = {"kind": "raise", "cls": v.cls.name}
    elif isinstance(v, Ref) and v.cls == "symexc":
        idx = next((j for j, e in enumerate(tr) if e.kind == "raised" and e.exc == v), None)
        exp_out = {"kind": "raise", "from_call": sum(1 for e in tr[:idx] if e.kind in ("read", "cp", "call")) - 1 if idx is not None else None}
    else:
        exp_out = {"kind": "raise", "cls": str(getattr(v, "cls", v))[4:]}
    return {"scenario": sc, "expected_trace": expected, "expected_outcome": exp_out}


def compare(item, res):
    if "error" in res or "diverged" in res:
        return False, f"native harness: {res.get('error') or res.get('diverged')}"
    nt = res["trace"]
    et = item["expected_trace"]
    if len(nt) != len(et):
        return False, f"trace length {len(nt)} != predicted {len(et)}: native={nt} predicted={et}"
    for a, b in zip(nt, et):
        if "read" in b and "read" in a:
            continue
        if "cp" in b:
            if not ("cp" in a and all(a.get(x) == b.get(x) for x in ("cp", "type", "is_sync", "outcome", "delay", "replay_children"))):
                return False, f"update differs: native={a} predicted={b}"
            continue
        if "call" in b:
            if not ("call" in a and a["call"] == b["call"] and bool(a.get("raised")) == b["raises"]):
                return False, f"call differs: native={a} predicted={b}"
            continue
        return False, f"event differs: native={a} predicted={b}"
    eo, no = item["expected_outcome"], res["outcome"]
    if eo["kind"] != no["kind"]:
        return False, f"outcome differs: native={no} predicted={eo}"
    if eo["kind"] == "raise":
        if "cls" in eo and eo["cls"] != no["cls"]:
            return False, f"raised class differs: native={no} predicted={eo}"
        if "from_call" in eo and eo["from_call"] is not None:
            src = nt[eo["from_call"]] if eo["from_call"] < len(nt) else {}
            if src.get("raised") != no["cls"]:
                return False, f"propagated exception differs: native={no} source={src}"
    return True, "native run follows the predicted path"


def attach_replay(ex):
    """gives the exploration describe/replay functions used by hobl.P"""
    def describe_fn(path):
        def describe(model):
            return scenario(ex, path, model)
        return describe

    def replay_fn(path):
        def replay(inputs):
            res = native("handler_run.py", [inputs["scenario"]])[0]
            ok, text = compare(inputs, res)
            return ok, {"native": res, "comparison": text}
        return replay
    ex.describe_fn, ex.replay_fn = describe_fn, replay_fn


def crosscheck(chk, ex, limit=None):
    """every explored path: one model, one native run, compare (engine soundness guard)"""
    items, idx = [], []
    for n, path in enumerate(ex.paths):
        if limit is not None and n >= limit:
            break
        s = z3.Solver()
        s.set("timeout", 10000)
        s.add(*path[2].pc)
        if s.check() != z3.sat:
            chk.fault(f"cross-check: path {n} of {ex.kind} has an unsatisfiable/undecided path condition")
            continue
        try:
            items.append(scenario(ex, path, s.model()))
            idx.append(n)
        except Exception as e:  # projection problem: reported, not silently skipped
            chk.fault(f"cross-check: cannot concretize path {n} of {ex.kind}: {e!r}")
    if not items:
        return
    results = native("handler_run.py", [it["scenario"] for it in items], timeout=600)
    bad = 0
    for n, it, res in zip(idx, items, results):
        ok, text = compare(it, res)
        if ok:
            chk.validated += 1
        else:
            bad += 1
            if bad <= 3:
                chk.fault(f"engine/CPython mismatch on path {n} of {ex.kind}: {text}")

"""Hooks shared by the property checks."""
from __future__ import annotations

import z3

from pyvc.engine import Hooks
from pyvc.values import Opt, Ref, Sym, Unsupported, dt_ts, fresh, is_sym
from pyvc import ops


def deepcopy(eng, st, v):
    if isinstance(v, Opt):
        return Opt(v.none, deepcopy(eng, st, v.val))
    if isinstance(v, Ref):
        stor = st.get(v)
        k = stor.get("__kind__")
        if k == "dict":
            return st.alloc("dict", {"__kind__": "dict", "open": stor["open"], "e": {kk: (p, deepcopy(eng, st, x)) for kk, (p, x) in stor["e"].items()}})
        if k in ("list", "tuple", "set"):
            return st.alloc(v.cls, {"__kind__": k, "items": tuple(deepcopy(eng, st, x) for x in stor["items"])})
        if k == "glist":
            return st.alloc("list", {"__kind__": "glist", "len": stor["len"], "elem": deepcopy(eng, st, stor["elem"])})
        return v  # frozen dataclasses: sharing is unobservable
    return v


def shallowcopy(eng, st, v):
    """copy.copy / dict.copy / list.copy: a new outer container whose items are the SAME objects as the original's"""
    if isinstance(v, Opt):
        return Opt(v.none, shallowcopy(eng, st, v.val))
    if isinstance(v, Ref):
        stor = st.get(v)
        if stor.get("__kind__") in ("dict", "list", "set", "glist"):
            return st.alloc(v.cls, dict(stor))
    return v


def snapshot(st, v):
    """deep snapshot of a dict/list structure (storages are immutable values: copy-on-write heap)"""
    if isinstance(v, Opt):
        return ("opt", v.none, snapshot(st, v.val))
    if isinstance(v, Ref):
        stor = st.get(v)
        k = stor.get("__kind__")
        if k == "dict":
            return ("dict", v.oid, stor["open"], {kk: (p, snapshot(st, x)) for kk, (p, x) in stor["e"].items()})
        if k in ("list", "tuple", "set"):
            return (k, v.oid, tuple(snapshot(st, x) for x in stor["items"]))
        if k == "glist":
            return ("glist", v.oid, stor["len"], snapshot(st, stor["elem"]))
        return ("ref", v)
    return ("leaf", v)


def unchanged(st, snap, v):
    """z3 Bool: the structure reachable from v in st equals the snapshot, object by object (same objects, same entries, same leaves)"""
    T, F = z3.BoolVal(True), z3.BoolVal(False)
    tag = snap[0]
    if tag == "opt":
        return unchanged(st, snap[2], v.val) if isinstance(v, Opt) and z3.eq(v.none, snap[1]) else F
    if tag == "leaf":
        w = snap[1]
        if isinstance(v, (Ref, Opt)):
            return F
        if w is None or v is None:
            return z3.BoolVal(w is None and v is None)
        if is_sym(w) and is_sym(v):
            return z3.BoolVal(w.kind == v.kind) if w.kind != v.kind else (T if z3.eq(w.t, v.t) else w.t == v.t)
        if is_sym(w) or is_sym(v):
            try:
                return ops.values_equal(st, w, v)
            except Exception:  # noqa: BLE001
                return F
        return z3.BoolVal(type(w) is type(v) and w == v)
    if tag == "ref":
        return z3.BoolVal(isinstance(v, Ref) and v.oid == snap[1].oid)
    if not isinstance(v, Ref) or v.oid != snap[1]:
        return F
    stor = st.get(v)
    if tag == "dict":
        e = stor["e"]
        if stor.get("__kind__") != "dict" or set(e) != set(snap[3]):
            # a key was added: fine only if it can never be present
            extra = [p for kk, (p, _) in e.items() if kk not in snap[3]]
            if stor.get("__kind__") != "dict" or any(kk not in e for kk in snap[3]):
                return F
            parts = [z3.Not(p) for p in extra]
        else:
            parts = []
        for kk, (p0, s0) in snap[3].items():
            p1, x1 = e[kk]
            parts.append(z3.And(p1 == p0, z3.Implies(p0, unchanged(st, s0, x1))))
        return z3.And(parts) if parts else T
    if tag in ("list", "tuple", "set"):
        items = stor.get("items", ())
        if stor.get("__kind__") != tag or len(items) != len(snap[2]):
            return F
        return z3.And([unchanged(st, a, b) for a, b in zip(snap[2], items)]) if items else T
    if tag == "glist":
        if stor.get("__kind__") != "glist":
            return F
        return z3.And(stor["len"] == snap[2], unchanged(st, snap[3], stor["elem"]))
    return F


class CodecHooks(Hooks):
    def ext_call(self, eng, st, name, args, kwargs):
        if name == "copy.deepcopy":
            return [("val", deepcopy(eng, st, args[0]), st)]
        if name == "copy.copy":
            return [("val", shallowcopy(eng, st, args[0]), st)]
        if name in ("datetime.datetime.fromtimestamp", "datetime.fromtimestamp"):
            d = fresh("dt", "fromts")
            st.assume(dt_ts(d.t) == ops.zreal(args[0]))
            from pyvc.values import dt_off
            if kwargs.get("tz") is not None:
                st.assume(dt_off(d.t) == 0)
            return [("val", d, st)]
        return None


def codec_hooks():
    return CodecHooks()


HANDLER_ASSUMPTIONS = [
    "B1/B2: backend contract - an accepted update yields the record described in DESIGN 3; a synchronous checkpoint returns only after the response containing the new record of every updated operation was merged (proved for the consumer in C03.consumer.ack_after_apply)",
    "U: the workflow is deterministic, so the record found under this operation's id has the operation type of this kind of operation; custom SerDes return str; user code lets BaseException-only SDK signals propagate",
    "contract of ExecutionState.get_checkpoint_result / create_checkpoint used at call sites (their bodies are verified against it in the state contracts, C01.state.lookup_faithful / C03.state.sync_blocks)",
    "logging calls are effect-free and do not raise (dropped by extraction)",
    "time.time() / datetime.now() are arbitrary non-decreasing reals",
]

SHARED_FUNCS = ["operation.base.OperationExecutor.process", "state.CheckpointedResult.create_from_operation", "state.CheckpointedResult.raise_callable_error",
                "lambda_service.ErrorObject.from_exception", "lambda_service.ErrorObject.to_callable_runtime_error", "suspend.suspend_with_optional_resume_delay",
                "suspend.suspend_with_optional_resume_timestamp", "exceptions.TimedSuspendExecution.from_delay", "exceptions.TimedSuspendExecution.from_datetime",
                "serdes.serialize", "serdes.deserialize"]


def handler_preamble(chk, ex, funcs):
    for f in funcs + SHARED_FUNCS:
        chk.function(f, "verified (body executed symbolically, inlined at its call sites)")
    for f in ("state.CheckpointedResult.is_succeeded", "state.CheckpointedResult.is_failed", "state.CheckpointedResult.is_started", "state.CheckpointedResult.is_pending",
              "state.CheckpointedResult.is_existent", "state.CheckpointedResult.is_replay_children", "state.CheckpointedResult.get_next_attempt_timestamp", "config.Duration.to_seconds"):
        chk.function(f, "transparent")
    chk.function("state.ExecutionState.get_checkpoint_result", "contract used at call sites")
    chk.function("state.ExecutionState.create_checkpoint", "contract used at call sites")
    for a in HANDLER_ASSUMPTIONS:
        chk.assume(a)
    chk.trust("python semantics of the stated subset as encoded by pyvc (DESIGN 2.3)")
    chk.trust("z3 5.1.0")
    chk.trust("user functions, retry/wait strategies, custom SerDes, summary generators: opaque (any value or any exception)")
    chk.paths += len(ex.paths)
    for k in ex.eng.stats:
        chk.engine_stats[k] = chk.engine_stats.get(k, 0) + ex.eng.stats[k]
    chk.require_sat(f"{chk.prop}.{ex.kind}.pre_satisfiable", ex.st0.pc, desc="vacuity guard: the precondition of the handler exploration is satisfiable")
    if not ex.paths:
        chk.prove(f"{chk.prop}.{ex.kind}.pre_satisfiable", [], z3.BoolVal(False), desc=f"reachability: the {ex.kind} handler has at least one explored path")
    if not getattr(chk, "_state_contracts_listed", False):
        # the handler contracts are proved AGAINST the contracts of get_checkpoint_result and create_checkpoint: every check that uses them also
        # discharges them against the real bodies (once per check), so that a change slipping between a caller and these callees is reported by the
        # check of the property it breaks and not only by a sibling check
        chk._state_contracts_listed = True
        from . import state_contracts as _S
        _S.lookup_faithful(chk, chk.prop)
        _S.create_checkpoint(chk, chk.prop, want=("C03", "C06", "C10"))
    from .handlers import init_contract
    init_ok = init_contract(chk, ex)
    from .hreplay import attach_replay, crosscheck
    attach_replay(ex)
    if init_ok:
        crosscheck(chk, ex)
    else:
        # the native harness builds the executor through the real __init__, the engine starts from the fields: with the __init__ contract
        # violated (reported above) the two are not expected to agree, and a disagreement would say nothing about the engine
        chk.notes.append(f"CPython cross-check of the {ex.kind} paths skipped: {ex.inputs['self'].cls.name}.__init__ does not store its arguments unchanged")


# ------------------------------------------------------------------------------------------------ per-instance state (no sharing through the class)
def _immutable_class_value(P, mod, v):
    import ast
    if isinstance(v, ast.Constant):
        return True
    if isinstance(v, ast.Tuple):
        return all(_immutable_class_value(P, mod, e) for e in v.elts)
    if isinstance(v, ast.UnaryOp):
        return _immutable_class_value(P, mod, v.operand)
    if isinstance(v, ast.BinOp):
        return _immutable_class_value(P, mod, v.left) and _immutable_class_value(P, mod, v.right)
    if isinstance(v, ast.Attribute) and isinstance(v.value, ast.Name):
        r = P.resolve_name(mod, v.value.id)
        return bool(r and r[0] == "class" and r[1].is_enum)          # an enum member
    if isinstance(v, ast.Name):
        r = P.resolve_name(mod, v.id)
        return bool(r and r[0] == "const" and _immutable_class_value(P, r[2], r[1]))
    if isinstance(v, ast.Call) and isinstance(v.func, ast.Name) and v.func.id == "field":
        # dataclasses.field: default_factory builds a new object per instance; default= is shared like a plain class value
        return all(kw.arg != "default" or _immutable_class_value(P, mod, kw.value) for kw in v.keywords) and not v.args
    return False


def per_instance_state(chk, name, class_keys, program=None):
    """Sufficient condition (syntactic, over the AST of the current source; no solver) for: two instances of the class share no mutable
    state through the class.  Every value assigned in the class body is immutable - a constant, an enum member, a tuple / arithmetic of
    those, or dataclasses.field with a default_factory (a new object per instance).  A class-level `threading.Event()`, list, dict, set
    or other object would be ONE object read through every instance that does not rebind the attribute in __init__.  Enum classes are exempt
    (their members are singletons by construction)."""
    import z3
    from pyvc.engine import Engine
    P = program or Engine().program
    bad, n = [], 0
    for key in class_keys:
        c = P.cls(key)
        chk.function(f"{key} (class body)", "per-instance state: syntactic check of every class-level assignment (AST, no solver)")
        if c.is_enum:
            continue
        for attr, v in c.class_attrs.items():
            n += 1
            if not _immutable_class_value(P, c.module, v):
                import ast
                bad.append(f"{key}.{attr} = {ast.unparse(v)[:50]}")
    chk.prove(name, [], z3.BoolVal(not bad),
              desc=f"no mutable object is created in a class body: the state each method reads and writes through self belongs to that instance alone "
                   f"({n} class-level assignments of {len(class_keys)} classes checked)" + (f"; shared by all instances: {bad}" if bad else ""),
              describe=lambda m: {"shared_class_level_objects": bad}, sample=f"class bodies of {', '.join(k.rsplit('.', 1)[1] for k in class_keys)}")


def per_instance_state_of_modules(chk, name, modules):
    """per_instance_state over every class of the given modules of the current tree (classes added later are covered without editing the check)"""
    from pyvc.engine import Engine
    P = Engine().program
    keys = [f"{m}.{c}" for m in modules if m in P.modules for c in P.modules[m].classes]
    per_instance_state(chk, name, keys, program=P)

"""Hooks shared by the property checks."""
from __future__ import annotations

import z3

from pyvc.engine import Hooks
from pyvc.values import Opt, Ref, Sym, Unsupported, dt_ts, fresh, is_sym
from pyvc import ops


def deepcopy(eng, st, v):
    if isinstance(v, Opt):
        return Opt(v.none, deepcopy(eng, st, v.val))
    if isinstance(v, Ref):
        stor = st.get(v)
        k = stor.get("__kind__")
        if k == "dict":
            return st.alloc("dict", {"__kind__": "dict", "open": stor["open"], "e": {kk: (p, deepcopy(eng, st, x)) for kk, (p, x) in stor["e"].items()}})
        if k in ("list", "tuple", "set"):
            return st.alloc(v.cls, {"__kind__": k, "items": tuple(deepcopy(eng, st, x) for x in stor["items"])})
        if k == "glist":
            return st.alloc("list", {"__kind__": "glist", "len": stor["len"], "elem": deepcopy(eng, st, stor["elem"])})
        return v  # frozen dataclasses: sharing is unobservable
    return v


class CodecHooks(Hooks):
    def ext_call(self, eng, st, name, args, kwargs):
        if name == "copy.deepcopy":
            return [("val", deepcopy(eng, st, args[0]), st)]
        if name in ("datetime.datetime.fromtimestamp", "datetime.fromtimestamp"):
            d = fresh("dt", "fromts")
            st.assume(dt_ts(d.t) == ops.zreal(args[0]))
            from pyvc.values import dt_off
            if kwargs.get("tz") is not None:
                st.assume(dt_off(d.t) == 0)
            return [("val", d, st)]
        return None


def codec_hooks():
    return CodecHooks()

"""Symbolic exploration of the operation handlers (step, child, wait, invoke, callback, wait_for_condition) with a
fully symbolic record, symbolic configuration, opaque user callables and a ghost effect trace.

Contracts used at the ExecutionState boundary (verified against the real bodies in props/state_contracts.py):
  get_checkpoint_result(id)  -> create_from_operation(operations[id]) if present else CHECKPOINT_NOT_FOUND; no effect
  create_checkpoint(u, sync) -> ghost event Cp(u, sync, outcome); outcome ok | orphan (OrphanedChildException, nothing queued)
                                | bgerror (BackgroundThreadError); after any Cp the record may have changed arbitrarily
"""
from __future__ import annotations

import z3

from pyvc import ops
from pyvc.engine import Engine, Hooks
from pyvc.ops import F, T, is_none, mk_opt, strip_opt
from pyvc.state import St
from pyvc.values import ClassRef, ExtRef, FuncRef, OpaqueFn, Opt, Ref, Sym, Unsupported, enum_member, enum_sort, fresh, fresh_name, is_sym, simp, zbool

KIND_TYPE = {"step": "STEP", "wfc": "STEP", "child": "CONTEXT", "wait": "WAIT", "invoke": "CHAINED_INVOKE", "callback": "CALLBACK", "callback_result": "CALLBACK"}
USER_FUNCS = {"user_func", "check_func", "child_func"}


class HandlerHooks(Hooks):
    def __init__(self, kind, cp_outcomes=("ok", "orphan", "bgerror"), serdes_raises=True, user_raises=True, float_delay=False):
        self.float_delay = float_delay   # the strategy's Duration carries a float (Duration(seconds=0.5): the annotation says int, nothing enforces it)
        self.kind = kind
        self.cp_outcomes = cp_outcomes
        self.serdes_raises = serdes_raises
        self.user_raises = user_raises
        self.rec_counter = 0

    # ---- the record of this operation as the backend / local state holds it
    def new_record(self, eng, st, tag):
        op_cls = eng.program.cls("lambda_service.Operation")
        op = eng.sym_of_type("Operation", f"rec{tag}", st, op_cls.module)
        stor = st.get(op)
        tcls = eng.program.cls("lambda_service.OperationType")
        st.assume(stor["operation_type"].t == enum_sort(tcls)[1][KIND_TYPE[self.kind]])  # U: deterministic program => same kind at this position
        own = st.ghost.get("own_id")
        if own is not None:
            st.assume(stor["operation_id"].t == own.t)
        for f in ("step_details",):
            sd = strip_opt(stor[f])
            if isinstance(sd, Ref):
                st.assume(st.get(sd)["attempt"].t >= 0)
        absent = z3.Bool(fresh_name(f"rec{tag}.absent"))
        return mk_opt(absent, op)

    def opaque_attr(self, eng, st, ref, name):
        stor = st.get(ref)
        if name in stor:
            return [("val", stor[name], st)]
        return [("val", OpaqueFn(f"{ref.cls[7:]}.{name}", ref), st)]

    def opaque_call(self, eng, st, fn, args, kwargs):
        n = fn.name
        if n == "ExecutionState.get_checkpoint_result":
            rec = st.ghost["rec"]
            st.emit("read", id=bind_real(eng, "state.ExecutionState.get_checkpoint_result", args, kwargs)["checkpoint_id"], rec=rec)
            cr = eng.program.cls("state.CheckpointedResult")
            out = []
            for absent, s in eng.branch(st, is_none(rec)):
                if absent:
                    out.extend(eng.call_func(cr.find_method("create_not_found"), [ClassRef(cr)], {}, s))
                else:
                    out.extend(eng.call_func(cr.find_method("create_from_operation"), [ClassRef(cr), strip_opt(rec)], {}, s))
            return out
        if n == "ExecutionState.create_checkpoint":
            b_ = bind_real(eng, "state.ExecutionState.create_checkpoint", args, kwargs)
            upd, sync = b_["operation_update"], b_["is_sync"]
            out = []
            outs = list(self.cp_outcomes)
            for i, oc in enumerate(outs):
                s = st.fork() if i < len(outs) - 1 else st
                s.emit("cp", update=upd, is_sync=sync, outcome=oc)
                if oc == "ok":
                    self.rec_counter += 1
                    nr = self.new_record(eng, s, self.rec_counter)
                    s.ghost["rec"] = nr
                    # B2 + C03.consumer.ack_after_apply: a synchronous checkpoint returns only after the response, which contains
                    # the record of every operation updated by the call, was merged -> the record of this operation exists
                    own = upd_is_own(s, upd)
                    s.assume(z3.Implies(z3.And(sync_term_of(sync), own), z3.Not(is_none(nr))))
                    out.append(("val", None, s))
                elif oc == "orphan":
                    exc = s.alloc(eng.program.cls("exceptions.OrphanedChildException"), {"args": ("orphan",), "operation_id": None})
                    out.append(("raise", exc, s))
                else:
                    exc = s.alloc(eng.program.cls("exceptions.BackgroundThreadError"), {"args": ("bg",), "source_exception": eng.new_symexc(s, "bgsrc")})
                    out.append(("raise", exc, s))
            return out
        if n == "ExecutionState.raise_if_orphaned":
            # contract (C10.state.raise_if_orphaned): raises OrphanedChildException iff the id is marked, no other effect
            b = fresh("bool", "is_orphaned")
            st.emit("call", name="raise_if_orphaned", args=tuple(args), kwargs=dict(kwargs), result=None, scripted_bool=b.t)
            out = []
            for orphaned, s in eng.branch(st, b.t):
                if orphaned:
                    exc = s.alloc(eng.program.cls("exceptions.OrphanedChildException"), {"args": ("orphan",), "operation_id": args[0] if args else kwargs.get("operation_id")})
                    s.emit("orphan_check_raised", exc=exc)
                    out.append(("raise", exc, s))
                else:
                    out.append(("val", None, s))
            return out
        if n in ("ExecutionState.is_replaying",):
            b = fresh("bool", "is_replaying")
            st.emit("call", name="is_replaying", args=(), kwargs={}, result=b, scripted_bool=b.t)
            return [("val", b, st)]
        if n in ("SerDes.serialize", "SerDes.deserialize"):
            st.emit("call", name=n, args=tuple(args), kwargs=dict(kwargs), recv=fn.info)
            s2 = st.fork() if self.serdes_raises else None
            res = fresh("str", "serialized") if n.endswith(".serialize") else self.deser(eng, st, fn.info, args[0])
            if n.endswith(".serialize"):
                st.ghost["ser"] = st.ghost.get("ser", []) + [(fn.info, args[0], res)]
            out = [("val", res, st)]
            if s2 is not None:
                exc = eng.new_symexc(s2, "serdes")
                s2.emit("raised", name=n, exc=exc)
                out.append(("raise", exc, s2))
            return out
        if n.startswith("retry_strategy") or n == "wait_strategy":
            ev_ = st.emit("call", name=n, args=tuple(args), kwargs=dict(kwargs))
            dec_cls = eng.program.cls("retries.RetryDecision" if n.startswith("retry") else "waits.WaitForConditionDecision")
            dur_cls = eng.program.cls("config.Duration")
            secs = fresh("real" if self.float_delay else "int", "delay")
            st.assume(secs.t >= 0)  # Duration.__post_init__ rejects negatives
            dur = st.alloc(dur_cls, {"seconds": secs})
            first = "should_retry" if n.startswith("retry") else "should_continue"
            should = fresh("bool", first)
            # the decision is an arbitrary well-typed instance of the decision class AS DECLARED NOW: a field that is declared optional may be None
            stor_ = {}
            for fname, ann, _d, owner in dec_cls.fields():
                if fname == first:
                    stor_[fname] = should
                elif fname == "delay":
                    stor_[fname] = mk_opt(z3.Bool(fresh_name("decision.delay.is_none")), dur) if "None" in ann else dur
                else:
                    stor_[fname] = eng.sym_of_type(ann, f"decision.{fname}", st, owner.module)
            dec = st.alloc(dec_cls, stor_)
            from pyvc.ops import is_none as _is_none
            ev_.d.update(result=dec, should=should.t, delay=secs.t, delay_none=_is_none(stor_["delay"]) if "delay" in stor_ else None)
            s2 = st.fork()
            exc = eng.new_symexc(s2, "strategy")
            s2.emit("raised", name=n, exc=exc)
            return [("val", dec, st), ("raise", exc, s2)]
        if n in USER_FUNCS or n == "summary_generator":
            res = fresh("any", n + "_ret") if n != "summary_generator" else fresh("str", "summary")
            st.emit("call", name=n, args=tuple(args), kwargs=dict(kwargs), result=res)
            out = [("val", res, st)]
            if self.user_raises:
                s2 = st.fork()
                exc = eng.new_symexc(s2, n)
                s2.emit("raised", name=n, exc=exc)
                out.append(("raise", exc, s2))
            return out
        if n.startswith("stdlogger.") or n.startswith("Logger."):
            return [("val", None, st)]
        return Hooks.opaque_call(self, eng, st, fn, args, kwargs)

    def deser(self, eng, st, serdes, data):
        """deserialize is a function of (serdes, data): uninterpreted, so that equal inputs give equal outputs"""
        f = z3.Function("deserialize", z3.IntSort(), z3.StringSort(), ops.ANY)
        sid = serdes.oid if isinstance(serdes, Ref) else 0
        data = eng.unopt(st, data)
        if isinstance(data, Opt):  # deserialize(None): not a str (U: payloads are str) - arbitrary result
            return fresh("any", "deser_none")
        return Sym("any", f(sid, ops.zstr(data)))


def sync_term_of(sync):
    return z3.BoolVal(sync) if isinstance(sync, bool) else zbool(sync)


def upd_is_own(st, upd):
    if upd is None:
        return F
    own = st.ghost.get("own_id")
    return ops.values_equal(st, st.get(upd)["operation_id"], own)


def bind_real(eng, qualname, args, kwargs):
    """bind the arguments of a call that is replaced by its contract, using the parameter names and DEFAULT values of the real signature"""
    import ast as _ast
    fi = eng.program.func(qualname)
    params = fi.params[1:]  # without self
    out = {}
    for p, a in zip(params, args):
        out[p] = a
    for k, v in kwargs.items():
        if k not in params:
            raise Unsupported(f"{qualname} has no parameter {k}")
        out[k] = v
    for p in params:
        if p not in out:
            if p not in fi.defaults:
                raise Unsupported(f"{qualname}: missing argument {p}")
            out[p] = _ast.literal_eval(fi.defaults[p])
    return out


def make_engine(kind, **kw):
    hooks = HandlerHooks(kind, **kw)
    eng = Engine(hooks=hooks)
    # module constants that would otherwise construct the real default serializer / strategies
    eng.const_overrides[("serdes", "EXTENDED_TYPES_SERDES")] = lambda e, st: default_serdes(st, "EXTENDED")
    eng.const_overrides[("serdes", "DEFAULT_JSON_SERDES")] = lambda e, st: default_serdes(st, "JSON")
    eng.const_overrides[("context", "PASS_THROUGH_SERDES")] = lambda e, st: default_serdes(st, "PASSTHROUGH")
    eng.summaries["retries.RetryPresets.default"] = lambda e, st, a, k: [("val", OpaqueFn("retry_strategy_default"), st)]
    return eng


def default_serdes(st, which):
    key = "serdes_" + which
    if key not in st.ghost:
        st.ghost[key] = st.alloc("opaque:SerDes", {"__which__": which})
    return st.ghost[key]


def sym_config(eng, st, cls_key, name="cfg", overrides=None):
    cls = eng.program.cls(cls_key)
    stor = {}
    for fname, ann, _, owner in cls.fields():
        if overrides and fname in overrides:
            stor[fname] = overrides[fname]
            continue
        base = ann.replace("| None", "").strip()
        optional = "None" in ann
        if base.startswith("SerDes"):
            v = st.alloc("opaque:SerDes", {"__which__": f"{name}.{fname}"})
            stor[fname] = mk_opt(z3.Bool(fresh_name(f"{name}.{fname}.is_none")), v) if optional else v
        elif base.startswith("Callable") or base == "SummaryGenerator":
            fn = OpaqueFn({"retry_strategy": "retry_strategy", "wait_strategy": "wait_strategy", "summary_generator": "summary_generator"}.get(fname, fname))
            stor[fname] = mk_opt(z3.Bool(fresh_name(f"{name}.{fname}.is_none")), fn) if optional else fn
        elif base == "Duration":
            secs = fresh("int", f"{name}.{fname}.seconds")
            st.assume(secs.t >= 0)
            stor[fname] = st.alloc(eng.program.cls("config.Duration"), {"seconds": secs})
        else:
            stor[fname] = eng.sym_of_type(ann, f"{name}.{fname}", st, owner.module)
    return st.alloc(cls, stor)


class Exploration:
    def __init__(self, kind, eng, st0, inputs, paths):
        self.kind, self.eng, self.st0, self.inputs, self.paths = kind, eng, st0, inputs, paths


def explore(kind, entry="process", extra_pre=None, **hook_kw):
    """all paths of the real <Kind>OperationExecutor.process() (or another entry) for an arbitrary record and configuration"""
    eng = make_engine(kind, **hook_kw)
    st = St()
    P = eng.program
    own_id = fresh("str", "own_id")
    st.ghost["own_id"] = own_id
    ident = st.alloc(P.cls("identifier.OperationIdentifier"), {"operation_id": own_id, "parent_id": eng.sym_of_type("str | None", "parent_id", st), "name": eng.sym_of_type("str | None", "name", st)})
    state = st.alloc("opaque:ExecutionState", {"durable_execution_arn": fresh("str", "arn")})
    logger = st.alloc(P.cls("logger.Logger"), {"_logger": st.alloc("opaque:stdlogger", {}), "_default_extra": st.alloc("dict", {"__kind__": "dict", "e": {}, "open": False}), "_execution_state": state})
    st.ghost["rec"] = eng.hooks.new_record(eng, st, 0)
    inputs = {"ident": ident, "state": state, "rec0": st.ghost["rec"], "own_id": own_id}
    if kind == "step":
        cfg = sym_config(eng, st, "config.StepConfig")
        cls = P.cls("operation.step.StepOperationExecutor")
        self_ = st.alloc(cls, {"func": OpaqueFn("user_func"), "config": cfg, "state": state, "operation_identifier": ident, "context_logger": logger, "_checkpoint_created": False})
    elif kind == "child":
        cfg = sym_config(eng, st, "config.ChildConfig")
        cls = P.cls("operation.child.ChildOperationExecutor")
        sub = st.get(cfg)["sub_type"]
        st_cls = P.cls("lambda_service.OperationSubType")
        sub_type = fresh("enum", "sub_type", st_cls)  # = config.sub_type or RUN_IN_CHILD_CONTEXT (set in __init__, verified separately)
        self_ = st.alloc(cls, {"func": OpaqueFn("child_func"), "config": cfg, "state": state, "operation_identifier": ident, "sub_type": sub_type})
    elif kind == "wait":
        cfg = None
        cls = P.cls("operation.wait.WaitOperationExecutor")
        secs = fresh("int", "seconds")
        st.assume(secs.t >= 1)  # DurableContext.wait validates duration >= 1 (verified in the context contracts)
        self_ = st.alloc(cls, {"seconds": secs, "state": state, "operation_identifier": ident})
        inputs["seconds"] = secs
    elif kind == "invoke":
        cfg = sym_config(eng, st, "config.InvokeConfig")
        cls = P.cls("operation.invoke.InvokeOperationExecutor")
        self_ = st.alloc(cls, {"function_name": fresh("str", "function_name"), "payload": fresh("any", "payload"), "state": state, "operation_identifier": ident, "config": cfg})
    elif kind == "callback":
        cfg0 = sym_config(eng, st, "config.CallbackConfig")
        cfg = mk_opt(z3.Bool(fresh_name("cfg.is_none")), cfg0)
        cls = P.cls("operation.callback.CallbackOperationExecutor")
        self_ = st.alloc(cls, {"state": state, "operation_identifier": ident, "config": cfg})
    elif kind == "wfc":
        cfg = sym_config(eng, st, "waits.WaitForConditionConfig", overrides={"initial_state": fresh("any", "initial_state")})
        cls = P.cls("operation.wait_for_condition.WaitForConditionOperationExecutor")
        self_ = st.alloc(cls, {"check": OpaqueFn("check_func"), "config": cfg, "state": state, "operation_identifier": ident, "context_logger": logger})
    elif kind == "callback_result":
        cls = P.cls("context.Callback")
        cfg = None
        serdes = mk_opt(z3.Bool(fresh_name("cb.serdes.is_none")), st.alloc("opaque:SerDes", {"__which__": "cb.serdes"}))
        self_ = st.alloc(cls, {"callback_id": fresh("str", "callback_id"), "operation_id": own_id, "state": state, "serdes": serdes})
        entry = "result"
    else:
        raise KeyError(kind)
    inputs["self"], inputs["cfg"] = self_, cfg
    # the executor is built by its real __init__ from these (arbitrary) arguments, so that private fields the constructor adds exist and anything it
    # derives is the derived value; that it stores the arguments unchanged is the separate obligation *.init_stores_arguments (init_contract)
    init = cls.find_method("__init__")
    fields0 = dict(st.get(self_))
    if init is not None and all(p_ in fields0 for p_ in init.params[1:]):
        probe = st.fork()
        try:
            res_i = eng.call_func(init, [self_] + [fields0[p_] for p_ in init.params[1:]], {}, probe)
        except Unsupported:
            res_i = []
        if len(res_i) == 1 and res_i[0][0] == "val" and len(probe.trace) == len(st.trace):
            built = dict(probe.get(self_))
            extra = {k_: v_ for k_, v_ in built.items() if k_ not in fields0}
            if extra:
                st.put(self_, dict(fields0, **extra))
    if extra_pre:
        extra_pre(eng, st, inputs)
    st0 = st.fork()
    paths = eng.run(cls.find_method(entry), [self_], st=st)
    return Exploration(kind, eng, st0, inputs, paths)


def init_contract(chk, ex):
    """The explorations start from an executor whose FIELDS are the arbitrary arguments; the real objects are built by __init__.  Contract of
    __init__ that licenses this: it does not raise and stores every argument unchanged in the field of the same name (the caller's config
    object itself, not a rebuilt one that could drop an option), plus the fixed initial value of the private fields."""
    eng, kind = ex.eng, ex.kind
    self0 = ex.inputs["self"]
    cls = self0.cls
    init = cls.find_method("__init__")
    if init is None:
        return True
    fields = dict(ex.st0.get(self0))
    params = [p_ for p_ in init.params[1:]]
    if any(p_ not in fields for p_ in params):
        chk.undecide(f"{cls.key}.__init__ takes a parameter the exploration has no field for ({[p_ for p_ in params if p_ not in fields]}): the precondition of the handler contracts is not established")
        return False
    chk.function(f"{cls.key}.__init__", "verified (stores its arguments)")
    st = ex.st0.fork()
    new = st.alloc(cls, {})
    name = f"{chk.prop}.{kind}.init_stores_arguments"
    held = True
    for k, v, s in eng.call_func(init, [new] + [fields[p_] for p_ in params], {}, st):
        if k != "val":
            held = chk.prove(name, s.pc, F, desc=f"{cls.name}.__init__ does not raise") and held
            continue
        post = s.get(new)
        conj, bad = [], []
        for f_, want in fields.items():
            if f_ == "sub_type":      # derived from the config (child: contract checked in the context contracts)
                continue
            got = post.get(f_, "__missing__")
            if got is want:
                continue
            if isinstance(got, str) and got == "__missing__":
                bad.append(f_)
                continue
            if isinstance(got, Ref) or isinstance(want, Ref) or isinstance(got, OpaqueFn) or isinstance(want, OpaqueFn):
                bad.append(f_)       # a different object than the argument
                continue
            conj.append(ops.values_equal(s, got, want))
        held = chk.prove(name, s.pc, z3.And(z3.BoolVal(not bad), *conj),
                  desc=f"{cls.name}.__init__ stores every argument unchanged in the field of the same name (the caller's own config object) and the private fields start at their fixed values"
                       + (f"; fields that are not the argument: {bad}" if bad else ""),
                  sample=f"{cls.name}.__init__ on arbitrary arguments") and held
    return held


# ------------------------------------------------------------------------------------------------ trace helpers
def rec_status_is(rec, *members):
    """z3: the record is present and its status is one of members"""
    op = strip_opt(rec)
    return z3.And(z3.Not(is_none(rec)), z3.BoolVal(False)) if op is None else None


def status_term(st, rec):
    return st.get(strip_opt(rec))["status"]


def status_in(eng, st, rec, members):
    cls = eng.program.cls("lambda_service.OperationStatus")
    consts = enum_sort(cls)[1]
    t = status_term(st, rec).t
    return z3.And(z3.Not(is_none(rec)), z3.Or([t == consts[m] for m in members]))


def cps(st, outcome=None):
    return [(i, e) for i, e in enumerate(st.trace) if e.kind == "cp" and (outcome is None or e.outcome == outcome)]


def user_calls(st):
    return [(i, e) for i, e in enumerate(st.trace) if e.kind == "call" and e.name in USER_FUNCS]


def upd(st, e, field):
    return st.get(e.update)[field]


def enum_is(v, cls, member):
    return v.t == enum_sort(cls)[1][member]


def action_is(eng, st, e, member):
    return enum_is(upd(st, e, "action"), eng.program.cls("lambda_service.OperationAction"), member)


def type_is(eng, st, e, member):
    return enum_is(upd(st, e, "operation_type"), eng.program.cls("lambda_service.OperationType"), member)


def sync_term(e):
    s = e.is_sync
    return z3.BoolVal(s) if isinstance(s, bool) else zbool(s)


def exc_class(v):
    """name of the class of a raised value if known ('symexc' for symbolic user exceptions)"""
    if isinstance(v, Ref):
        if hasattr(v.cls, "name"):
            return v.cls.name
        return str(v.cls)
    return type(v).__name__


def describe_path(ex, st):
    def describe(model):
        from pyvc.concretize import concretize
        d = {"kind": ex.kind, "record": concretize(ex.inputs["rec0"], model, st), "config": concretize(ex.inputs["cfg"], model, st) if ex.inputs.get("cfg") is not None else None,
             "trace": [trace_item(e, model, st) for e in st.trace]}
        return d
    return describe


def trace_item(e, model, st):
    from pyvc.concretize import concretize
    if e.kind == "cp":
        u = concretize(e.update, model, st)
        f = u.get("fields", {}) if isinstance(u, dict) else {}
        return {"cp": (f.get("action") or {}).get("member"), "type": (f.get("operation_type") or {}).get("member"), "is_sync": concretize(e.is_sync, model, st), "outcome": e.outcome}
    if e.kind == "call":
        return {"call": e.name}
    if e.kind == "raised":
        return {"raised_by": e.name, "exc": concretize(e.exc, model, st)}
    if e.kind == "read":
        return {"read": "record"}
    return {e.kind: ""}

"""Small functions the properties pass through, each against a field-level postcondition (they were 'unverified code' in the plan)."""
from __future__ import annotations

import z3

from pyvc import ops
from pyvc.engine import Engine, Hooks
from pyvc.ops import F, T, is_none, mk_opt, strip_opt
from pyvc.state import St
from pyvc.values import ClassRef, OpaqueFn, Opt, Ref, Sym, Unsupported, enum_member, enum_sort, fresh, fresh_name, is_sym, simp, zbool, zint

from .executor_contracts import BS, ExecHooks


def models_transitions(chk, prefix="C07"):
    """ExecutableWithState: field-level postconditions of every transition and the guards of its accessors"""
    eng = Engine(hooks=ExecHooks())
    P = eng.program
    cls = P.cls("concurrency.models.ExecutableWithState")
    bs = P.cls(BS)
    C = enum_sort(bs)[1]

    def fresh_obj(st):
        return st.alloc(cls, {"executable": st.alloc(P.cls("concurrency.models.Executable"), {"index": fresh("int", "index"), "func": OpaqueFn("f")}), "_status": fresh("enum", "status", bs),
                              "_future": eng.sym_of_type("str | None", "future", st), "_suspend_until": eng.sym_of_type("float | None", "until", st), "_result": fresh("any", "result"),
                              "_is_result_set": fresh("bool", "is_set"), "_error": mk_opt(z3.Bool("err.none"), eng.new_symexc(st, "err"))})
    specs = {
        "suspend": ([], lambda b, a, args, k: z3.And(z3.BoolVal(k == "val"), a["_status"].t == C["SUSPENDED"], is_none(a["_suspend_until"]))),
        "suspend_with_timeout": ([("real", "ts")], lambda b, a, args, k: z3.And(z3.BoolVal(k == "val"), a["_status"].t == C["SUSPENDED_WITH_TIMEOUT"], ops.values_equal(None, a["_suspend_until"], args[0]))),
        "complete": ([("any", "res")], lambda b, a, args, k: z3.And(z3.BoolVal(k == "val"), a["_status"].t == C["COMPLETED"], ops.values_equal(None, a["_result"], args[0]), ops.truth(None, a["_is_result_set"]))),
        "fail": ([("exc", "e")], lambda b, a, args, k: z3.And(z3.BoolVal(k == "val"), a["_status"].t == C["FAILED"], ops.values_equal(None, a["_error"], args[0]))),
        "reset_to_pending": ([], lambda b, a, args, k: z3.And(z3.BoolVal(k == "val"), a["_status"].t == C["PENDING"], is_none(a["_future"]), is_none(a["_suspend_until"]))),
        "run": ([("any", "future")], lambda b, a, args, k: z3.If(b["_status"].t == C["PENDING"], z3.And(z3.BoolVal(k == "val"), a["_status"].t == C["RUNNING"], ops.values_equal(None, a["_future"], args[0])),
                                                               z3.And(z3.BoolVal(k == "raise"), a["_status"].t == b["_status"].t))),
    }
    # Reader view: _create_result() / should_execution_suspend() / the timer thread read a branch's status FIRST and without a lock, and then
    # the field that status promises.  RV must therefore hold after EVERY single store of a transition, not only at its end.
    def reader_view(s_, o_):
        f = s_.get(o_)
        return z3.And(z3.Implies(f["_status"].t == C["COMPLETED"], ops.truth(None, f["_is_result_set"])),
                      z3.Implies(f["_status"].t == C["FAILED"], z3.Not(is_none(f["_error"]))))

    def replay_publish(m_):
        def r(inputs):
            from pyvc.check import native
            r_ = native("branch_publish_replay.py", {"transition": m_})
            return bool(r_.get("confirmed")), r_
        return r

    class RV(ExecHooks):
        cur = None

        def on_store(self, eng_, s_, ref, name, value):
            if RV.cur is not None and ref.oid == RV.cur[1].oid:
                m_ = RV.cur[0]
                chk.prove(f"{prefix}.models.publish_order.{m_}", s_.pc, reader_view(s_, ref),
                          desc=f"ExecutableWithState.{m_}: after every single store, status COMPLETED implies the result is set and status FAILED implies the error is stored (the status is published last): a thread that reads the status and then the result / error without a lock never finds it missing",
                          describe=lambda mdl: {"schedule": f"another branch's completion decides the batch while this branch is between the two stores of {m_}()"},
                          replay=replay_publish(m_) if m_ in ("complete", "fail") else None, sample=f"{m_}: reader view after each store")
    eng.hooks = RV()
    for m, (argspec, post) in specs.items():
        st = St()
        o = fresh_obj(st)
        st.assume(reader_view(st, o))  # RV is an invariant: assumed on entry
        if m == "fail":
            pass
        RV.cur = (m, o)
        before = dict(st.get(o))
        args = [eng.new_symexc(st, nm) if kind == "exc" else fresh(kind, nm) for kind, nm in argspec]   # fail(error: Exception): the argument is an exception object
        chk.function(f"concurrency.models.ExecutableWithState.{m}")
        for k, v, s in eng.run(cls.find_method(m), [o] + args, st=st):
            chk.paths += 1
            chk.prove(f"{prefix}.models.transitions.{m}", s.pc, post(before, s.get(o), args, k), desc=f"ExecutableWithState.{m}: status / future / wake-up time / result / error are set exactly as the transition says (run only from PENDING)")
    RV.cur = None
    # can_resume
    st = St()
    o = fresh_obj(st)
    b = st.get(o)
    for k, v, s in eng.getattr_(o, "can_resume", st):
        chk.paths += 1
        now = s.ghost.get("__clock__")
        un, uv = is_none(b["_suspend_until"]), strip_opt(b["_suspend_until"])
        exp = z3.Or(b["_status"].t == C["SUSPENDED"], z3.And(b["_status"].t == C["SUSPENDED_WITH_TIMEOUT"], z3.Not(un), now.t >= ops.zreal(uv) if now is not None else F))
        got = z3.BoolVal(v) if isinstance(v, bool) else zbool(v)
        chk.prove(f"{prefix}.models.can_resume", s.pc, z3.And(z3.BoolVal(k == "val"), got == exp), desc="a branch can be resumed iff it is suspended indefinitely, or suspended with a wake-up time that has passed")


def logger_methods(chk, prefix="C17"):
    """Logger.debug/info/warning/error/exception each go through _log with the same-named method of the sink (every level is gated alike)"""
    eng = Engine()
    P = eng.program
    cls = P.cls("logger.Logger")
    for level in ("debug", "info", "warning", "error", "exception"):
        st = St()
        sink = st.alloc("opaque:stdlogger", {})
        self_ = st.alloc(cls, {"_logger": sink, "_default_extra": st.alloc("dict", {"__kind__": "dict", "e": {}, "open": False}), "_execution_state": st.alloc("opaque:ExecutionState", {})})

        def log(eng_, s, args, kwargs):
            s.emit("_log", fn=args[1], msg=args[2], extra=kwargs.get("extra"))
            return [("val", None, s)]
        eng.summaries["logger.Logger._log"] = log
        msg, extra = fresh("any", "msg"), eng.sym_of_type("str | None", "extra", st)
        chk.function(f"logger.Logger.{level}")
        for k, v, s in eng.run(cls.find_method(level), [self_, msg], {"extra": extra}, st=st):
            chk.paths += 1
            ev = [e for e in s.trace if e.kind == "_log"]
            ok = k == "val" and len(ev) == 1 and isinstance(ev[0].fn, OpaqueFn) and ev[0].fn.name == f"stdlogger.{level}" and ev[0].fn.info == sink and ev[0].msg is msg and ev[0].extra is extra
            chk.prove(f"{prefix}.logger.method.{level}", s.pc, bool(ok), desc=f"Logger.{level} forwards to the gated _log with the sink's {level} method, the message and the extra")


def context_construction(chk, prefix="C08"):
    """DurableContext.from_lambda_context / create_child_context / __init__: parent id as given, same state, a FRESH counter starting at 0"""
    from .context_contracts import CtxHooks
    eng = Engine(hooks=CtxHooks())
    P = eng.program
    dc = P.cls("context.DurableContext")
    st = St()
    state = st.alloc("opaque:ExecutionState", {"durable_execution_arn": fresh("str", "arn")})
    lam = st.alloc("opaque:LambdaContext", {})
    chk.function("context.DurableContext.from_lambda_context")
    chk.function("context.DurableContext.__init__")
    chk.function("context.DurableContext.create_child_context")
    chk.function("threading.OrderedCounter.__init__")
    for k, v, s in eng.run(dc.find_method("from_lambda_context"), [state, lam], st=st):
        chk.paths += 1
        ok = k == "val" and isinstance(v, Ref)
        goal = z3.BoolVal(ok)
        if ok:
            c = s.get(v)
            cnt = s.get(c["_step_counter"])
            goal = z3.And(goal, is_none(c["_parent_id"]), z3.BoolVal(c["state"] == state), ops.values_equal(s, cnt["_counter"], 0))
            # child context
            pid = fresh("str", "child_parent")
            for k2, v2, s2 in eng.run(dc.find_method("create_child_context"), [v, pid], st=s):
                ok2 = k2 == "val" and isinstance(v2, Ref)
                g2 = z3.BoolVal(ok2)
                if ok2:
                    cc = s2.get(v2)
                    g2 = z3.And(g2, ops.values_equal(s2, cc["_parent_id"], pid), z3.BoolVal(cc["state"] == state and cc["_step_counter"] != c["_step_counter"]), ops.values_equal(s2, s2.get(cc["_step_counter"])["_counter"], 0))
                chk.prove(f"{prefix}.ctx.child_context", s2.pc, g2, desc="create_child_context(p): parent id p, the same execution state, a fresh counter at 0 (ids inside a context depend only on that context's own calls)")
                if ok2:
                    # a branch that is resumed within the same invocation asks for its context AGAIN: it must get a new one whose counter restarts at 0
                    for k3, v3, s3 in eng.run(dc.find_method("create_child_context"), [v, pid], st=s2):
                        ok3 = k3 == "val" and isinstance(v3, Ref)
                        g3 = z3.BoolVal(ok3)
                        if ok3:
                            c3 = s3.get(v3)
                            g3 = z3.And(g3, z3.BoolVal(v3.oid != v2.oid and c3["_step_counter"] != cc["_step_counter"] and c3["_step_counter"] != c["_step_counter"]),
                                        ops.values_equal(s3, c3["_parent_id"], pid), ops.values_equal(s3, s3.get(c3["_step_counter"])["_counter"], 0))
                        chk.prove(f"{prefix}.ctx.child_context_fresh_each_call", s3.pc, g3,
                                  desc="a second create_child_context(p) with the same p returns a NEW context object with its own counter at 0 (no caching: a resumed branch re-issues its operations under the same ids)")
        chk.prove(f"{prefix}.ctx.root_context", s.pc, goal, desc="the root context has no parent id and a fresh counter at 0")


def input_payload_contract(chk, prefix="C18"):
    """InitialExecutionState.get_execution_operation / get_input_payload: the contract the wrapper uses at its call site"""
    from pyvc.engine import Engine as _E
    eng = _E(hooks=ExecHooks())
    P = eng.program
    ies_cls = P.cls("execution.InitialExecutionState")
    tcls = P.cls("lambda_service.OperationType")
    T_ = enum_sort(tcls)[1]
    for nonempty in (False, True):
        st = St()
        payload = eng.sym_of_type("str | None", "input_payload", st)
        det = mk_opt(z3.Bool("details.none"), st.alloc(P.cls("lambda_service.ExecutionDetails"), {"input_payload": payload}))
        typ = fresh("enum", "first_type", tcls)
        first = st.alloc(P.cls("lambda_service.Operation"), {"operation_id": fresh("str", "id"), "operation_type": typ, "status": fresh("enum", "status", P.cls("lambda_service.OperationStatus")),
                                                             "execution_details": det})
        ops_list = st.alloc("list", {"__kind__": "list", "items": (first, st.alloc("opaque:Operation", {})) if nonempty else ()})
        ies = st.alloc(ies_cls, {"operations": ops_list, "next_marker": ""})
        for q in ("get_execution_operation", "get_input_payload"):
            chk.function(f"execution.InitialExecutionState.{q}")
        for k, v, s in eng.run(ies_cls.find_method("get_input_payload"), [ies], st=st):
            chk.paths += 1
            if not nonempty:
                goal = z3.BoolVal(k == "val" and v is None)
            else:
                is_exec = typ.t == T_["EXECUTION"]
                if k == "raise":
                    goal = z3.And(z3.Not(is_exec), z3.BoolVal(isinstance(v, Ref) and getattr(v.cls, "name", "") == "DurableExecutionsError"))
                else:
                    goal = z3.And(is_exec, z3.If(is_none(det), z3.BoolVal(v is None) if not isinstance(v, Opt) else is_none(v), ops.values_equal(s, v, payload) if v is not None else is_none(payload)))
            chk.prove(f"{prefix}.exec.input_payload", s.pc, goal,
                      desc="get_input_payload(): no operations => None; first operation is the EXECUTION record => its input payload (None without details); first operation of another type => DurableExecutionsError (malformed invocation payload, raised before any thread starts)")
    return eng


def error_from_exception_contract(chk, prefix="C18"):
    """ErrorObject.from_exception(e): message = str(e) (a str, whatever the exception was constructed with), type = the class name, no data, no stack
    trace.  The exception's argument tuple is arbitrary here: one argument of ANY type, none, or several."""
    from pyvc.engine import Engine as _E
    for shape in ("one_arbitrary_argument", "no_argument", "two_arguments"):
        eng = _E(hooks=ExecHooks())
        P = eng.program
        st = St()
        cls = P.cls("lambda_service.ErrorObject")
        chk.function("lambda_service.ErrorObject.from_exception")
        exc = eng.new_symexc(st, "raised")
        stor = dict(st.get(exc))
        stor["args"] = {"one_arbitrary_argument": (fresh("any", "exception_argument"),), "no_argument": (), "two_arguments": (fresh("any", "a0"), fresh("any", "a1"))}[shape]
        st.put(exc, stor)
        msg = eng.exc_message(exc, st)
        for k, v, s in eng.run(cls.find_method("from_exception"), [ClassRef(cls), exc], st=st):
            chk.paths += 1
            ok = k == "val" and isinstance(v, Ref)
            goal = z3.BoolVal(ok)
            if ok:
                e = s.get(v)
                m = e["message"]
                goal = z3.And(goal, z3.BoolVal(isinstance(m, str) or is_sym(m, "str")), ops.values_equal(s, m, msg) if (isinstance(m, str) or is_sym(m, "str")) else F,
                              ops.values_equal(s, e["type"], s.get(exc)["__typename__"]), is_none(e["data"]), is_none(e["stack_trace"]))
            chk.prove(f"{prefix}.error.from_exception", s.pc, goal,
                      desc="ErrorObject.from_exception(e) is (message = str(e), type = type(e).__name__, no data, no stack trace): the message is a string for every exception, also one constructed with a non-string argument (a FAILED outcome must be JSON-serializable)",
                      sample=f"from_exception of an exception with {shape.replace('_', ' ')}")
    return None


def named_serdes(chk, prefix):
    """The two fixed serializers used where the default extended serializer is not: PassThroughSerDes (callback results: the payload is delivered as it
    is) and JsonSerDes (payload / result of a chained invoke).  Their round trip is what a replayed callback / invoke result rests on:
    pass-through is the identity in both directions; JsonSerDes is exactly json.dumps / json.loads with default flags (assumption S applies)."""
    from pyvc.engine import Engine, Hooks
    from pyvc.state import St
    from pyvc.values import fresh

    class H(Hooks):
        def ext_call(self, eng, st, name, args, kwargs):
            if name in ("json.dumps", "json.loads"):
                r = fresh("str", "json_text") if name == "json.dumps" else fresh("any", "json_value")
                st.emit("json", name=name, args=tuple(args), kwargs=dict(kwargs), result=r)
                return [("val", r, st)]
            return None
    eng = Engine(hooks=H())
    P = eng.program
    ctx = None
    for cname, kind in (("PassThroughSerDes", "identity"), ("JsonSerDes", "json")):
        cls = P.cls("serdes." + cname)
        for m, arg in (("serialize", fresh("any", "value")), ("deserialize", fresh("str", "data"))):
            chk.function(f"serdes.{cname}.{m}")
            st = St()
            self_ = st.alloc(cls, {})
            for k, v, s in eng.run(cls.find_method(m), [self_, arg, ctx], st=st):
                chk.paths += 1
                js = [e for e in s.trace if e.kind == "json"]
                if kind == "identity":
                    goal = k == "val" and v is arg and not js
                    desc = f"PassThroughSerDes.{m} returns its argument itself (the callback payload is delivered unchanged, '' included) and cannot raise"
                else:
                    want = "json.dumps" if m == "serialize" else "json.loads"
                    goal = k == "val" and len(js) == 1 and js[0].name == want and len(js[0].args) == 1 and js[0].args[0] is arg and not js[0].kwargs and v is js[0].result
                    desc = f"JsonSerDes.{m} is exactly {want}(argument) with default flags: the round trip of an invoke payload / result is json.loads(json.dumps(x)) (assumption S)"
                chk.prove(f"{prefix}.serdes.{cname}.{m}", s.pc, z3.BoolVal(bool(goal)), desc=desc)


def small_models(chk, prefix):
    """Small constructors and accessors that the larger contracts pass through without looking at: each is held to 'stores / returns exactly what it was given'"""
    from pyvc.engine import Engine
    from pyvc.state import St
    from pyvc.values import ClassRef, OpaqueFn, Ref, enum_member, fresh
    eng = Engine()
    P = eng.program
    # execution.DurableExecutionInvocationInputWithClient.from_durable_execution_invocation_input
    wc = P.cls("execution.DurableExecutionInvocationInputWithClient")
    m = wc.find_method("from_durable_execution_invocation_input")
    if m is not None:
        chk.function("execution.DurableExecutionInvocationInputWithClient.from_durable_execution_invocation_input")
        st = St()
        ies = st.alloc(P.cls("execution.InitialExecutionState"), {"operations": st.alloc("list", {"__kind__": "list", "items": ()}), "next_marker": fresh("str", "marker")})
        inp = st.alloc(P.cls("execution.DurableExecutionInvocationInput"), {"durable_execution_arn": fresh("str", "arn"), "checkpoint_token": fresh("str", "token"), "initial_execution_state": ies})
        client = st.alloc("opaque:ServiceClient", {})
        for k, v, s in eng.run(m, [inp, client], st=st):
            ok = k == "val" and isinstance(v, Ref) and v.cls is wc
            if ok:
                a, b = s.get(inp), s.get(v)
                ok = b["durable_execution_arn"] is a["durable_execution_arn"] and b["checkpoint_token"] is a["checkpoint_token"] and b["initial_execution_state"] == ies and b["service_client"] == client
            chk.prove(f"{prefix}.models.input_with_client", s.pc, z3.BoolVal(bool(ok)), desc="the invocation input handed to the wrapper with a client keeps the ARN, the checkpoint token and the initial state object of the parsed input")
    # lambda_service.ErrorObject.from_message
    eo = P.cls("lambda_service.ErrorObject")
    if eo.find_method("from_message") is not None:
        chk.function("lambda_service.ErrorObject.from_message")
        msg = fresh("str", "message")
        for k, v, s in eng.run(eo.find_method("from_message"), [ClassRef(eo), msg], st=St()):
            ok = k == "val" and isinstance(v, Ref) and s.get(v)["message"] is msg and all(s.get(v)[f_] is None for f_ in ("type", "data", "stack_trace"))
            chk.prove(f"{prefix}.models.error_from_message", s.pc, z3.BoolVal(bool(ok)), desc="ErrorObject.from_message(m) carries m as the message and nothing else")
    # exceptions: NonDeterministicExecutionError / GetExecutionStateError keep message and termination reason
    for cname, reason, extra in (("NonDeterministicExecutionError", "NON_DETERMINISTIC_EXECUTION", {"step_id": fresh("str", "step_id")}), ("GetExecutionStateError", "INVOCATION_ERROR", {})):
        c = P.cls("exceptions." + cname)
        chk.function(f"exceptions.{cname}.__init__")
        msg = fresh("str", "message")
        for k, v, s in eng.construct(c, [msg], dict(extra), St()):
            ok = k == "val" and isinstance(v, Ref)
            goal = z3.BoolVal(ok)
            if ok:
                stor = s.get(v)
                tr = stor.get("termination_reason")
                goal = z3.And(goal, z3.BoolVal(tr is not None), ops.values_equal(s, tr, enum_member(P.cls("exceptions.TerminationReason"), reason)) if tr is not None else F,
                              ops.values_equal(s, eng.exc_message(v, s), msg) if eng.exc_message(v, s) is not None else F,
                              *[z3.BoolVal(stor.get(f_) is val) for f_, val in extra.items()])
            chk.prove(f"{prefix}.models.exception_fields.{cname}", s.pc, goal, desc=f"{cname}(message, ...) keeps the message, its own fields, and the termination reason {reason}")
    # ExecutableWithState accessors
    ews = P.cls("concurrency.models.ExecutableWithState")
    bs = P.cls("concurrency.models.BranchStatus")
    st = St()
    fut_none = z3.Bool("future.is_none")
    fut = st.alloc("opaque:Future", {})
    status = fresh("enum", "status", bs)
    fn = OpaqueFn("branch_func")
    exe = st.alloc(ews, {"_status": status, "_future": mk_opt(fut_none, fut), "_suspend_until": None, "_result": None, "_is_result_set": False, "_error": None,
                         "executable": st.alloc(P.cls("concurrency.models.Executable"), {"index": fresh("int", "index"), "func": fn})})
    for name in ("future", "is_running", "callable"):
        if ews.find_method(name) is None:
            continue
        chk.function(f"concurrency.models.ExecutableWithState.{name}")
        for k, v, s in eng.getattr_(exe, name, st.fork()):
            if name == "future":
                goal = z3.And(z3.Not(fut_none), z3.BoolVal(strip_opt(v) == fut)) if k == "val" else fut_none
                desc = "ExecutableWithState.future is the stored future, and raises (InvalidStateError) only when the branch was never started"
            elif name == "is_running":
                goal = (zbool(v) if not isinstance(v, bool) else z3.BoolVal(v)) == (status.t == enum_sort(bs)[1]["RUNNING"]) if k == "val" else F
                desc = "is_running is True exactly in status RUNNING"
            else:
                goal = z3.BoolVal(k == "val" and v is fn)
                desc = "callable is the branch's function"
            chk.prove(f"{prefix}.models.executable.{name}", s.pc, goal, desc=desc)

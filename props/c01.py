"""C01 - completed operations are never re-executed; their recorded outcome is returned."""
from .handlers import explore
from . import hobl
from .common import handler_preamble

FUNCS = {"step": ["operation.step.StepOperationExecutor.check_result_status", "operation.step.StepOperationExecutor.execute"],
         "child": ["operation.child.ChildOperationExecutor.check_result_status", "operation.child.ChildOperationExecutor.execute"],
         "wait": ["operation.wait.WaitOperationExecutor.check_result_status", "operation.wait.WaitOperationExecutor.execute"],
         "invoke": ["operation.invoke.InvokeOperationExecutor.check_result_status", "operation.invoke.InvokeOperationExecutor.execute"],
         "wfc": ["operation.wait_for_condition.WaitForConditionOperationExecutor.check_result_status", "operation.wait_for_condition.WaitForConditionOperationExecutor.execute"],
         "callback": ["operation.callback.CallbackOperationExecutor.check_result_status", "operation.callback.CallbackOperationExecutor.execute"],
         "callback_result": ["context.Callback.result"]}


def run(chk):
    from .common import per_instance_state_of_modules
    per_instance_state_of_modules(chk, "C01.classes.state_is_per_instance", ['context', 'identifier', 'threading'])   # no object created in a class body: instances share no mutable state through the class
    for kind in ("step", "child", "wait", "invoke", "wfc"):
        ex = explore(kind)
        handler_preamble(chk, ex, FUNCS[kind])
        hobl.c01_terminal_skips(chk, ex)
        if kind == "child":
            hobl.c01_child_summary_retraverses(chk, ex)
    ex = explore("callback")
    handler_preamble(chk, ex, FUNCS["callback"])
    hobl.c01_callback_existing(chk, ex)
    from . import state_contracts
    state_contracts.lookup_faithful(chk)
    from . import lockset
    lockset.lock_discipline(chk, "C01", ["operations"])    # the record a lookup returns is read under the lock that the merge of responses takes
    state_contracts.merge_all_pages(chk)
    from . import wrapper_contracts, batcher
    wrapper_contracts.wrapper_obligations(chk, "C01", want=("C01",))
    batcher.check_consumer(chk, "C01")
    from . import executor_contracts
    executor_contracts.item_in_child_context(chk, "C01")   # a resumed branch gets a FRESH context: the same position keeps the same id
    from . import misc_contracts, c15
    misc_contracts.context_construction(chk, "C01")        # ... create_child_context really makes a new context (with its own counter at 0) on every call
    c15.containers(chk, only=("batch_result",), prefix="C01")   # the recorded outcome of a completed map / parallel is delivered item by item as recorded (falsy results included)
    executor_contracts.replay_items(chk, "C01")

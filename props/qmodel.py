"""Ghost model of the checkpoint pipeline's queues (DESIGN 4 C05, A.4).

Hand-over order is a ghost index: element i is the i-th QueuedOperation ever put on the main queue (assumption G:
queue.Queue is a linearizable FIFO).  A queue / list that holds a CONTIGUOUS run of that order is (start, len); putting an
element that does not continue the run generates a failing FIFO obligation instead of being representable.
  is_empty(i)  - element i has operation_update None          is_async(i) - element i has no completion event
  size(i)      - _calculate_operation_size of element i  (>= 0; 0 for empty elements - trusted arithmetic summary)
  W[i], Werr[i] - ghost: completion event of element i has been set, and with which error (0 = None)
"""
from __future__ import annotations

import z3

from pyvc import ops
from pyvc.ops import F, T, mk_opt
from pyvc.values import Opt, Ref, Sym, Unsupported, fresh, fresh_name, is_sym, simp, zint

is_empty = z3.Function("q_is_empty", z3.IntSort(), z3.BoolSort())
is_async = z3.Function("q_is_async", z3.IntSort(), z3.BoolSort())
size = z3.Function("q_size", z3.IntSort(), z3.IntSort())
PSUM = z3.Function("q_prefix_size", z3.IntSort(), z3.IntSort())  # PSUM(i) = sum of size(j) for j < i


def psum_axioms(i):
    """instances of the defining axioms of the prefix sum needed around index i"""
    return z3.And(PSUM(i + 1) == PSUM(i) + size(i), size(i) >= 0, z3.Implies(is_empty(i), size(i) == 0))


def element(st, idx):
    return st.alloc("opaque:QueuedOp", {"idx": idx if isinstance(idx, Sym) else Sym("int", idx)})


def elem_idx(st, v):
    v = ops.strip_opt(v)
    if isinstance(v, Ref) and v.cls in ("opaque:QueuedOp", "opaque:QEvent", "opaque:QUpdate"):
        return st.get(v)["idx"].t
    raise Unsupported(f"not a queue element: {v!r}")


def err_id(v):
    if v is None:
        return z3.IntVal(0)
    if isinstance(v, Ref):
        return z3.IntVal(v.oid)
    raise Unsupported(f"error value {v!r}")


def ghost_arrays(st):
    if "W" not in st.ghost:
        st.ghost["W"] = z3.K(z3.IntSort(), False)
        st.ghost["Werr"] = z3.K(z3.IntSort(), z3.IntVal(-1))
    return st.ghost["W"], st.ghost["Werr"]


class QueueHooksMixin:
    """opaque attribute / call behaviour of queue elements and their events (mixed into the state hooks)"""

    def q_attr(self, eng, st, ref, name):
        stor = st.get(ref)
        if ref.cls == "opaque:QueuedOp":
            i = stor["idx"].t
            if name == "operation_update":
                return [("val", mk_opt(is_empty(i), st.alloc("opaque:QUpdate", {"idx": stor["idx"]})), st)]
            if name == "completion_event":
                return [("val", mk_opt(is_async(i), st.alloc("opaque:QEvent", {"idx": stor["idx"]})), st)]
        return None

    def q_call(self, eng, st, fn, args, kwargs):
        if fn.name == "QEvent.set":
            i = st.get(fn.info)["idx"].t
            err = args[0] if args else kwargs.get("error")
            W, We = ghost_arrays(st)
            first = z3.Not(z3.Select(W, i))
            # CompletionEvent.set: first error wins (verified in C03.event.contract); the ghost records the error of the first set
            st.ghost["Werr"] = z3.If(first, z3.Store(We, i, err_id(err)), We)
            st.ghost["W"] = z3.Store(W, i, True)
            st.emit("qset", idx=i, err=err)
            return [("val", None, st)]
        return None


class RangeModel:
    """container model for kinds 'rqueue' (queue.Queue) and 'rlist' (python list holding a contiguous run)"""

    def __init__(self, chk, prefix):
        self.chk, self.prefix = chk, prefix

    # -- helpers
    def _push(self, eng, st, ref, x, what):
        stor = st.get(ref)
        i = elem_idx(st, x)
        out = []
        for empty, s in eng.branch(st, stor["len"] == 0):
            s_stor = dict(s.get(ref))
            if empty:
                s_stor["start"], s_stor["len"] = i, z3.IntVal(1)
            else:
                self.chk.prove(f"{self.prefix}.fifo.{stor['name']}", s.pc, i == s_stor["start"] + s_stor["len"],
                               desc=f"{what} on {stor['name']} continues the hand-over order (nothing reordered, lost or duplicated)", sample=f"{what} of element i on {stor['name']} holding [start, start+len): i == start+len")
                s_stor["len"] = s_stor["len"] + 1
            s.put(ref, s_stor)
            out.append(("val", None, s))
        return out

    def _arrivals(self, eng, st, ref):
        stor = st.get(ref)
        if stor.get("grows"):
            k = z3.Int(fresh_name("arrivals"))
            st.assume(k >= 0)
            ns = dict(stor)
            ns["len"] = stor["len"] + k
            st.put(ref, ns)

    def _pop(self, eng, st, ref):
        self._arrivals(eng, st, ref)
        stor = st.get(ref)
        out = []
        for empty, s in eng.branch(st, stor["len"] <= 0):
            if empty:
                out.extend(eng.raise_ext(s, "queue.Empty"))
            else:
                ns = dict(s.get(ref))
                i = ns["start"]
                ns["start"], ns["len"] = i + 1, ns["len"] - 1
                s.put(ref, ns)
                s.assume(psum_axioms(i))
                s.emit("qget", queue=stor["name"], idx=i)
                out.append(("val", element(s, i), s))
        return out

    # -- container model interface
    def method(self, eng, st, ref, name, args, kwargs):
        stor = st.get(ref)
        kind = stor["__kind__"]
        if kind == "rqueue":
            if name in ("get_nowait", "get"):
                return self._pop(eng, st, ref)
            if name == "put":
                return self._push(eng, st, ref, args[0], "put")
            if name == "task_done":
                return [("val", None, st)]
            if name == "empty":
                self._arrivals(eng, st, ref)
                return [("val", Sym("bool", st.get(ref)["len"] <= 0), st)]
        if kind == "rlist":
            if name == "append":
                return self._push(eng, st, ref, args[0], "append")
        raise Unsupported(f"{kind}.{name}")

    def len(self, eng, st, ref):
        return [("val", Sym("int", st.get(ref)["len"]), st)]

    def comp(self, eng, st, e, gen, it, kind):
        """[f(q) for q in batch if c(q)]: evaluated on a generic element; result is a 'gmap' value"""
        stor = st.get(it)
        j = z3.Int(fresh_name("j"))
        s = st.fork()
        s.assume(z3.And(j >= stor["start"], j < stor["start"] + stor["len"]))
        for s1 in eng.bind_target(gen.target, element(s, j), s):
            conds = eng.ev_seq(gen.ifs, s1)
            if len(conds) != 1 or conds[0][0] != "val":
                raise Unsupported("comprehension filter forks")
            cond = simp(z3.And([ops.truth(conds[0][2], v) for v in conds[0][1]])) if gen.ifs else T
            s2 = conds[0][2]
            s2.assume(cond)
            res = eng.ev(e.elt, s2)
            if len(res) != 1 or res[0][0] != "val":
                raise Unsupported("comprehension element forks")
            elt = res[0][1]
            return [("val", st.alloc("list", {"__kind__": "gmap", "src_start": stor["start"], "src_len": stor["len"], "j": j, "cond": cond, "elt_idx": elem_idx(res[0][2], elt) if isinstance(ops.strip_opt(elt), Ref) else None,
                                               "elt_cls": getattr(ops.strip_opt(elt), "cls", None)}), st)]
        raise Unsupported("comprehension target")


def generic_element_of(eng, st, it):
    """ForEach support: (generic element, domain condition) of an rlist"""
    stor = st.get(ops.strip_opt(it))
    j = z3.Int(fresh_name("j"))
    return element(st, j), z3.And(j >= stor["start"], j < stor["start"] + stor["len"])


def apply_foreach(st, ev):
    """quantified effect of a per-element loop whose bodies only set completion events: updates the ghost arrays W / Werr"""
    stor_elem = ev.elem
    j = st.get(stor_elem)["idx"].t
    over = st.get(ops.strip_opt(ev.over))
    lo, hi = over["start"], over["start"] + over["len"]
    W, We = ghost_arrays(st)
    W2 = z3.Array(fresh_name("W"), z3.IntSort(), z3.BoolSort())
    We2 = z3.Array(fresh_name("Werr"), z3.IntSort(), z3.IntSort())
    i = z3.Int(fresh_name("i"))
    set_cond, err_term = F, z3.IntVal(-1)
    for pcd, events in ev.bodies:
        qs = [e for e in events if e.kind == "qset"]
        other = [e for e in events if e.kind not in ("qset",)]
        if other:
            raise Unsupported("per-element loop body with effects other than setting completion events")
        if not qs:
            continue
        if len(qs) != 1 or not z3.eq(simp(qs[0].idx), j):
            raise Unsupported("per-element loop sets an event other than the element's own")
        c = z3.substitute(z3.And(pcd) if pcd else T, (j, i))
        set_cond = z3.Or(set_cond, c)
        err_term = z3.If(c, err_id(qs[0].err), err_term)
    inr = z3.And(i >= lo, i < hi)
    st.assume(z3.ForAll([i], z3.Select(W2, i) == z3.Or(z3.Select(W, i), z3.And(inr, set_cond))))
    st.assume(z3.ForAll([i], z3.Select(We2, i) == z3.If(z3.And(inr, set_cond, z3.Not(z3.Select(W, i))), err_term, z3.Select(We, i))))
    st.ghost["W"], st.ghost["Werr"] = W2, We2

#!/bin/bash
# stage_round.sh <worktree root> <tag>: copies <root>/Cxx/_out/m{1,2} to /verif/seeded_staging/<Cxx>-<tag>m{1,2}, verifies each in a fresh worktree
root=$1; tag=$2
mkdir -p /verif/seeded_staging
for d in $root/C*/_out/m*; do
  [ -f $d/patch.diff ] || continue
  c=$(echo $d | sed "s|$root/||; s|/_out/.*||"); m=$(basename $d)
  dst=/verif/seeded_staging/$c-$tag$m
  [ -d $dst ] && continue
  [ -d /verif/seeded/$c-$tag$m ] && continue
  mkdir -p $dst && cp -r $d/. $dst/
  echo $dst
done > /tmp/staged_$tag.txt
cat /tmp/staged_$tag.txt | xargs -r -P 5 -n 1 /verif/tools/verify_mutant.sh >> /verif/seeded_staging/verify_$tag.jsonl 2>&1
wc -l /verif/seeded_staging/verify_$tag.jsonl

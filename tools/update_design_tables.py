#!/usr/bin/env python3
"""update_design_tables.py: replaces the matrix table of DESIGN.md 9.6 with the output of matrix_table.py and (re)writes the summary table at the end of 9.1"""
import os, re, subprocess, sys
V = os.path.dirname(os.path.dirname(os.path.abspath(__file__)))
p = f"{V}/DESIGN.md"
s = open(p).read()
mt = subprocess.run([sys.executable, f"{V}/tools/matrix_table.py"], capture_output=True, text=True).stdout.strip().splitlines()
table = "\n".join(l for l in mt if l.startswith("|"))
tail = next((l for l in mt if l and not l.startswith("|")), "")
i = s.index("| change | what it does (from its meta.json)")
j = s.index("\n\n", i)
s = s[:i] + table + "\n\n" + tail + s[j:] if not s[j + 2:].startswith(tail[:20]) else s[:i] + table + s[j:]
st = subprocess.run([sys.executable, f"{V}/tools/summary_table.py"], capture_output=True, text=True).stdout.strip()
begin, end = "<!-- summary-table:begin -->", "<!-- summary-table:end -->"
block = f"{begin}\nPer-property summary of the last run on the unchanged tree (`tools/summary_table.py`, from the evidence files):\n\n{st}\n{end}"
if begin in s:
    s = s[:s.index(begin)] + block + s[s.index(end) + len(end):]
else:
    anchor = "### 9.2 Deviations from the plan"
    s = s.replace(anchor, block + "\n\n" + anchor, 1)
open(p, "w").write(s)
print("DESIGN.md tables updated")

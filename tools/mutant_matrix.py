#!/usr/bin/env python3
"""Runs every seeded change against every claimed check, each change in its own scratch worktree of /repo HEAD (removed afterwards).
Writes /verif/seeded/matrix.json: {mutant: {property: exit code}} and prints a summary.  Development tool, not a registered command."""
import json, os, subprocess, sys, concurrent.futures as cf, shutil
V = "/verif"
props = [c["property_id"] for c in json.load(open(f"{V}/MANIFEST.json"))["checks"]]
muts = sorted(d for d in os.listdir(f"{V}/seeded") if os.path.isdir(f"{V}/seeded/{d}") and d != "retired")
only = sys.argv[1:]
if only:
    muts = [m for m in muts if m in only]
os.makedirs("/tmp/wtm", exist_ok=True)
# run from a snapshot of /verif so that the checks stay fixed while the matrix runs (the working copy may be edited meanwhile)
SNAP = f"/tmp/wtm/verif_snapshot_{os.getpid()}"
shutil.rmtree(SNAP, ignore_errors=True)
shutil.copytree(V, SNAP, ignore=shutil.ignore_patterns(".git", "replays", "seeded_staging", "__pycache__", "evidence"))

def prep(m):
    wt = f"/tmp/wtm/{os.getpid()}_{m}"
    subprocess.run(["git", "-C", "/repo", "worktree", "remove", "--force", wt], capture_output=True)
    subprocess.run(["git", "-C", "/repo", "worktree", "add", "-f", wt, "HEAD"], capture_output=True, check=True)
    pf = f"{V}/seeded/{m}/patch.rebased.diff" if os.path.exists(f"{V}/seeded/{m}/patch.rebased.diff") else f"{V}/seeded/{m}/patch.diff"
    r = subprocess.run(["git", "-C", wt, "apply", "--3way", pf], capture_output=True, text=True)
    if r.returncode != 0:
        return None
    return wt

def run(args):
    try:
        return run_(args)
    except Exception as e:  # noqa: BLE001
        return args[0], args[1], f"error: {e!r}"[:80], []


def run_(args):
    m, p, wt = args
    env = dict(os.environ, PYVC_MATRIX_RUN="1", PYVC_REPO=wt, PYVC_EVIDENCE_DIR=f"/tmp/wtm/ev_{os.getpid()}_{m}", PYVC_REPLAY_DIR=f"/tmp/wtm/rp_{os.getpid()}_{m}")
    os.makedirs(env["PYVC_EVIDENCE_DIR"], exist_ok=True)
    try:
        r = subprocess.run(["python3-vt", "-m", "pyvc", "check", p], cwd=SNAP, env=env, capture_output=True, text=True, timeout=900)
    except subprocess.TimeoutExpired:
        return m, p, "timeout", []
    viol = [l.split("replay=")[1].split("/")[-1].replace(".json", "").split(" ")[0] for l in r.stdout.splitlines() if l.startswith("VIOLATION")]
    return m, p, r.returncode, viol

jobs, wts = [], {}
for m in muts:
    wt = prep(m)
    wts[m] = wt
    if wt is None:
        print("PATCH DOES NOT APPLY:", m)
        continue
    for p in props:
        if os.environ.get("ONLY_OWN") and p != m[:3]:
            continue
        if os.environ.get("ONLY_PROPS") and p not in os.environ["ONLY_PROPS"].split(","):
            continue
        jobs.append((m, p, wt))
res = {}
with cf.ThreadPoolExecutor(max_workers=14) as ex:
    for m, p, rc, viol in ex.map(run, jobs):
        res.setdefault(m, {})[p] = {"exit": rc, "obligations": viol[:4]}
for m, wt in wts.items():
    if wt:
        subprocess.run(["git", "-C", "/repo", "worktree", "remove", "--force", wt], capture_output=True)
    for d in (f"/tmp/wtm/ev_{os.getpid()}_{m}", f"/tmp/wtm/rp_{os.getpid()}_{m}"):
        shutil.rmtree(d, ignore_errors=True)
shutil.rmtree(SNAP, ignore_errors=True)
old = json.load(open(f"{V}/seeded/matrix.json")) if os.path.exists(f"{V}/seeded/matrix.json") and (only or os.environ.get("ONLY_PROPS") or os.environ.get("ONLY_OWN")) else {}
for m_, r_ in res.items():
    old.setdefault(m_, {}).update(r_)
json.dump(old, open(f"{V}/seeded/matrix.json", "w"), indent=1, sort_keys=True)
for m in sorted(res):
    own = m[:3]
    caught = [p for p, r in res[m].items() if r["exit"] == 1]
    other = {p: r["exit"] for p, r in res[m].items() if r["exit"] not in (0, 1)}
    print(f"{m}: own={res[m].get(own, {}).get('exit')} caught_by={caught} undecided/fault={other}")

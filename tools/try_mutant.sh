#!/bin/bash
# usage: try_mutant.sh <seeded name> <prop> [<prop> ...] : applies the seeded patch to /repo, runs the quick checks, reverts.
m=$1; shift
cd /repo && git diff --quiet || { echo "repo dirty"; exit 9; }
if ! git apply --3way /verif/seeded/$m/patch.diff 2>/tmp/apply.err && ! git apply /verif/seeded/$m/patch.diff 2>>/tmp/apply.err; then echo "PATCH-DOES-NOT-APPLY $m"; cat /tmp/apply.err | tail -3; git checkout -- . ; git reset -q; exit 8; fi
git reset -q
cd /verif
for p in "$@"; do
  out=$(python3-vt -m pyvc check $p 2>&1); rc=$?
  echo "== $m on $p: exit=$rc"; echo "$out" | grep -E "^(VIOLATION|UNDECIDED|CHECKER-FAULT|KNOWN)" | head -6
done
cd /repo && git checkout -- . && git status --short | head -3

#!/bin/bash
# usage: try_mutant.sh <seeded name> <prop> [<prop> ...] : applies the seeded patch to /repo, runs the quick checks, reverts.
m=$1; shift
cd /repo && git diff --quiet || { echo "repo dirty"; exit 9; }
pf=/verif/seeded/$m/patch.diff; [ -f /verif/seeded/$m/patch.rebased.diff ] && pf=/verif/seeded/$m/patch.rebased.diff
if git apply --check $pf 2>/dev/null; then git apply $pf; elif git apply --3way $pf 2>/tmp/apply.err; then git reset -q; else echo "PATCH-DOES-NOT-APPLY $m"; tail -2 /tmp/apply.err; git reset -q --hard HEAD; exit 8; fi
cd /verif
rm -rf /tmp/evidence.bak.$$; cp -r evidence /tmp/evidence.bak.$$
for p in "$@"; do
  out=$(python3-vt -m pyvc check $p 2>&1); rc=$?
  echo "== $m on $p: exit=$rc"; echo "$out" | grep -E "^(VIOLATION|UNDECIDED|CHECKER-FAULT|KNOWN)" | head -6
done
rm -rf /verif/evidence; mv /tmp/evidence.bak.$$ /verif/evidence
cd /repo && git checkout -- . && git status --short | head -3

#!/usr/bin/env python3
"""matrix_table.py: prints the markdown table of DESIGN.md 9.6 from seeded/matrix.json and the seeded changes' meta.json"""
import json, os, re
V = os.path.dirname(os.path.dirname(os.path.abspath(__file__)))
M = json.load(open(f"{V}/seeded/matrix.json"))
print("| change | what it does (from its meta.json) | obligation(s) of its own property that fail | also reported by |")
print("|---|---|---|---|")
missed = []
harmless_ok = True
harmless_undecided = []
for m in sorted(M):
    if not os.path.isdir(f"{V}/seeded/{m}") or m == "retired":
        continue
    if m.startswith("harmless"):
        r = M[m]
        alarms = [p for p in sorted(r) if r[p].get("exit") == 1]
        und = [f"{p}:exit{r[p]['exit']}" for p in sorted(r) if r[p].get("exit") not in (0, 1)]
        verdict = "no check reports it (all exit 0)" if not alarms and not und else ("ALARM: " + " ".join(alarms) if alarms else "no check reports it; undecided: " + " ".join(und))
        print(f"| {m} | behaviour-preserving edits (must NOT be reported) | {verdict} | - |")
        harmless_ok = harmless_ok and not alarms
        harmless_undecided.extend(f"{m}/{u}" for u in und)
        continue
    own = m[:3]
    try:
        summ = json.load(open(f"{V}/seeded/{m}/meta.json")).get("summary", "")
    except Exception:
        summ = ""
    summ = re.sub(r"\s+", " ", summ).replace("|", "/")[:110]
    r = M[m]
    o = r.get(own, {})
    obl = ", ".join(dict.fromkeys(o.get("obligations", []))) if o.get("exit") == 1 else f"NOT REPORTED (exit {o.get('exit')})"
    if o.get("exit") != 1:
        missed.append(m)
    others = " ".join(p for p in sorted(r) if p != own and r[p].get("exit") == 1) or "-"
    bad = " ".join(f"{p}:exit{r[p]['exit']}" for p in sorted(r) if r[p].get("exit") not in (0, 1))
    print(f"| {m} | {summ} | {obl} | {others}{(' (undecided/fault: ' + bad + ')') if bad else ''} |")
print()
n_mut = sum(1 for m in M if not m.startswith("harmless") and os.path.isdir(f"{V}/seeded/{m}"))
print(f"{n_mut} seeded changes; reported by their own property's check (exit 1): {n_mut - len(missed)}; not reported: {missed}; harmless-edit sets raise no alarm: {harmless_ok}" + (f" (left undecided: {harmless_undecided})" if harmless_undecided else ""))

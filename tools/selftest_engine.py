#!/usr/bin/env python3
"""Conformance self-test of the pyvc engine against CPython on the language subtleties that earlier rounds of seeded changes turned on.

Each snippet is ordinary Python.  It is (a) executed by the interpreter running this script and (b) loaded by pyvc's loader from a scratch
directory and executed symbolically on the same concrete arguments.  The engine is SOUND on a snippet when CPython's outcome (returned
value, or class of the raised exception) is among the outcomes the engine considers possible, or when the engine refuses the snippet
(Unsupported: the check using it would end undecided, never 'proved').  An engine outcome set that excludes what CPython does is a
soundness defect of the engine and fails the self-test (exit 1).  Precision is reported but not required: `exact` counts the snippets
for which the engine has exactly CPython's outcome.

This is a test of the verifier, not a proof of anything about /repo; it runs in the thorough tier of every check (bounded, labelled so)."""
import os
import shutil
import sys
import tempfile

sys.path.insert(0, os.path.dirname(os.path.dirname(os.path.abspath(__file__))))
import z3  # noqa: E402

from pyvc.engine import Engine  # noqa: E402
from pyvc.loader import Program  # noqa: E402
from pyvc.state import St  # noqa: E402
from pyvc.values import Opt, Ref, Sym, Unsupported  # noqa: E402

SNIPPETS = r'''
import enum
import functools
import threading


class Color(enum.Enum):
    RED = "RED"
    BLUE = "BLUE"


class Box:
    shared = threading.Event()

    def __init__(self, v):
        self.v = v


class Plain:
    limit = 3
    names = ("a", "b")

    def __init__(self, v):
        self.v = v


class Stop(BaseException):
    pass


def is_int_big(a, b):
    return a + 0 is b + 0


def is_none(a):
    return a is None


def is_str_built(a, b):
    return (a + "") is (b + "x")[:-1]


def enum_eq_value(s):
    return Color.RED == s


def enum_is_member(s):
    return Color(s) is Color.RED


def fmt_d(x):
    return f"{x:d}"


def fmt_f(x):
    return len(f"{x:.2f}") > 0


def fmt_none(x):
    return f"{x:>4}"


def fmt_plain(x):
    return f"v={x}"


def truthy_empty_str(x):
    if not x:
        return "absent"
    return "present"


def none_check(x):
    if x is None:
        return "absent"
    return "present"


def dict_get_default(k):
    d = {}
    d.get(k, []).append(1)
    return len(d)


def dict_setdefault(k):
    d = {}
    d.setdefault(k, []).append(1)
    return len(d)


def mutable_default(x, acc=[]):
    acc.append(x)
    return len(acc)


def twice_mutable_default(x):
    mutable_default(x)
    return mutable_default(x)


def gen_twice(n):
    g = (i for i in range(n))
    a = sum(1 for _ in g)
    b = sum(1 for _ in g)
    return (a, b)


def except_exception(flag):
    try:
        if flag:
            raise Stop()
        raise ValueError("v")
    except Exception:
        return "caught"


def join_non_str(x):
    return ", ".join([x, "b"])


def floor_div(a, b):
    return (a // b, a % b)


def or_operand(a, b):
    return a or b


def and_operand(a, b):
    return a and b


def chained(a, b, c):
    return a < b <= c


def class_level_shared(v):
    x, y = Box(v), Box(v)
    x.shared.set()
    return y.shared.is_set()


def class_level_constant(v):
    return Plain(v).limit + len(Plain(v).names)


def int_true_dict_key(k):
    d = {1: "int"}
    d[k] = "other"
    return len(d)


def bool_is_int(x):
    return isinstance(x, int)


def str_mul(s, n):
    return s * n


def slice_neg(s):
    return s[-1:]


def tuple_eq_list(a):
    return (1, 2) == [1, 2]


def round_half(x):
    return int(x + 0.5)


def sort_mixed(a, b):
    return sorted([a, b])[0]


def finally_overrides(x):
    try:
        return x
    finally:
        x = x + 1


def loop_else(n):
    for i in range(n):
        if i == 2:
            break
    else:
        return "exhausted"
    return "broke"


def default_arg_eval(x, y=None):
    y = y or []
    y.append(x)
    return len(y)


def str_startswith_tuple(s):
    return s.startswith(("ab", "cd"))


def in_string(a, b):
    return a in b


def int_of_bool(b):
    return b + 1


def not_eq_none(x):
    return x != None  # noqa: E711


def nested_closure(n):
    fs = [lambda: i for i in range(n)]
    return fs[0]()


def loop_closure(n):
    fs = []
    for i in range(n):
        fs.append(lambda: i)
    return fs[0]()


def loop_closure_default(n):
    fs = []
    for i in range(n):
        fs.append(lambda i=i: i)
    return fs[0]()


def rebind_after_def(x):
    def get():
        return x
    x = x + 1
    return get()


def make_adder(x):
    def add(y):
        return x + y
    x = x * 10
    return add


def closure_outlives(x):
    return make_adder(x)(1)


def comp_scope(n):
    i = 100
    xs = [i for i in range(n)]
    return i + len(xs)


def nested_def_sees_later_name(x):
    def get():
        return later
    later = x
    return get()


def augmented_alias(n):
    a = [1]
    b = a
    b += [n]
    return len(a)


def tuple_augmented(n):
    a = (1,)
    b = a
    b += (n,)
    return len(a)

import dataclasses
import math
from dataclasses import dataclass, field


class Base:
    kind = "base"

    def __init__(self, v):
        self.v = v

    def describe(self):
        return self.kind + ":" + self.name()

    def name(self):
        return "B"


class Derived(Base):
    kind = "derived"

    def name(self):
        return "D" + super().name()


class MyErr(Exception):
    pass


class SubErr(MyErr):
    pass


@dataclass(frozen=True)
class Point:
    x: int
    y: int = 0


@dataclass
class Bag:
    items: list = field(default_factory=list)
    n: int = 0


class Ctx:
    def __init__(self, swallow):
        self.swallow = swallow
        self.log = 0

    def __enter__(self):
        self.log += 1
        return self

    def __exit__(self, et, ev, tb):
        self.log += 10
        return self.swallow


def try_finally_return(x):
    try:
        return x
    finally:
        if x > 5:
            return -1


def try_else(x):
    try:
        if x:
            raise ValueError("v")
    except ValueError:
        return "except"
    else:
        return "else"


def except_order(flag):
    try:
        if flag:
            raise SubErr("s")
        raise MyErr("m")
    except SubErr:
        return "sub"
    except MyErr:
        return "base"


def except_tuple(k):
    try:
        if k == 0:
            raise KeyError("k")
        if k == 1:
            raise IndexError("i")
        raise TypeError("t")
    except (KeyError, IndexError):
        return "lookup"


def except_lookup_parent(k):
    try:
        if k == 0:
            raise KeyError("k")
        raise ValueError("v")
    except LookupError:
        return "lookup"


def reraise_bare(x):
    try:
        try:
            raise ValueError("inner")
        except ValueError:
            if x:
                raise
            return "handled"
    except ValueError:
        return "outer"


def exception_in_except(x):
    try:
        try:
            raise ValueError("a")
        except ValueError:
            raise KeyError("b")
    except KeyError:
        return "key"


def exc_var_scope(x):
    e = "before"
    try:
        raise ValueError("a")
    except ValueError as e:
        pass
    try:
        return e
    except UnboundLocalError:
        return "unbound"


def finally_runs_on_raise(x):
    log = 0
    try:
        try:
            raise ValueError("a")
        finally:
            log = 5
    except ValueError:
        return log


def str_keyerror(k):
    try:
        raise KeyError(k)
    except KeyError as e:
        return str(e)


def str_valueerror(k):
    try:
        raise ValueError(k)
    except ValueError as e:
        return str(e)


def exc_args_two(a, b):
    try:
        raise ValueError(a, b)
    except ValueError as e:
        return len(e.args)


def dict_missing(k):
    d = {"a": 1}
    return d[k]


def dict_get_none(k):
    d = {"a": 1}
    return d.get(k)


def dict_in(k):
    return k in {"a": 1, "b": 2}


def dict_pop_default(k):
    d = {"a": 1}
    return (d.pop(k, 7), len(d))


def dict_order(k):
    d = {"b": 1, "a": 2}
    d[k] = 3
    return tuple(d)


def dict_update_overwrite(k):
    d = {"a": 1}
    d.update({k: 5})
    return (len(d), d["a"])


def dict_eq_order(x):
    return {"a": 1, "b": 2} == {"b": 2, "a": 1}


def list_index_error(i):
    xs = [1, 2, 3]
    return xs[i]


def list_slice(i):
    xs = [1, 2, 3, 4]
    return tuple(xs[i:])


def list_in(x):
    return x in [1, 2, 3]


def list_concat_len(n):
    return len([1, 2] + [n])


def list_pop_empty(n):
    xs = []
    return xs.pop()


def list_eq(a):
    return [1, a] == [1, 2]


def list_alias_append(n):
    a = [1]
    b = a
    b.append(n)
    return len(a)


def list_copy_append(n):
    a = [1]
    b = list(a)
    b.append(n)
    return len(a)


def true_div(a, b):
    return a / b


def int_trunc(x):
    return int(x)


def neg_mod(a, b):
    return a % b


def power(a, b):
    return a ** b


def min_max(a, b):
    return (min(a, b), max(a, b))


def round_builtin(x):
    return round(x)


def math_ceil(x):
    return math.ceil(x)


def int_float_eq(a, b):
    return a == b


def bool_sum(a, b):
    return a + b


def zero_div(a):
    return 1 // a


def str_of(x):
    return str(x)


def str_len(s):
    return len(s)


def str_concat_none(s):
    return "a" + s


def str_compare(a, b):
    return a < b


def str_index(s, i):
    return s[i]


def str_slice(s):
    return s[1:3]


def str_format_percent(n):
    return "%d items" % n


def str_in_tuple(s):
    return s in ("a", "b")


def short_circuit(x):
    log = []
    def t(v):
        log.append(v)
        return v
    r = t(x) and t(0) or t(7)
    return (r, len(log))


def ternary(x):
    return "yes" if x else "no"


def chained_once(x):
    log = []
    def mid():
        log.append(1)
        return x
    r = 0 < mid() < 10
    return (r, len(log))


def any_all_empty(x):
    return (any([]), all([]))


def walrus(x):
    if (y := x + 1) > 2:
        return y
    return -y


def unpack_mismatch(n):
    a, b = (1, 2, 3)[:n]
    return a + b


def star_unpack(n):
    a, *rest = (1, 2, 3)
    return (a, len(rest))


def swap(a, b):
    a, b = b, a
    return (a, b)


def kwonly(a, *, b=2):
    return a + b


def call_kwonly_wrong(x):
    return kwonly(1, x)


def varargs(*xs, **kw):
    return (len(xs), len(kw))


def call_varargs(x):
    return varargs(1, x, k=3)


def method_resolution(x):
    return Derived(x).describe()


def base_resolution(x):
    return Base(x).describe()


def isinstance_inherit(x):
    return (isinstance(Derived(x), Base), isinstance(Base(x), Derived))


def instance_shadows_class(x):
    d = Derived(x)
    d.kind = "own"
    return (d.kind, Derived.kind, Derived(x).kind)


def frozen_set(x):
    p = Point(x)
    p.x = 5
    return p.x


def dataclass_eq(x):
    return (Point(x, 1) == Point(x, 1), Point(x, 1) == Point(x, 2), Point(x) == (x, 0))


def dataclass_default_factory(x):
    a, b = Bag(), Bag()
    a.items.append(x)
    return (len(a.items), len(b.items))


def dataclass_replace(x):
    p = dataclasses.replace(Point(1, 2), y=x)
    return (p.x, p.y)


def with_swallow(flag):
    c = Ctx(flag)
    try:
        with c:
            raise ValueError("in")
    except ValueError:
        return ("raised", c.log)
    return ("swallowed", c.log)


def none_lt(x):
    return None < x


def or_default_zero(x):
    return x or 10


def is_not_none_zero(x):
    return x if x is not None else 10


def for_else(n):
    for i in range(n):
        if i == 1:
            break
    else:
        return "else"
    return "break"


def while_else(n):
    i = 0
    while i < n:
        i += 1
    else:
        return ("else", i)


def break_in_try_finally(n):
    log = 0
    for i in range(n):
        try:
            if i == 1:
                break
        finally:
            log += 1
    return log


def continue_loop(n):
    t = 0
    for i in range(n):
        if i % 2:
            continue
        t += i
    return t


def range_step(n):
    return tuple(range(n, 0, -2))


def enumerate_start(n):
    return tuple((i, v) for i, v in enumerate(["a", "b"], start=n))


def zip_unequal(n):
    return len(list(zip([1, 2, 3], ["a", "b"])))


def reversed_list(n):
    return tuple(reversed([1, 2, n]))


def sum_list(n):
    return sum([1, 2, n])


def max_empty(n):
    return max([])


def max_default(n):
    return max([], default=n)


def sorted_key(n):
    return tuple(sorted([3, 1, n], key=lambda v: -v))


def sort_returns_none(n):
    xs = [3, 1, n]
    r = xs.sort()
    return (r, xs[0])


def int_parse(s):
    return int(s)


def nan_ne(x):
    n = float("nan")
    return n != n


def attr_missing(x):
    return Base(x).nope


def getattr_default(x):
    return getattr(Base(x), "nope", 9)


def hasattr_check(x):
    return (hasattr(Base(x), "v"), hasattr(Base(x), "w"))


def none_attr(x):
    y = None
    return y.value


def call_none(x):
    f = None
    return f()


def nested_func_default(x):
    def inner(a, b=x):
        return a + b
    x = 100
    return inner(1)


def tuple_compare(a, b):
    return (a, 1) < (b, 0)


def str_mult_bool(b):
    return "ab" * b


def int_str_add(n):
    return "n" + n


def list_mul(n):
    xs = [[0]] * 2
    xs[0].append(n)
    return len(xs[1])


def del_key(k):
    d = {"a": 1, "b": 2}
    del d[k]
    return len(d)


def set_ops(x):
    s = {1, 2}
    s.add(x)
    return len(s)


def membership_none(x):
    return x in (None, 0)


def global_const_shadow(x):
    math = 5
    return math + x

import datetime
from typing import Any


class Status(enum.Enum):
    STARTED = "STARTED"
    DONE = "DONE"


class Signal(BaseException):
    def __init__(self, message, code=0):
        super().__init__(message)
        self.message = message
        self.code = code


class TimedSignal(Signal):
    def __init__(self, message, at):
        super().__init__(message, code=1)
        self.at = at


class WithProp:
    def __init__(self, v):
        self._v = v

    @property
    def double(self):
        return self._v * 2

    @classmethod
    def make(cls, v):
        return cls(v + 1)

    @staticmethod
    def helper(v):
        return v - 1


class Child(WithProp):
    @property
    def double(self):
        return self._v * 3


def enum_value_roundtrip(s):
    return Status(s).value


def enum_name(s):
    return Status(s).name


def enum_eq_other_enum(s):
    return Status.STARTED == Color.RED


def enum_in_tuple(s):
    return Status(s) in (Status.DONE,)


def enum_is_not(s):
    return Status(s) is not Status.DONE


def enum_ne_str(s):
    return Status.DONE != s


def base_exception_fields(m):
    try:
        raise TimedSignal(m, 5)
    except Signal as e:
        return (e.message, e.code, e.at, str(e), type(e).__name__)


def base_exc_not_caught_by_exception(m):
    try:
        try:
            raise Signal(m)
        except Exception:
            return "exception"
    except BaseException:
        return "base"


def raise_from(m):
    try:
        try:
            raise ValueError(m)
        except ValueError as e:
            raise KeyError("k") from e
    except KeyError as k:
        return type(k.__cause__).__name__


def isinstance_tuple(x):
    return isinstance(x, (int, str))


def isinstance_bool_int(x):
    return (isinstance(x, bool), isinstance(x, int), isinstance(x, float))


def type_is(x):
    return type(x) is int


def type_name(x):
    return type(x).__name__


def class_name_attr(x):
    return WithProp(x).__class__.__name__


def property_get(x):
    return (WithProp(x).double, Child(x).double)


def classmethod_make(x):
    return (WithProp.make(x)._v, Child.make(x).double)


def staticmethod_call(x):
    return (WithProp.helper(x), WithProp(x).helper(x))


def property_set(x):
    w = WithProp(x)
    w.double = 5
    return w.double


def nested_get(k):
    d = {"a": {"b": 1}}
    return d.get(k, {}).get("b")


def dict_items_sum(n):
    d = {"a": 1, "b": n}
    t = 0
    for k, v in d.items():
        t += v
    return t


def dict_values_list(n):
    return tuple({"a": 1, "b": n}.values())


def dict_comp(n):
    d = {k: v * n for k, v in (("a", 1), ("b", 2))}
    return (d["a"], d["b"], len(d))


def dict_len(n):
    return len({"a": 1, "a": 2})


def list_comp_cond(n):
    return tuple(x * 2 for x in [1, 2, 3, 4] if x > n)


def list_extend(n):
    xs = [1]
    xs.extend([n, n])
    return len(xs)


def list_copy_method(n):
    a = [1, n]
    b = a.copy()
    b.append(3)
    return (len(a), len(b))


def zip_for(n):
    t = 0
    for a, b in zip([1, 2], [n, n]):
        t += a * b
    return t


def recursion(n):
    return 1 if n <= 1 else n * recursion(n - 1)


def lambda_default(n):
    f = lambda a, b=2: a + b
    return f(n)


def str_float(x):
    return str(x)


def fstr_float(x):
    return f"{x}"


def fstr_bool_none(x):
    return f"{x}|{None}|{True}"


def fstr_repr(x):
    return f"{x!r}"


def int_times_float(a, b):
    return a * b


def int_lt_float(a, b):
    return a < b


def str_in(a, b):
    return a in b


def str_eq_case(a, b):
    return a == b


def str_startswith(a, b):
    return a.startswith(b)


def optional_chain(x):
    y = x if x else None
    return y.upper() if y is not None else "none"


def none_eq(x):
    return (x == None, x is None)  # noqa: E711


def bool_of_containers(n):
    return (bool([]), bool([0]), bool({}), bool(""), bool("0"), bool(0.0), bool(n))


def not_not(x):
    return not not x


def and_or_mix(a, b, c):
    return a and b or c


def compare_mixed_types(a, b):
    return a == b


def lt_str_int(a, b):
    return a < b


def nested_tuple_unpack(n):
    (a, b), c = (1, n), 3
    return a + b + c


def for_tuple_unpack(n):
    t = 0
    for i, (a, b) in enumerate([(1, 2), (3, n)]):
        t += i * a * b
    return t


def aug_attr(x):
    w = WithProp(x)
    w._v += 2
    return w._v


def aug_subscript(x):
    d = {"a": 1}
    d["a"] += x
    return d["a"]


def del_attr(x):
    w = WithProp(x)
    del w._v
    return hasattr(w, "_v")


def early_return_loop(n):
    for i in range(10):
        if i == n:
            return i
    return -1


def nested_break(n):
    c = 0
    for i in range(3):
        for j in range(3):
            if j == n:
                break
            c += 1
    return c


def while_true_break(n):
    i = 0
    while True:
        i += 1
        if i >= n:
            break
    return i


def try_in_loop_continue(n):
    c = 0
    for i in range(n):
        try:
            if i % 2 == 0:
                raise ValueError("e")
            c += 10
        except ValueError:
            c += 1
            continue
        c += 100
    return c


def return_in_with(flag):
    c = Ctx(False)
    def inner():
        with c:
            return "inside"
    r = inner()
    return (r, c.log)


def exception_in_finally(x):
    try:
        try:
            raise ValueError("a")
        finally:
            raise KeyError("b")
    except KeyError:
        return "key"
    except ValueError:
        return "value"


def finally_after_return_value(x):
    xs = [x]
    def inner():
        try:
            return xs[0]
        finally:
            xs[0] = 99
    r = inner()
    return (r, xs[0])


def assert_stmt(x):
    assert x > 0, "positive"
    return x


def datetime_compare(a):
    d1 = datetime.datetime(2024, 1, 1, tzinfo=datetime.UTC)
    d2 = datetime.datetime(2024, 1, 2, tzinfo=datetime.UTC)
    return d1 < d2


def timedelta_seconds(a):
    return datetime.timedelta(seconds=a).total_seconds()


def conditional_import_name(x):
    return Any is not None


def int_bool_eq(x):
    return (1 == True, 0 == False, 2 == True)  # noqa: E712


def list_of_bool_in(x):
    return True in [1]


def str_join_ok(a, b):
    return "-".join([a, b])


def str_split(s):
    return tuple(s.split(","))


def str_strip(s):
    return s.strip()


def str_upper(s):
    return s.upper()


def str_replace(s):
    return s.replace("a", "b")


def str_find(s):
    return s.find("b")


def str_isdigit(s):
    return s.isdigit()


def bytes_len(s):
    return len(s.encode("utf-8"))


def abs_val(x):
    return abs(x)


def divmod_val(a, b):
    return divmod(a, b)


def int_bitops(a, b):
    return (a & b, a | b, a ^ b, a << 1)


def float_floor_div(a, b):
    return a // b


def large_int(a):
    return a * a * a * a

class Node:
    def __init__(self, v, nxt=None):
        self.v = v
        self.nxt = nxt


class Acc:
    def __init__(self):
        self.items = []
        self.total = 0

    def add(self, x):
        self.items.append(x)
        self.total += x
        return self


def merge_if(a, b):
    if a > b:
        x = a - b
    else:
        x = b - a
    return x * 2


def merge_nested(a, b, c):
    r = 0
    if a:
        if b:
            r = 1
        else:
            r = 2
    elif c:
        r = 3
    return r + (10 if a and c else 0)


def merge_field(a, n):
    node = Node(n)
    if a:
        node.v = node.v + 1
    else:
        node.nxt = Node(5)
    return (node.v, node.nxt is None)


def alias_mutation(a, n):
    x = Node(n)
    y = x
    if a:
        y.v = 100
    return x.v


def alias_in_list(n):
    x = Node(n)
    xs = [x, x]
    xs[0].v += 1
    return xs[1].v


def mutate_argument(n):
    def bump(node):
        node.v += 1
    x = Node(n)
    bump(x)
    bump(x)
    return x.v


def rebind_argument(n):
    def rebind(node):
        node = Node(0)
        return node
    x = Node(n)
    rebind(x)
    return x.v


def none_default_list(n):
    def push(x, acc=None):
        if acc is None:
            acc = []
        acc.append(x)
        return acc
    a = push(n)
    b = push(n)
    return (len(a), len(b), a is b)


def method_chain(n):
    return Acc().add(n).add(2).total


def two_instances(n):
    a, b = Acc(), Acc()
    a.add(n)
    return (len(a.items), len(b.items))


def loop_sym_cond(a, b):
    c = 0
    for x in [1, 2, 3]:
        if x > a:
            c += x
        elif x == b:
            c -= 1
    return c


def loop_early_return_sym(a):
    for x in [3, 5, 7]:
        if x > a:
            return x
    return -1


def try_sym_raise(a):
    try:
        if a > 3:
            raise ValueError("big")
        r = "small"
    except ValueError as e:
        r = str(e)
    return r


def try_finally_sym(a):
    log = []
    try:
        if a:
            raise KeyError("k")
        log.append("body")
    except KeyError:
        log.append("except")
    finally:
        log.append("finally")
    return len(log)


def nested_try_sym(a, b):
    try:
        try:
            if a:
                raise ValueError("v")
            if b:
                raise KeyError("k")
            return "none"
        except ValueError:
            if b:
                raise TypeError("t")
            return "value"
    except (KeyError, TypeError) as e:
        return type(e).__name__


def opt_param(s):
    if s is None:
        return "none"
    if not s:
        return "empty"
    return s + "!"


def opt_or(s):
    return (s or "dflt") + "."


def opt_int_truthy(n):
    if n:
        return n + 1
    return -1


def opt_compare(n):
    return n == 0


def opt_in_fstring(s):
    return f"<{s}>"


def str_concat_sym(a, b):
    return a + "-" + b


def str_prefix_sym(a):
    return a.startswith("ab") and not a.endswith("z")


def str_len_sym(a):
    return len(a) > 2


def str_eq_sym(a, b):
    return "same" if a == b else "diff"


def str_in_sym(a):
    return a in ("x", "y")


def int_arith_sym(a, b):
    return (a + b) * 2 - a // 2


def int_mod_sym(a):
    return a % 3


def int_neg_floor_sym(a):
    return a // 2


def float_arith_sym(a, b):
    return a * b + 0.5


def float_int_trunc_sym(a):
    return int(a)


def float_cmp_sym(a, b):
    return a <= b


def bool_ops_sym(a, b):
    return (a and not b) or (b and not a)


def bool_to_int_sym(a, b):
    return a + b


def min_max_sym(a, b):
    return max(a, b) - min(a, b)


def ternary_chain_sym(a):
    return "neg" if a < 0 else "zero" if a == 0 else "pos"


def while_with_counter(n):
    i = 0
    total = 0
    while i < 3:
        total += n
        i += 1
    return total


def dict_sym_value(n):
    d = {"a": n}
    d["b"] = d["a"] + 1
    return d["b"]


def dict_branch_key(a, n):
    d = {}
    if a:
        d["x"] = n
    return d.get("x", -1)


def list_branch_append(a, n):
    xs = [1]
    if a:
        xs.append(n)
    return len(xs)


def tuple_return_unpack(a, b):
    def pair():
        return (a + 1, b + 1)
    x, y = pair()
    return x * y


def short_circuit_side_effect(a):
    acc = Acc()
    a and acc.add(1)
    return acc.total


def comparison_chain_sym(a, b, c):
    return a < b < c


def equality_bool_int_sym(a):
    return a == 1


def nested_function_state(n):
    acc = Acc()
    def go(k):
        acc.add(k)
        if k > 0:
            go(k - 1)
    go(2)
    return acc.total + n


def exception_carries_field(n):
    try:
        raise Signal("m", code=n)
    except Signal as e:
        return e.code + 1


def isinstance_branch(a, n):
    x = Node(n) if a else Acc()
    return isinstance(x, Node)


def enum_from_sym(s):
    try:
        return Status(s).name
    except ValueError:
        return "invalid"


def enum_branch_sym(s):
    st_ = Status(s) if s in ("STARTED", "DONE") else None
    if st_ is Status.DONE:
        return 1
    if st_ is None:
        return 2
    return 3

import functools


def get_present_none(x):
    d = {"a": None}
    return d.get("a", x)


def get_present_falsy_or(x):
    d = {"a": 0}
    return d.get("a") or x


def get_missing_default_none(x):
    d = {"a": x}
    return d.get("b") is None


def get_chain_none_value(x):
    d = {"a": None}
    try:
        return d.get("a", {}).get("b")
    except AttributeError:
        return "attr-error"


def get_truthy_test(x):
    d = {"a": x}
    if d.get("a"):
        return "yes"
    return "no"


def get_error_idiom(x):
    data = {"error": {"msg": x}}
    return data.get("error") and data["error"].get("msg")


def dict_in_and_index(k):
    d = {"a": 1}
    return d[k] if k in d else -1


def dict_keys_set(x):
    d = {"a": 1, "b": x}
    return set(d) == {"a", "b"}


def dict_from_pairs(x):
    d = dict([("a", x), ("b", 2)])
    return d["a"] + d["b"]


def dict_kwargs_ctor(x):
    d = dict(a=x, b=2)
    return d["a"] + d["b"]


def dict_update_kwargs(x):
    d = {"a": 1}
    d.update(b=x)
    return len(d)


def dict_pop_missing(x):
    d = {"a": 1}
    return d.pop("zz")


def dict_iter_keys(x):
    d = {"a": 1, "b": 2}
    return "".join(k for k in d)


def dict_bool(x):
    return (bool({}), bool({"a": x}))


def dict_nested_update_alias(x):
    inner = {"v": 1}
    d = {"in": inner}
    e = dict(d)
    e["in"]["v"] = x
    return inner["v"]


def set_add_dup(x):
    s = set()
    s.add(x)
    s.add(x)
    return len(s)


def set_discard_missing(x):
    s = {1}
    s.discard(x)
    return len(s)


def set_remove_missing(x):
    s = {1}
    s.remove(x)
    return len(s)


def set_issubset(x):
    return {1, x}.issubset({1, 2, 3})


def set_in(x):
    return x in {1, 2}


def set_from_list(x):
    return len(set([1, x, 1]))


def set_update(x):
    s = {1}
    s.update([x, 2])
    return len(s)


def str_encode_decode(s):
    return s.encode("utf-8").decode("utf-8")


def bytes_decode(s):
    return s.encode().decode() == s


def int_of_str_num(x):
    return int("42") + x


def int_of_float_str(x):
    return int("4.2")


def float_of_int(x):
    return float(x) / 2


def partial_call(x):
    def add(a, b, c=0):
        return a + b + c
    p = functools.partial(add, 1, c=x)
    return p(2)


def min_of_list(x):
    return min([3, x, 5])


def min_two_float(a, b):
    return min(a, b)


def ceil_div(a, b):
    return math.ceil(a / b)


def sum_gen(x):
    return sum(v for v in [1, 2, x] if v > 1)


def any_gen(x):
    return any(v > x for v in [1, 2, 3])


def all_gen(x):
    return all(v > x for v in [1, 2, 3])


def next_iter(x):
    return next(iter([x, 2]))


def next_default(x):
    return next(iter([]), x)


def next_stop(x):
    return next(iter([]))


def len_str_bytes(s):
    return (len(s), len(s.encode("utf-8")))


def repr_str(s):
    return repr(s)


def tuple_of_gen(x):
    return tuple(v + x for v in (1, 2))


def sorted_plain(x):
    return tuple(sorted([3, x, 2]))


def list_remove(x):
    xs = [1, 2, 3]
    xs.remove(x)
    return len(xs)


def list_index(x):
    return [5, 6, 7].index(x)


def list_insert(x):
    xs = [1, 3]
    xs.insert(1, x)
    return tuple(xs)


def list_pop_index(x):
    xs = [1, 2, 3]
    v = xs.pop(0)
    return (v, len(xs), x)


def list_clear(x):
    xs = [1, x]
    ys = xs
    xs.clear()
    return len(ys)


def list_reverse_slice(x):
    return tuple([1, 2, x][::-1])


def list_count(x):
    return [1, x, 1].count(1)


def str_format_method(x):
    return "{}-{}".format(x, 2)


def str_lower_eq(s):
    return s.lower() == "abc"


def str_endswith(s):
    return s.endswith("ion")


def str_split_default(s):
    return len(s.split())


def str_partition(s):
    return s.partition(":")[0]


def str_zfill(x):
    return str(x).zfill(3)


def str_ljust(s):
    return s.ljust(4, ".")


def getattr_on_none(x):
    return getattr(None, "value", x)


def hasattr_prop(x):
    return hasattr(WithProp(x), "double")


def callable_check(x):
    return (callable(len), callable(x), callable(lambda: 1))


def id_same(x):
    a = [x]
    b = a
    return id(a) == id(b)


def hash_eq(x):
    return hash(x) == hash(x)

from abc import ABC, abstractmethod


@dataclass(frozen=True)
class Inner:
    a: int
    b: str = "x"


@dataclass(frozen=True)
class Outer:
    inner: Inner
    tag: str | None = None

    @classmethod
    def make(cls, a, tag=None):
        return cls(inner=Inner(a), tag=tag)

    def with_tag(self, tag):
        return Outer(self.inner, tag)


@dataclass
class Validated:
    n: int = 0

    def __post_init__(self):
        if self.n < 0:
            raise ValueError("negative")
        self.doubled = self.n * 2


@dataclass
class BaseCfg:
    x: int = 1
    y: int = 2


@dataclass
class SubCfg(BaseCfg):
    z: int = 3


class Shape(ABC):
    @abstractmethod
    def area(self):
        ...

    def describe(self):
        return "area=" + str(self.area())


class Square(Shape):
    def __init__(self, s):
        self.s = s

    def area(self):
        return self.s * self.s


class NoSuperInit(Exception):
    def __init__(self, code):
        self.code = code


class TwoArgErr(Exception):
    pass


class Level(enum.Enum):
    LOW = 1
    HIGH = 2


class Animal:
    sound = "..."

    def __init__(self, name, **kw):
        self.name = name
        self.extra = kw.get("extra", 0)

    def speak(self):
        return self.name + " says " + self.sound


class Dog(Animal):
    sound = "woof"

    def __init__(self, name, tricks=0, **kw):
        super().__init__(name, **kw)
        self.tricks = tricks


def nested_dataclass_eq(a):
    return (Outer.make(a) == Outer.make(a), Outer.make(a) == Outer.make(a + 1), Outer.make(a, "t") == Outer.make(a))


def dataclass_factory_fields(a):
    o = Outer.make(a, tag="t").with_tag(None)
    return (o.inner.a, o.inner.b, o.tag)


def dataclass_hash_frozen(a):
    return hash(Inner(a)) == hash(Inner(a))


def dataclass_in_set(a):
    return len({Inner(a), Inner(a), Inner(a + 1)})


def dataclass_as_dict_key(a):
    d = {Inner(a): 1}
    return d.get(Inner(a), 0)


def post_init_raises(n):
    try:
        return Validated(n).doubled
    except ValueError as e:
        return str(e)


def dataclass_inherit_defaults(a):
    s = SubCfg(y=a)
    return (s.x, s.y, s.z)


def dataclass_positional_too_many(a):
    return BaseCfg(1, 2, 3)


def dataclass_unknown_kw(a):
    return BaseCfg(q=a)


def dataclass_repr_contains(a):
    return "Inner(a=" in repr(Inner(a))


def abstract_instantiate(a):
    return Shape()


def abstract_template(a):
    return Square(a).describe()


def exc_no_super_init(c):
    try:
        raise NoSuperInit(c)
    except NoSuperInit as e:
        return (e.code, str(e), len(e.args))


def exc_two_args_str(a, b):
    try:
        raise TwoArgErr(a, b)
    except TwoArgErr as e:
        return str(e)


def exc_no_args_str(a):
    try:
        raise TwoArgErr()
    except TwoArgErr as e:
        return (str(e), len(e.args))


def exc_class_raise(a):
    try:
        raise TwoArgErr
    except TwoArgErr as e:
        return type(e).__name__


def exc_isinstance_base(a):
    try:
        raise SubErr("s")
    except Exception as e:
        return (isinstance(e, MyErr), isinstance(e, SubErr), isinstance(e, ValueError))


def exc_attribute_msg(a):
    try:
        raise ValueError(a)
    except ValueError as e:
        return e.args[0]


def enum_int_values(n):
    return Level(n).name


def enum_int_compare(n):
    return Level(n) == Level.HIGH


def enum_members_len(n):
    return len(list(Level))


def enum_value_arith(n):
    return Level.HIGH.value + n


def inherit_kwargs(a):
    d = Dog("rex", tricks=a, extra=5)
    return (d.speak(), d.tricks, d.extra)


def inherit_class_attr(a):
    return (Animal("cat").speak(), Dog.sound, Animal.sound)


def super_missing_arg(a):
    return Dog()


def method_on_class_unbound(a):
    return Animal.speak(Dog("x"))


def bool_subclass_arith(a):
    return True + True + a


def int_of_bool(a):
    return int(a)


def float_sum_inexact(a):
    return 0.1 + 0.2 == 0.3


def float_sum_value(a):
    return a + 0.25


def str_of_tuple_exc(a):
    return str(ValueError("a", 2))


def cast_identity(a):
    from typing import cast
    return cast(int, a) + 1


def getattr_method_call(a):
    return getattr(Square(a), "area")()


def dict_of_lists_alias(a):
    shared = []
    d = {"x": shared, "y": shared}
    d["x"].append(a)
    return len(d["y"])


def tuple_immutable(a):
    t = (1, 2)
    t[0] = a
    return t


def str_immutable(a):
    s = "abc"
    s[0] = "x"
    return s


def unbound_local(a):
    if a > 100:
        y = 1
    return y


def name_error(a):
    return undefined_name + a


def wrong_arg_count(a):
    def f(x):
        return x
    return f(a, a)


def kwargs_passthrough(a):
    def inner(x, y=0, **kw):
        return x + y + len(kw)
    def outer(**kw):
        return inner(1, **kw)
    return outer(y=a, z=1)


def star_args_call(a):
    def f(x, y, z=0):
        return x * 100 + y * 10 + z
    args = (1, a)
    return f(*args, z=3)


def default_evaluated_once(a):
    def f(x, cache={}):
        cache[x] = cache.get(x, 0) + 1
        return cache[x]
    f(a)
    return f(a)


def conditional_expr_eval(a):
    calls = []
    def t(v):
        calls.append(v)
        return v
    r = t(1) if a else t(2)
    return (r, len(calls))


def dict_comp_filtered(a, b):
    d = {k: v for k, v in (("x", a), ("y", b), ("z", 0)) if v is not None}
    return (len(d), "x" in d, d.get("y", -1), tuple(d))


def dict_comp_filtered_truthy(a, b):
    d = {k: v for k, v in (("x", a), ("y", b)) if v}
    return (len(d), d.get("x"), d.get("y"))


def setdefault_existing(x):
    d = {"a": 1}
    r = d.setdefault("a", x)
    s = d.setdefault("b", x)
    return (r, s, len(d), d["b"])


def presence_items(a, b):
    d = {k: v for k, v in (("x", a), ("y", b)) if v is not None}
    return tuple((k, v) for k, v in d.items())


def presence_for_loop(a, b):
    d = {k: v for k, v in (("x", a), ("y", b)) if v is not None}
    t = 0
    for k in d:
        t += d[k]
    return (t, len(d))


def presence_in_and_get(a, b):
    d = {k: v for k, v in (("x", a), ("y", b)) if v is not None}
    return ("x" in d, d.get("y", -1), "z" in d)


def isfinite_branch(x):
    if math.isfinite(x):
        return "finite"
    return "special"


def repr_of_values(x):
    return (repr("a"), repr(5), repr(None), len(repr(x)) > 0)


def exception_attr_default(x):
    try:
        raise ValueError(x)
    except ValueError as e:
        return getattr(e, "step_id", "no-attr")


def join_mixed(a, b):
    try:
        return ",".join([a, b])
    except TypeError:
        return "type-error"
'''

CASES = [
    ("is_int_big", [(1000, 1000), (1, 1), (5, 6)]),
    ("is_none", [(None,), (0,), ("",)]),
    ("is_str_built", [("ab", "ab"), ("ab", "cd")]),
    ("enum_eq_value", [("RED",), ("x",)]),
    ("enum_is_member", [("RED",), ("BLUE",), ("nope",)]),
    ("fmt_d", [(3,), (0.5,), (True,), ("s",)]),
    ("fmt_f", [(3,), (0.5,), ("s",)]),
    ("fmt_none", [(None,), ("ab",), (7,)]),
    ("fmt_plain", [(None,), (3,), ("s",)]),
    ("truthy_empty_str", [("",), ("x",), (None,), (0,)]),
    ("none_check", [("",), (None,)]),
    ("dict_get_default", [("k",)]),
    ("dict_setdefault", [("k",)]),
    ("twice_mutable_default", [(1,)]),
    ("gen_twice", [(3,)]),
    ("except_exception", [(True,), (False,)]),
    ("join_non_str", [("a",), (5,)]),
    ("floor_div", [(7, 2), (-7, 2)]),
    ("or_operand", [(0, 5), (3, 5), ("", "d")]),
    ("and_operand", [(0, 5), (3, 5)]),
    ("chained", [(1, 2, 2), (1, 3, 2)]),
    ("class_level_shared", [(1,)]),
    ("class_level_constant", [(1,)]),
    ("int_true_dict_key", [(True,), (2,)]),
    ("bool_is_int", [(True,), (1,), ("s",)]),
    ("str_mul", [("ab", 2)]),
    ("slice_neg", [("abc",), ("",)]),
    ("tuple_eq_list", [(0,)]),
    ("round_half", [(2.5,), (1.2,)]),
    ("sort_mixed", [(2, 1), ("b", "a")]),
    ("finally_overrides", [(1,)]),
    ("loop_else", [(2,), (5,)]),
    ("default_arg_eval", [(1,)]),
    ("str_startswith_tuple", [("abx",), ("xx",)]),
    ("in_string", [("a", "cat"), ("z", "cat")]),
    ("int_of_bool", [(True,)]),
    ("not_eq_none", [(None,), (0,)]),
    ("nested_closure", [(3,)]),
    ("loop_closure", [(3,)]),
    ("loop_closure_default", [(3,)]),
    ("rebind_after_def", [(1,)]),
    ("closure_outlives", [(2,)]),
    ("comp_scope", [(3,)]),
    ("nested_def_sees_later_name", [(4,)]),
    ("augmented_alias", [(2,)]),
    ("tuple_augmented", [(2,)]),
    ('try_finally_return', [(1,), (9,)]),
    ('try_else', [(True,), (False,)]),
    ('except_order', [(True,), (False,)]),
    ('except_tuple', [(0,), (1,), (2,)]),
    ('except_lookup_parent', [(0,), (1,)]),
    ('reraise_bare', [(True,), (False,)]),
    ('exception_in_except', [(1,)]),
    ('exc_var_scope', [(1,)]),
    ('finally_runs_on_raise', [(1,)]),
    ('str_keyerror', [('a',), (5,)]),
    ('str_valueerror', [('a',)]),
    ('exc_args_two', [('a', 2)]),
    ('dict_missing', [('a',), ('z',)]),
    ('dict_get_none', [('a',), ('z',)]),
    ('dict_in', [('a',), ('z',)]),
    ('dict_pop_default', [('a',), ('z',)]),
    ('dict_order', [('c',), ('b',)]),
    ('dict_update_overwrite', [('a',), ('b',)]),
    ('dict_eq_order', [(0,)]),
    ('list_index_error', [(0,), (3,), (-1,), (-4,)]),
    ('list_slice', [(1,), (9,), (-1,)]),
    ('list_in', [(2,), (9,)]),
    ('list_concat_len', [(1,)]),
    ('list_pop_empty', [(1,)]),
    ('list_eq', [(2,), (3,)]),
    ('list_alias_append', [(1,)]),
    ('list_copy_append', [(1,)]),
    ('true_div', [(7, 2), (6, 3), (1, 0)]),
    ('int_trunc', [(-1.5,), (1.9,), (3,)]),
    ('neg_mod', [(-7, 3), (7, -3)]),
    ('power', [(2, 10), (2, -1)]),
    ('min_max', [(1, 2), (2.5, 1)]),
    ('round_builtin', [(0.5,), (1.5,), (2.5,)]),
    ('math_ceil', [(1.2,), (-1.2,), (3,)]),
    ('int_float_eq', [(1, 1.0), (1, 1.5)]),
    ('bool_sum', [(True, True), (True, 2)]),
    ('zero_div', [(0,), (2,)]),
    ('str_of', [(None,), (True,), (3,), (1.5,), ('s',)]),
    ('str_len', [('abc',), ('',)]),
    ('str_concat_none', [('b',), (None,)]),
    ('str_compare', [('a', 'b'), ('b', 'a'), ('a', 'a')]),
    ('str_index', [('abc', 0), ('abc', 5), ('abc', -1)]),
    ('str_slice', [('abcdef',), ('a',)]),
    ('str_format_percent', [(3,)]),
    ('str_in_tuple', [('a',), ('z',)]),
    ('short_circuit', [(1,), (0,)]),
    ('ternary', [(0,), (1,), ('',)]),
    ('chained_once', [(5,), (50,)]),
    ('any_all_empty', [(0,)]),
    ('walrus', [(1,), (5,)]),
    ('unpack_mismatch', [(2,), (3,), (1,)]),
    ('star_unpack', [(0,)]),
    ('swap', [(1, 2)]),
    ('call_kwonly_wrong', [(1,)]),
    ('call_varargs', [(1,)]),
    ('method_resolution', [(1,)]),
    ('base_resolution', [(1,)]),
    ('isinstance_inherit', [(1,)]),
    ('instance_shadows_class', [(1,)]),
    ('frozen_set', [(1,)]),
    ('dataclass_eq', [(1,)]),
    ('dataclass_default_factory', [(1,)]),
    ('dataclass_replace', [(7,)]),
    ('with_swallow', [(True,), (False,)]),
    ('none_lt', [(1,)]),
    ('or_default_zero', [(0,), (3,), (None,)]),
    ('is_not_none_zero', [(0,), (None,)]),
    ('for_else', [(1,), (3,)]),
    ('while_else', [(2,)]),
    ('break_in_try_finally', [(3,)]),
    ('continue_loop', [(5,)]),
    ('range_step', [(5,)]),
    ('enumerate_start', [(3,)]),
    ('zip_unequal', [(0,)]),
    ('reversed_list', [(7,)]),
    ('sum_list', [(4,)]),
    ('max_empty', [(0,)]),
    ('max_default', [(4,)]),
    ('sorted_key', [(2,)]),
    ('sort_returns_none', [(0,)]),
    ('int_parse', [('12',), ('x',), (' 5 ',)]),
    ('nan_ne', [(0,)]),
    ('attr_missing', [(1,)]),
    ('getattr_default', [(1,)]),
    ('hasattr_check', [(1,)]),
    ('none_attr', [(1,)]),
    ('call_none', [(1,)]),
    ('nested_func_default', [(1,)]),
    ('tuple_compare', [(1, 1), (1, 2)]),
    ('str_mult_bool', [(True,), (False,)]),
    ('int_str_add', [(1,)]),
    ('list_mul', [(1,)]),
    ('del_key', [('a',), ('z',)]),
    ('set_ops', [(1,), (3,)]),
    ('membership_none', [(None,), (0,), (1,)]),
    ('global_const_shadow', [(1,)]),
    ('enum_value_roundtrip', [('DONE',), ('x',)]),
    ('enum_name', [('DONE',)]),
    ('enum_eq_other_enum', [(0,)]),
    ('enum_in_tuple', [('DONE',), ('STARTED',)]),
    ('enum_is_not', [('DONE',), ('STARTED',)]),
    ('enum_ne_str', [('DONE',)]),
    ('base_exception_fields', [('m',)]),
    ('base_exc_not_caught_by_exception', [('m',)]),
    ('raise_from', [('m',)]),
    ('isinstance_tuple', [(1,), ('s',), (1.5,), (None,)]),
    ('isinstance_bool_int', [(True,), (1,), (1.0,)]),
    ('type_is', [(1,), (True,), ('s',)]),
    ('type_name', [(1,), (True,), ('s',), (None,), (1.5,)]),
    ('class_name_attr', [(1,)]),
    ('property_get', [(2,)]),
    ('classmethod_make', [(2,)]),
    ('staticmethod_call', [(2,)]),
    ('property_set', [(2,)]),
    ('nested_get', [('a',), ('z',)]),
    ('dict_items_sum', [(5,)]),
    ('dict_values_list', [(5,)]),
    ('dict_comp', [(3,)]),
    ('dict_len', [(0,)]),
    ('list_comp_cond', [(2,)]),
    ('list_extend', [(2,)]),
    ('list_copy_method', [(2,)]),
    ('zip_for', [(3,)]),
    ('recursion', [(4,)]),
    ('lambda_default', [(3,)]),
    ('str_float', [(1.0,), (0.1,), (1e+22,)]),
    ('fstr_float', [(1.0,), (2.5,)]),
    ('fstr_bool_none', [(1,)]),
    ('fstr_repr', [('a',), (1,)]),
    ('int_times_float', [(2, 0.5), (3, 2)]),
    ('int_lt_float', [(1, 1.5), (2, 1.5)]),
    ('str_in', [('a', 'abc'), ('', 'abc'), ('z', 'abc')]),
    ('str_eq_case', [('a', 'A'), ('a', 'a')]),
    ('str_startswith', [('abc', 'ab'), ('abc', ''), ('abc', 'b')]),
    ('optional_chain', [('a',), ('',)]),
    ('none_eq', [(None,), (0,)]),
    ('bool_of_containers', [(2,), (0,)]),
    ('not_not', [(0,), ('a',), (None,)]),
    ('and_or_mix', [(0, 1, 2), (1, 0, 2), (1, 3, 2)]),
    ('compare_mixed_types', [(1, '1'), (None, 0), ('a', 'a')]),
    ('lt_str_int', [('a', 1)]),
    ('nested_tuple_unpack', [(2,)]),
    ('for_tuple_unpack', [(4,)]),
    ('aug_attr', [(1,)]),
    ('aug_subscript', [(2,)]),
    ('del_attr', [(1,)]),
    ('early_return_loop', [(3,), (20,)]),
    ('nested_break', [(1,)]),
    ('while_true_break', [(3,)]),
    ('try_in_loop_continue', [(4,)]),
    ('return_in_with', [(True,)]),
    ('exception_in_finally', [(1,)]),
    ('finally_after_return_value', [(1,)]),
    ('assert_stmt', [(1,), (0,)]),
    ('datetime_compare', [(0,)]),
    ('timedelta_seconds', [(5,)]),
    ('conditional_import_name', [(0,)]),
    ('int_bool_eq', [(0,)]),
    ('list_of_bool_in', [(0,)]),
    ('str_join_ok', [('a', 'b')]),
    ('str_split', [('a,b',)]),
    ('str_strip', [(' a ',)]),
    ('str_upper', [('ab',)]),
    ('str_replace', [('aa',)]),
    ('str_find', [('abc',)]),
    ('str_isdigit', [('12',), ('a',)]),
    ('bytes_len', [('é',), ('a',)]),
    ('abs_val', [(-2,), (2.5,)]),
    ('divmod_val', [(7, 2), (-7, 2)]),
    ('int_bitops', [(6, 3)]),
    ('float_floor_div', [(7.5, 2), (-7.5, 2)]),
    ('large_int', [(10000000000,)]),
    ('merge_if', [(3, 1), (1, 3), (2, 2)]),
    ('merge_nested', [(True, True, False), (True, False, True), (False, False, True), (False, True, False)]),
    ('merge_field', [(True, 1), (False, 1)]),
    ('alias_mutation', [(True, 1), (False, 1)]),
    ('alias_in_list', [(1,)]),
    ('mutate_argument', [(1,)]),
    ('rebind_argument', [(1,)]),
    ('none_default_list', [(1,)]),
    ('method_chain', [(3,)]),
    ('two_instances', [(3,)]),
    ('loop_sym_cond', [(0, 2), (2, 2), (5, 1)]),
    ('loop_early_return_sym', [(4,), (9,), (0,)]),
    ('try_sym_raise', [(5,), (1,)]),
    ('try_finally_sym', [(True,), (False,)]),
    ('nested_try_sym', [(True, True), (True, False), (False, True), (False, False)]),
    ('opt_param', [(None,), ('',), ('a',)]),
    ('opt_or', [(None,), ('',), ('a',)]),
    ('opt_int_truthy', [(None,), (0,), (4,)]),
    ('opt_compare', [(None,), (0,), (4,)]),
    ('opt_in_fstring', [(None,), ('a',)]),
    ('str_concat_sym', [('a', 'b'), ('', '')]),
    ('str_prefix_sym', [('abc',), ('abz',), ('x',)]),
    ('str_len_sym', [('abc',), ('a',)]),
    ('str_eq_sym', [('a', 'a'), ('a', 'b')]),
    ('str_in_sym', [('x',), ('q',)]),
    ('int_arith_sym', [(3, 4), (-3, 4)]),
    ('int_mod_sym', [(7,), (-7,)]),
    ('int_neg_floor_sym', [(-7,), (7,)]),
    ('float_arith_sym', [(1.5, 2.0), (0.25, 4.0)]),
    ('float_int_trunc_sym', [(-1.5,), (2.75,)]),
    ('float_cmp_sym', [(1.5, 1.5), (2.5, 1.0)]),
    ('bool_ops_sym', [(True, False), (True, True), (False, False)]),
    ('bool_to_int_sym', [(True, True), (False, True)]),
    ('min_max_sym', [(1, 5), (5, 1)]),
    ('ternary_chain_sym', [(-1,), (0,), (1,)]),
    ('while_with_counter', [(2,)]),
    ('dict_sym_value', [(4,)]),
    ('dict_branch_key', [(True, 3), (False, 3)]),
    ('list_branch_append', [(True, 3), (False, 3)]),
    ('tuple_return_unpack', [(1, 2)]),
    ('short_circuit_side_effect', [(True,), (False,)]),
    ('comparison_chain_sym', [(1, 2, 3), (1, 3, 2), (3, 2, 1)]),
    ('equality_bool_int_sym', [(True,), (False,)]),
    ('nested_function_state', [(1,)]),
    ('exception_carries_field', [(4,)]),
    ('isinstance_branch', [(True, 1), (False, 1)]),
    ('enum_from_sym', [('DONE',), ('zzz',)]),
    ('enum_branch_sym', [('DONE',), ('STARTED',), ('q',)]),
    ('get_present_none', [(5,)]),
    ('get_present_falsy_or', [(5,)]),
    ('get_missing_default_none', [(1,)]),
    ('get_chain_none_value', [(1,)]),
    ('get_truthy_test', [(0,), (1,), ('',), (None,)]),
    ('get_error_idiom', [('m',), ('',)]),
    ('dict_in_and_index', [('a',), ('b',)]),
    ('dict_keys_set', [(1,)]),
    ('dict_from_pairs', [(1,)]),
    ('dict_kwargs_ctor', [(1,)]),
    ('dict_update_kwargs', [(1,)]),
    ('dict_pop_missing', [(1,)]),
    ('dict_iter_keys', [(1,)]),
    ('dict_bool', [(1,)]),
    ('dict_nested_update_alias', [(9,)]),
    ('set_add_dup', [(1,)]),
    ('set_discard_missing', [(1,), (2,)]),
    ('set_remove_missing', [(1,), (2,)]),
    ('set_issubset', [(2,), (9,)]),
    ('set_in', [(1,), (5,)]),
    ('set_from_list', [(1,), (2,)]),
    ('set_update', [(1,), (3,)]),
    ('str_encode_decode', [('aé',)]),
    ('bytes_decode', [('a',)]),
    ('int_of_str_num', [(1,)]),
    ('int_of_float_str', [(1,)]),
    ('float_of_int', [(3,)]),
    ('partial_call', [(3,)]),
    ('min_of_list', [(1,), (9,)]),
    ('min_two_float', [(1.5, 2.5), (3.0, 2.0)]),
    ('ceil_div', [(7, 2), (6, 3)]),
    ('sum_gen', [(5,), (0,)]),
    ('any_gen', [(2,), (3,)]),
    ('all_gen', [(0,), (1,)]),
    ('next_iter', [(7,)]),
    ('next_default', [(7,)]),
    ('next_stop', [(7,)]),
    ('len_str_bytes', [('aé',)]),
    ('repr_str', [('a',), ("it's",)]),
    ('tuple_of_gen', [(1,)]),
    ('sorted_plain', [(1,), (9,)]),
    ('list_remove', [(2,), (9,)]),
    ('list_index', [(6,), (9,)]),
    ('list_insert', [(2,)]),
    ('list_pop_index', [(1,)]),
    ('list_clear', [(1,)]),
    ('list_reverse_slice', [(3,)]),
    ('list_count', [(1,), (2,)]),
    ('str_format_method', [(1,)]),
    ('str_lower_eq', [('ABC',), ('x',)]),
    ('str_endswith', [('action',), ('x',)]),
    ('str_split_default', [('a b  c',)]),
    ('str_partition', [('a:b',)]),
    ('str_zfill', [(7,)]),
    ('str_ljust', [('ab',)]),
    ('getattr_on_none', [(3,)]),
    ('hasattr_prop', [(1,)]),
    ('callable_check', [(1,)]),
    ('id_same', [(1,)]),
    ('hash_eq', [(1,), ('a',)]),
    ('nested_dataclass_eq', [(1,)]),
    ('dataclass_factory_fields', [(1,)]),
    ('dataclass_hash_frozen', [(1,)]),
    ('dataclass_in_set', [(1,)]),
    ('dataclass_as_dict_key', [(1,)]),
    ('post_init_raises', [(2,), (-1,)]),
    ('dataclass_inherit_defaults', [(9,)]),
    ('dataclass_positional_too_many', [(1,)]),
    ('dataclass_unknown_kw', [(1,)]),
    ('dataclass_repr_contains', [(1,)]),
    ('abstract_instantiate', [(1,)]),
    ('abstract_template', [(3,)]),
    ('exc_no_super_init', [(7,)]),
    ('exc_two_args_str', [('a', 2)]),
    ('exc_no_args_str', [(1,)]),
    ('exc_class_raise', [(1,)]),
    ('exc_isinstance_base', [(1,)]),
    ('exc_attribute_msg', [('m',)]),
    ('enum_int_values', [(1,), (2,), (3,)]),
    ('enum_int_compare', [(1,), (2,)]),
    ('enum_members_len', [(1,)]),
    ('enum_value_arith', [(1,)]),
    ('inherit_kwargs', [(2,)]),
    ('inherit_class_attr', [(1,)]),
    ('super_missing_arg', [(1,)]),
    ('method_on_class_unbound', [(1,)]),
    ('bool_subclass_arith', [(1,)]),
    ('int_of_bool', [(True,), (False,)]),
    ('float_sum_inexact', [(1,)]),
    ('float_sum_value', [(0.5,)]),
    ('str_of_tuple_exc', [(1,)]),
    ('cast_identity', [(1,)]),
    ('getattr_method_call', [(3,)]),
    ('dict_of_lists_alias', [(1,)]),
    ('tuple_immutable', [(1,)]),
    ('str_immutable', [(1,)]),
    ('unbound_local', [(1,), (200,)]),
    ('name_error', [(1,)]),
    ('wrong_arg_count', [(1,)]),
    ('kwargs_passthrough', [(5,)]),
    ('star_args_call', [(2,)]),
    ('default_evaluated_once', [(1,)]),
    ('conditional_expr_eval', [(True,), (False,)]),
    ('dict_comp_filtered', [(1, None), (None, 2), (None, None), (3, 4)]),
    ('dict_comp_filtered_truthy', [(0, 5), (None, None), (2, 0)]),
    ('setdefault_existing', [(5,)]),
    ('presence_items', [(1, None), (None, None), (1, 2)]),
    ('presence_for_loop', [(1, None), (None, 2), (3, 4)]),
    ('presence_in_and_get', [(1, None), (None, 2)]),
    ('isfinite_branch', [(1.5,), (float("inf"),), (3,)]),
    ('repr_of_values', [(1.5,), ("s",)]),
    ('exception_attr_default', [("m",)]),
    ('join_mixed', [("a", "b"), ("a", None)]),
]


def cpython_outcome(ns, name, args):
    try:
        return ("val", ns[name](*args))
    except BaseException as e:  # noqa: BLE001
        return ("raise", type(e).__name__)


def exc_name(st, v):
    if isinstance(v, Ref):
        c = v.cls
        if isinstance(c, str):
            return c.split(":", 1)[1] if ":" in c else c
        return c.name
    return str(v)


def may_equal(st, v, expected):
    """can the engine's value be the CPython value on this path? (z3 check for symbolic scalars; structural for tuples)"""
    if isinstance(v, Opt):
        if expected is None:
            return check(st, v.none)
        return check(st, z3.Not(v.none)) and may_equal(st, v.val, expected)
    if isinstance(v, Sym):
        if v.kind == "bool" and isinstance(expected, bool):
            return check(st, v.t == z3.BoolVal(expected))
        if v.kind == "int" and isinstance(expected, int) and not isinstance(expected, bool):
            return check(st, v.t == expected)
        if v.kind == "real" and isinstance(expected, (int, float)) and not isinstance(expected, bool):
            return check(st, v.t == z3.RealVal(repr(float(expected))))
        if v.kind == "str" and isinstance(expected, str):
            return check(st, v.t == z3.StringVal(expected))
        return False
    if isinstance(v, tuple) and isinstance(expected, tuple):
        return len(v) == len(expected) and all(may_equal(st, a, b) for a, b in zip(v, expected))
    if isinstance(v, Ref):
        return None   # heap value: not compared
    return type(v) is type(expected) and v == expected


def check(st, c):
    s = z3.Solver()
    s.set("timeout", 5000)
    s.add(*st.pc)
    s.add(c)
    return s.check() == z3.sat


def sym_types(arglists):
    """a type per position that covers every sample (None if the samples mix types the engine has no single symbolic value for)"""
    out = []
    for pos in zip(*arglists):
        ts = {type(x).__name__ for x in pos}
        if ts == {"bool"}:
            out.append("bool")
        elif ts == {"int"}:
            out.append("int")
        elif ts == {"str"}:
            out.append("str")
        elif ts <= {"int", "float"} and "float" in ts:
            out.append("float")
        elif ts == {"str", "NoneType"}:
            out.append("str | None")
        elif ts == {"int", "NoneType"}:
            out.append("int | None")
        else:
            return None
    return out


def bind(v, sample):
    """constraint: the symbolic argument v IS the concrete sample"""
    if isinstance(v, Opt):
        if sample is None:
            return v.none
        return z3.And(z3.Not(v.none), bind(v.val, sample))
    if v.kind == "bool":
        return v.t == z3.BoolVal(sample)
    if v.kind == "int":
        return v.t == z3.IntVal(sample)
    if v.kind == "real":
        return v.t == z3.RealVal(repr(float(sample)))
    return v.t == z3.StringVal(sample)


def symbolic_mode(program, ns_src):
    """every snippet whose samples have one symbolic type per argument is ALSO executed once on symbolic arguments; for each sample the
    outcomes whose path condition admits the sample must include CPython's outcome on it"""
    total = sound = refused = 0
    failures = []
    for name, arglists in CASES:
        types = sym_types(arglists) if len({len(a) for a in arglists}) == 1 else None
        if not types:
            continue
        eng = Engine(program=program)
        st = St()
        try:
            syms = [eng.sym_of_type(t, f"arg{i}", st) for i, t in enumerate(types)]
            res = eng.run(program.func("snip." + name), list(syms), st=st)
        except Unsupported as e:
            refused += len(arglists)
            total += len(arglists)
            sound += len(arglists)
            continue
        except Exception as e:  # noqa: BLE001
            total += len(arglists)
            if "RecursionError" in repr(e):       # unbounded recursion on a symbolic argument: the engine gives up (a check would end as a checker fault, exit 3 - never a proof)
                refused += len(arglists)
                sound += len(arglists)
                continue
            failures.append(f"{name} (symbolic {types}): engine crashed: {e!r}")
            continue
        for args in arglists:
            total += 1
            if any(isinstance(a, float) and a != a or a in (float("inf"), float("-inf")) for a in args if isinstance(a, float)):
                refused += 1        # inf / nan are not values of the model's reals: the symbolic run says nothing about this sample (the concrete run covers it)
                sound += 1
                continue
            ns_fresh = {}
            exec(compile(ns_src, "snip.py", "exec"), ns_fresh)
            want = cpython_outcome(ns_fresh, name, args)
            binding = [bind(v, a) for v, a in zip(syms, args)]
            hit, outs = False, []
            for k, v, s in res:
                s2 = s.fork()
                for b in binding:
                    s2.assume(b)
                if not check(s2, z3.BoolVal(True)):
                    continue
                if k == "raise":
                    outs.append(("raise", exc_name(s2, v)))
                    hit = hit or (want[0] == "raise" and exc_name(s2, v) == want[1])
                else:
                    m = may_equal(s2, v, want[1]) if want[0] == "val" else False
                    outs.append(("val", v if not isinstance(v, (Sym, Opt, Ref)) else "<symbolic>"))
                    hit = hit or bool(m) or m is None
            if hit:
                sound += 1
            else:
                failures.append(f"{name}{args} (symbolic {types}): CPython {want}, engine paths admitting this input give only {outs}")
    return total, sound, refused, failures


def main():
    tmp = tempfile.mkdtemp(prefix="pyvc_selftest_")
    try:
        with open(os.path.join(tmp, "snip.py"), "w") as f:
            f.write(SNIPPETS)
        ns = {}
        exec(compile(SNIPPETS, "snip.py", "exec"), ns)
        program = Program(tmp)
        total = sound = exact = refused = 0
        failures = []
        for name, arglists in CASES:
            for args in arglists:
                total += 1
                ns_fresh = {}
                exec(compile(SNIPPETS, "snip.py", "exec"), ns_fresh)      # fresh module state per case (mutable defaults!)
                want = cpython_outcome(ns_fresh, name, args)
                eng = Engine(program=program)
                try:
                    res = eng.run(program.func("snip." + name), list(args), st=St())
                except Unsupported as e:
                    refused += 1
                    sound += 1
                    print(f"  refused  {name}{args}: {str(e)[:90]}")
                    continue
                except Exception as e:  # noqa: BLE001
                    failures.append(f"{name}{args}: engine crashed: {e!r}")
                    continue
                outs = []
                hit = False
                for k, v, s in res:
                    if not check(s, z3.BoolVal(True)):
                        continue
                    if k == "raise":
                        outs.append(("raise", exc_name(s, v)))
                        hit = hit or (want[0] == "raise" and exc_name(s, v) == want[1])
                    else:
                        m = may_equal(s, v, want[1]) if want[0] == "val" else False
                        outs.append(("val", v if not isinstance(v, (Sym, Opt, Ref)) else "<symbolic>"))
                        hit = hit or bool(m) or m is None
                if hit:
                    sound += 1
                    if len(outs) == 1:
                        exact += 1
                else:
                    failures.append(f"{name}{args}: CPython {want}, engine considers only {outs}")
        t2, s2_, r2, f2 = symbolic_mode(program, SNIPPETS)
        failures.extend(f2)
        for f_ in failures:
            print("UNSOUND", f_)
        print(f"engine conformance self-test: {total} concrete cases, sound on {sound} ({refused} refused as unsupported, {exact} with exactly CPython's outcome); "
              f"{t2} symbolic-argument cases, sound on {s2_} ({r2} refused); {len(failures)} failures")
        return 1 if failures else 0
    finally:
        shutil.rmtree(tmp, ignore_errors=True)


if __name__ == "__main__":
    sys.exit(main())

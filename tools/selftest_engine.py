#!/usr/bin/env python3
"""Conformance self-test of the pyvc engine against CPython on the language subtleties that earlier rounds of seeded changes turned on.

Each snippet is ordinary Python.  It is (a) executed by the interpreter running this script and (b) loaded by pyvc's loader from a scratch
directory and executed symbolically on the same concrete arguments.  The engine is SOUND on a snippet when CPython's outcome (returned
value, or class of the raised exception) is among the outcomes the engine considers possible, or when the engine refuses the snippet
(Unsupported: the check using it would end undecided, never 'proved').  An engine outcome set that excludes what CPython does is a
soundness defect of the engine and fails the self-test (exit 1).  Precision is reported but not required: `exact` counts the snippets
for which the engine has exactly CPython's outcome.

This is a test of the verifier, not a proof of anything about /repo; it runs in the thorough tier of every check (bounded, labelled so)."""
import os
import shutil
import sys
import tempfile

sys.path.insert(0, os.path.dirname(os.path.dirname(os.path.abspath(__file__))))
import z3  # noqa: E402

from pyvc.engine import Engine  # noqa: E402
from pyvc.loader import Program  # noqa: E402
from pyvc.state import St  # noqa: E402
from pyvc.values import Opt, Ref, Sym, Unsupported  # noqa: E402

SNIPPETS = r'''
import enum
import functools
import threading


class Color(enum.Enum):
    RED = "RED"
    BLUE = "BLUE"


class Box:
    shared = threading.Event()

    def __init__(self, v):
        self.v = v


class Plain:
    limit = 3
    names = ("a", "b")

    def __init__(self, v):
        self.v = v


class Stop(BaseException):
    pass


def is_int_big(a, b):
    return a + 0 is b + 0


def is_none(a):
    return a is None


def is_str_built(a, b):
    return (a + "") is (b + "x")[:-1]


def enum_eq_value(s):
    return Color.RED == s


def enum_is_member(s):
    return Color(s) is Color.RED


def fmt_d(x):
    return f"{x:d}"


def fmt_f(x):
    return len(f"{x:.2f}") > 0


def fmt_none(x):
    return f"{x:>4}"


def fmt_plain(x):
    return f"v={x}"


def truthy_empty_str(x):
    if not x:
        return "absent"
    return "present"


def none_check(x):
    if x is None:
        return "absent"
    return "present"


def dict_get_default(k):
    d = {}
    d.get(k, []).append(1)
    return len(d)


def dict_setdefault(k):
    d = {}
    d.setdefault(k, []).append(1)
    return len(d)


def mutable_default(x, acc=[]):
    acc.append(x)
    return len(acc)


def twice_mutable_default(x):
    mutable_default(x)
    return mutable_default(x)


def gen_twice(n):
    g = (i for i in range(n))
    a = sum(1 for _ in g)
    b = sum(1 for _ in g)
    return (a, b)


def except_exception(flag):
    try:
        if flag:
            raise Stop()
        raise ValueError("v")
    except Exception:
        return "caught"


def join_non_str(x):
    return ", ".join([x, "b"])


def floor_div(a, b):
    return (a // b, a % b)


def or_operand(a, b):
    return a or b


def and_operand(a, b):
    return a and b


def chained(a, b, c):
    return a < b <= c


def class_level_shared(v):
    x, y = Box(v), Box(v)
    x.shared.set()
    return y.shared.is_set()


def class_level_constant(v):
    return Plain(v).limit + len(Plain(v).names)


def int_true_dict_key(k):
    d = {1: "int"}
    d[k] = "other"
    return len(d)


def bool_is_int(x):
    return isinstance(x, int)


def str_mul(s, n):
    return s * n


def slice_neg(s):
    return s[-1:]


def tuple_eq_list(a):
    return (1, 2) == [1, 2]


def round_half(x):
    return int(x + 0.5)


def sort_mixed(a, b):
    return sorted([a, b])[0]


def finally_overrides(x):
    try:
        return x
    finally:
        x = x + 1


def loop_else(n):
    for i in range(n):
        if i == 2:
            break
    else:
        return "exhausted"
    return "broke"


def default_arg_eval(x, y=None):
    y = y or []
    y.append(x)
    return len(y)


def str_startswith_tuple(s):
    return s.startswith(("ab", "cd"))


def in_string(a, b):
    return a in b


def int_of_bool(b):
    return b + 1


def not_eq_none(x):
    return x != None  # noqa: E711


def nested_closure(n):
    fs = [lambda: i for i in range(n)]
    return fs[0]()


def loop_closure(n):
    fs = []
    for i in range(n):
        fs.append(lambda: i)
    return fs[0]()


def loop_closure_default(n):
    fs = []
    for i in range(n):
        fs.append(lambda i=i: i)
    return fs[0]()


def rebind_after_def(x):
    def get():
        return x
    x = x + 1
    return get()


def make_adder(x):
    def add(y):
        return x + y
    x = x * 10
    return add


def closure_outlives(x):
    return make_adder(x)(1)


def comp_scope(n):
    i = 100
    xs = [i for i in range(n)]
    return i + len(xs)


def nested_def_sees_later_name(x):
    def get():
        return later
    later = x
    return get()


def augmented_alias(n):
    a = [1]
    b = a
    b += [n]
    return len(a)


def tuple_augmented(n):
    a = (1,)
    b = a
    b += (n,)
    return len(a)
'''

CASES = [
    ("is_int_big", [(1000, 1000), (1, 1), (5, 6)]),
    ("is_none", [(None,), (0,), ("",)]),
    ("is_str_built", [("ab", "ab"), ("ab", "cd")]),
    ("enum_eq_value", [("RED",), ("x",)]),
    ("enum_is_member", [("RED",), ("BLUE",), ("nope",)]),
    ("fmt_d", [(3,), (0.5,), (True,), ("s",)]),
    ("fmt_f", [(3,), (0.5,), ("s",)]),
    ("fmt_none", [(None,), ("ab",), (7,)]),
    ("fmt_plain", [(None,), (3,), ("s",)]),
    ("truthy_empty_str", [("",), ("x",), (None,), (0,)]),
    ("none_check", [("",), (None,)]),
    ("dict_get_default", [("k",)]),
    ("dict_setdefault", [("k",)]),
    ("twice_mutable_default", [(1,)]),
    ("gen_twice", [(3,)]),
    ("except_exception", [(True,), (False,)]),
    ("join_non_str", [("a",), (5,)]),
    ("floor_div", [(7, 2), (-7, 2)]),
    ("or_operand", [(0, 5), (3, 5), ("", "d")]),
    ("and_operand", [(0, 5), (3, 5)]),
    ("chained", [(1, 2, 2), (1, 3, 2)]),
    ("class_level_shared", [(1,)]),
    ("class_level_constant", [(1,)]),
    ("int_true_dict_key", [(True,), (2,)]),
    ("bool_is_int", [(True,), (1,), ("s",)]),
    ("str_mul", [("ab", 2)]),
    ("slice_neg", [("abc",), ("",)]),
    ("tuple_eq_list", [(0,)]),
    ("round_half", [(2.5,), (1.2,)]),
    ("sort_mixed", [(2, 1), ("b", "a")]),
    ("finally_overrides", [(1,)]),
    ("loop_else", [(2,), (5,)]),
    ("default_arg_eval", [(1,)]),
    ("str_startswith_tuple", [("abx",), ("xx",)]),
    ("in_string", [("a", "cat"), ("z", "cat")]),
    ("int_of_bool", [(True,)]),
    ("not_eq_none", [(None,), (0,)]),
    ("nested_closure", [(3,)]),
    ("loop_closure", [(3,)]),
    ("loop_closure_default", [(3,)]),
    ("rebind_after_def", [(1,)]),
    ("closure_outlives", [(2,)]),
    ("comp_scope", [(3,)]),
    ("nested_def_sees_later_name", [(4,)]),
    ("augmented_alias", [(2,)]),
    ("tuple_augmented", [(2,)]),
]


def cpython_outcome(ns, name, args):
    try:
        return ("val", ns[name](*args))
    except BaseException as e:  # noqa: BLE001
        return ("raise", type(e).__name__)


def exc_name(st, v):
    if isinstance(v, Ref):
        c = v.cls
        if isinstance(c, str):
            return c.split(":", 1)[1] if ":" in c else c
        return c.name
    return str(v)


def may_equal(st, v, expected):
    """can the engine's value be the CPython value on this path? (z3 check for symbolic scalars; structural for tuples)"""
    if isinstance(v, Opt):
        if expected is None:
            return check(st, v.none)
        return check(st, z3.Not(v.none)) and may_equal(st, v.val, expected)
    if isinstance(v, Sym):
        if v.kind == "bool" and isinstance(expected, bool):
            return check(st, v.t == z3.BoolVal(expected))
        if v.kind == "int" and isinstance(expected, int) and not isinstance(expected, bool):
            return check(st, v.t == expected)
        if v.kind == "real" and isinstance(expected, (int, float)) and not isinstance(expected, bool):
            return check(st, v.t == z3.RealVal(repr(float(expected))))
        if v.kind == "str" and isinstance(expected, str):
            return check(st, v.t == z3.StringVal(expected))
        return False
    if isinstance(v, tuple) and isinstance(expected, tuple):
        return len(v) == len(expected) and all(may_equal(st, a, b) for a, b in zip(v, expected))
    if isinstance(v, Ref):
        return None   # heap value: not compared
    return type(v) is type(expected) and v == expected


def check(st, c):
    s = z3.Solver()
    s.set("timeout", 5000)
    s.add(*st.pc)
    s.add(c)
    return s.check() == z3.sat


def main():
    tmp = tempfile.mkdtemp(prefix="pyvc_selftest_")
    try:
        with open(os.path.join(tmp, "snip.py"), "w") as f:
            f.write(SNIPPETS)
        ns = {}
        exec(compile(SNIPPETS, "snip.py", "exec"), ns)
        program = Program(tmp)
        total = sound = exact = refused = 0
        failures = []
        for name, arglists in CASES:
            for args in arglists:
                total += 1
                ns_fresh = {}
                exec(compile(SNIPPETS, "snip.py", "exec"), ns_fresh)      # fresh module state per case (mutable defaults!)
                want = cpython_outcome(ns_fresh, name, args)
                eng = Engine(program=program)
                try:
                    res = eng.run(program.func("snip." + name), list(args), st=St())
                except Unsupported as e:
                    refused += 1
                    sound += 1
                    print(f"  refused  {name}{args}: {str(e)[:90]}")
                    continue
                except Exception as e:  # noqa: BLE001
                    failures.append(f"{name}{args}: engine crashed: {e!r}")
                    continue
                outs = []
                hit = False
                for k, v, s in res:
                    if not check(s, z3.BoolVal(True)):
                        continue
                    if k == "raise":
                        outs.append(("raise", exc_name(s, v)))
                        hit = hit or (want[0] == "raise" and exc_name(s, v) == want[1])
                    else:
                        m = may_equal(s, v, want[1]) if want[0] == "val" else False
                        outs.append(("val", v if not isinstance(v, (Sym, Opt, Ref)) else "<symbolic>"))
                        hit = hit or bool(m) or m is None
                if hit:
                    sound += 1
                    if len(outs) == 1:
                        exact += 1
                else:
                    failures.append(f"{name}{args}: CPython {want}, engine considers only {outs}")
        for f_ in failures:
            print("UNSOUND", f_)
        print(f"engine conformance self-test: {total} cases, sound on {sound} ({refused} refused as unsupported, {exact} with exactly CPython's outcome), {len(failures)} failures")
        return 1 if failures else 0
    finally:
        shutil.rmtree(tmp, ignore_errors=True)


if __name__ == "__main__":
    sys.exit(main())

#!/usr/bin/env python3
"""Regenerates /verif/MANIFEST.json from the table below (kept next to the checks so the two stay in step)."""
import json, os
ROOT = os.path.dirname(os.path.dirname(os.path.abspath(__file__)))
props = [json.loads(l) for l in open(os.path.join(ROOT, "properties.jsonl"))]
TB = ("Trusted base: the pyvc encoding of the stated Python subset (DESIGN 2.3; checked on every run by the engine conformance self-test against CPython - about 1100 concrete and "
      "symbolic-argument cases, tools/selftest_engine.py - and by the path-by-path CPython cross-check where one exists), z3 5.1; callee contracts used at call sites are discharged against the callee bodies in the same check; "
      "assumptions listed in the evidence file (backend contract B, stdlib S, reals for floats A, user program U, atomicity G).")
CLAIMED = {
 "C01": ("handlers of all six operation kinds executed symbolically over an arbitrary record: terminal records short-circuit without user function or update and yield exactly the recorded result/error; summary contexts re-traverse once without records",
         "4 C01", "state merge of paginated history and consumer merge are separate obligations (see evidence); positions are identified by C08"),
 "C02": ("relational lemmas generated from the verified case tables: for step/child/wait_for_condition the completing run returns the user function's value and records serialize(S, value), and the replay of that record deserializes with the same S (equal under the round-trip hypothesis); final errors: the failing run raises exactly the CallableRuntimeError every replay builds from the record; recorded errors survive the wire exactly; batch items of the first run equal the items rebuilt on replay",
         "4 C02", "the whole-program corollary (induction over all user programs) is stated under U, not discharged; custom SerDes round trip is a hypothesis"),
 "C03": ("trace postconditions on every path of step/child/wait_for_condition/wait/invoke/callback handlers: values and final errors only after the synchronous terminal update was accepted; suspensions only after a synchronous START/RETRY or with an existing non-terminal record",
         "4 C03", "real-time schedules of the OS thread pool (G assumed)"),
 "C04": ("for at-most-once semantics every path entering the user function is preceded, in the same call, by an accepted synchronous START and a re-read STARTED record; a STARTED record on entry is never re-run; plus the contracts this rests on: history completeness, faithful lookup, the synchronous START returns through its completion event, the consumer acknowledges after the merge",
         "4 C04", "-"),
 "C11": ("per-call update sequences of every handler form a word of the lifecycle automaton for every record in the backend's status domain; ids/parent/name/type passthrough",
         "4 C11", "cross-thread ordering is C05/C10"),
 "C12": ("retry handling of the step handler for arbitrary strategies: attempt argument, exactly one update after a decision, RETRY with max(1,d) then timed suspension, FAIL then raise, PENDING suspends",
         "4 C12", "float rounding in the packaged strategies (A)"),
 "C13": ("wait_for_condition: state threading, poll number, stop/continue records with serialized state and delay max(1,d), no re-poll of completed/failed/pending",
         "4 C13", "-"),
 "C14": ("callback creation/result tables and invoke start/outcome tables for every backend status, payload and configuration; delivered payloads are decoded exactly; wait_for_callback and the decorators by contract",
         "4 C14", "-"),
 "C15": ("structural induction over the value grammar on the REAL serialize/deserialize, codecs and _to_json_serializable: one obligation per constructor (None, bool, int, float, str, bytes, UUID, Decimal, datetime, date, list, tuple, string-keyed dict, batch result), children by induction hypothesis; envelope look-alikes; non-string / tuple keys and unsupported types are rejected; output never empty; ownership of the result (nothing retained or shared); dispatch on a value of arbitrary class (one known finding: subclass instances)",
         "4 C15", "the stdlib inverse pairs (json, base64, UUID, Decimal, isoformat) are assumed (S); non-finite floats, float rounding, huge ints and lone surrogates live inside those assumptions"),
 "C16": ("child-context size rule proved against the 256 KB constant read from the source; summary re-traversal sends no records; the summary generator belongs to the whole map/parallel, not to a branch; the size test counts characters of an ASCII text; oversized handler result/error recorded first, with its content",
         "4 C16", "determinism of the re-run body (U)"),
 "C05": ("_collect_checkpoint_batch verified with three loop invariants over a ghost hand-over order (FIFO, contiguity across batch/overflow/main, limits, overflow <= 1, progress) for every arrival pattern, size and configuration; consumer loop: exactly-once hand-over to the API, token chain, release of every synchronous element on success and on failure; the service client forwards one wire update per update in order; termination variants of the collection loops",
         "4 C05", "'eventually released' as liveness (termination of the service call, fairness) - replaced by the safety obligations release_all / progress"),
 "C06": ("consumer failure arm wakes every queued synchronous element with the wrapped cause, sets the failed flag and stops calling the API (loop invariants for both drains); create_checkpoint fails fast once the flag is set; every handler lets BackgroundThreadError pass without further effect; wrapper classification of checkpoint failures",
         "4 C06", "'terminates promptly' (timing); the check-then-put window of create_checkpoint and the executor callbacks are decided separately (see evidence)"),
 "C10": ("_mark_orphans verified against a closure contract with a BFS loop invariant; create_checkpoint maintains the closure invariant 'children of marked or completed contexts are marked' and rejects every update whose operation or parent is under a completed context; the orphan test and the queue put are one atomic action; parent links of history records are registered; EVERY entry of a user function is preceded by an orphan check of its operation (an accepted update or raise_if_orphaned); lock discipline of the orphan bookkeeping",
         "4 C10", "atomicity of a `with lock:` block and of a single Queue call (G); the forced-schedule scenarios are replays, not proofs"),
 "C18": ("the wrapper body executed symbolically for every handler outcome class: status/shape table, raises-only-for-retry, PENDING iff suspension, checkpoint thread stopped before the pool joins; LambdaClient wraps every API/parsing failure into the classified error",
         "4 C18", "-"),
 "C07": ("SAFETY HALF ONLY: every suspension raised by a handler follows an accepted synchronous START/RETRY or an existing non-terminal record, with the right kind (timed / indefinite); should_execution_suspend verified with a loop invariant over any number of branches; the done-callback's status transitions and completion/suspension decision; PENDING iff SuspendExecution in the wrapper",
         "4 C07, 5", "LIVENESS IS NOT DECIDED: 'always woken again', 'reaches SUCCEEDED/FAILED after finitely many invocations', 'no invocation runs forever', and the real-time clause about a branch already running when the last sibling parked (needs fairness / real-time scheduling; outside contract-based verification)"),
 "C08": ("the id functions verified against a spec hash of (parent id, index); exactly one atomic counter increment per operation; every operation method of DurableContext and the branch executor link (id, parent id, child context parent) as the statement requires; string lemma: position text is injective",
         "4 C08", "blake2b collision freedom (cryptographic assumption); several user threads sharing one context (U)"),
 "C09": ("completion policy: ExecutionCounters against spec functions (linear real arithmetic); lemma over the REAL __init__ mapping, stop decision and classifier: the reported reason is consistent with item statuses and policy; items/replay faithful (generic pair of branches); pool size, one submission per branch, no join, empty input; exact arithmetic of the percentage test (rounding provenance); publish order of branch results for lock-free readers; from_items wiring; BatchResult accessors on a generic item",
         "4 C09", "'returns exactly when decided' and the concurrency bound as real-time behaviour of ThreadPoolExecutor (S)"),
 "C17": ("Logger gate and extras; track_replay flip against a quantified spec over an arbitrary operations map; every operation method calls track_replay(id) exactly after a normal return; initial status for every pagination; boundary lemma; lock discipline of the replay status and the operations map (syntactic, AST)",
         "4 C17", "the sequential-program induction from per-call contracts to whole programs (U)"),
 "C19": ("Owicki-Gries at atomic-action granularity: each `with self._lock` block of the real OrderedLock methods preserves the ticket-queue invariant from ANY invariant state (hence under every interleaving of any number of threads); mutual exclusion + FIFO follow from the invariant at the point acquire returns; breaking on any exception class; counter returns k to the k-th holder; reader-view invariant at every Event.set for the lock-free re-read in acquire; the counter's caller uses the returned value",
         "4 C19", "fairness of threading.Lock and termination of critical sections (liveness); atomicity assumption G"),
 "C20": ("every wire codec pair executed symbolically on fully symbolic well-typed objects; N(from(to(x))) == N(x) per field, dict and JSON routes, plus presence of every option in the wire form; frame: decoders leave the wire dictionary unchanged; provenance obligation on the millisecond conversion (no value computed in floating point is truncated)",
         "4 C20", "ms / 1000 in from_unix_millis is a float division (exact to well below a microsecond for realistic instants; A); to_unix_millis is exact integer arithmetic"),
}
checks = []
for p in props:
    if p["id"] not in CLAIMED:
        continue
    text, ref, gaps = CLAIMED[p["id"]]
    checks.append({
        "property_id": p["id"],
        "quick_cmd": f"python3-vt -m pyvc check {p['id']} --tier quick",
        "thorough_cmd": f"python3-vt -m pyvc check {p['id']} --tier thorough",
        "evidence_file": f"/verif/evidence/{p['id']}.json",
        "replay_cmd_template": "cat {path}",
        "engine": "pyvc",
        "technique": "contract-based deductive verification: VCs generated by symbolic execution of the real function bodies (re-read from /repo every run), contracts in sidecar files, discharged by z3",
        "level_claimed": {"category": "proof", "text": text + ". Unbounded in the inputs (all records, statuses, configurations, exception classes); every obligation is a z3-discharged implication over a path summary of the real code; counterexamples are replayed natively on the real function.", "design_ref": "DESIGN.md section " + ref},
        "level_note": TB + " Not decided here: " + gaps + ".",
    })
na = [{"property_id": p["id"], "reason": "check not built yet (build in progress): it will be claimed once its obligations are generated from /repo and discharged; no decision is made for it at this commit"} for p in props if p["id"] not in CLAIMED]
m = {"version": 1,
     "setup_cmd": "python3-vt -c \"import z3; print('z3', z3.get_version_string())\" && /venv/bin/python -c \"import aws_durable_execution_sdk_python\"",
     "hooks": {"guard": "AWS_DURABLE_EXECUTION_SDK_PYTHON_VERIF", "enable": "no instrumentation is inserted into /repo: contracts are sidecar files and the sources are parsed, not imported; the guard is declared and unused",
               "baseline_off_cmd": "cd /repo && /venv/bin/python -m pytest -ra -q -p no:cacheprovider --timeout=900 --continue-on-collection-errors", "source_commits": [], "add_only": True},
     "engines": [{"name": "pyvc", "path": "/verif/pyvc", "serves_properties": sorted(CLAIMED), "kind_free_text": "AST-to-z3 symbolic executor / VC generator for a Python subset with sidecar contracts, ghost traces, if-conversion, native replay"}],
     "checks": checks, "not_applicable": na,
     "notes": "fix: commits in /repo repair genuine defects found by the checks (see known_findings.json 'fixed' entries and DESIGN.md section 6)."}
json.dump(m, open(os.path.join(ROOT, "MANIFEST.json"), "w"), indent=1)
print(len(checks), "checks,", len(na), "not yet claimed")

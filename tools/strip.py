"""Print python sources without docstrings (reading aid only)."""
import ast, sys
for f in sys.argv[1:]:
    tree = ast.parse(open(f).read())
    for n in ast.walk(tree):
        if isinstance(n, (ast.FunctionDef, ast.ClassDef, ast.Module)) and n.body and isinstance(n.body[0], ast.Expr) and isinstance(n.body[0].value, ast.Constant) and isinstance(n.body[0].value.value, str):
            n.body = n.body[1:] or [ast.Pass()]
    print('#' * 10, f); print(ast.unparse(tree))

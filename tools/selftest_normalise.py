#!/usr/bin/env python3
"""Self-test of the only syntactic rewrite of the extraction (pyvc.loader._AccumulateLoops): the rewritten function is executed NATIVELY next to
the original on random inputs and must return the same value / raise the same exception class.  Run under python3-vt."""
import ast, os, random, sys, textwrap
sys.path.insert(0, os.path.dirname(os.path.dirname(os.path.abspath(__file__))))
from pyvc.loader import _AccumulateLoops

SAMPLES = [
    """
def f(xs):
    out = []
    for x in xs:
        out.append(x * 2)
    return out
""", """
def f(xs):
    out = [0]
    if xs:
        for x in xs:
            if x % 3:
                out.append(10 // x)
    return out
""", """
def f(xs):
    out = []
    for i, x in enumerate(xs):
        if x is not None:
            out.append((i, x))
    return out
""", """
def f(xs):
    out = []
    for x in xs:
        out.append(len(out))      # reads the accumulator: must NOT be rewritten
    return out
""", """
def f(xs):
    out = []
    for x in xs:
        out.append(x)
    else:
        out.append(-1)            # for/else: must NOT be rewritten
    return out
"""]


def run(fn, arg):
    try:
        return ("val", fn(list(arg)))
    except Exception as e:  # noqa: BLE001
        return ("raise", type(e).__name__)


random.seed(int(os.environ.get("VERIF_SEED", "1")))
rewritten = 0
for src in SAMPLES:
    tree = ast.parse(textwrap.dedent(src))
    new = ast.fix_missing_locations(_AccumulateLoops().visit(ast.parse(textwrap.dedent(src))))
    rewritten += ast.dump(new) != ast.dump(tree)
    g1, g2 = {}, {}
    exec(compile(tree, "<orig>", "exec"), g1)
    exec(compile(new, "<rewritten>", "exec"), g2)
    for _ in range(300):
        arg = [random.choice([0, 1, 2, 3, 5, 7, None, -4]) for _ in range(random.randrange(0, 6))]
        a, b = run(g1["f"], arg), run(g2["f"], arg)
        if a != b:
            print("MISMATCH", src, arg, a, b)
            sys.exit(1)
print(f"normalisation self-test: {len(SAMPLES)} samples, {rewritten} rewritten, 300 random inputs each: identical results")
sys.exit(0 if rewritten == 3 else 1)

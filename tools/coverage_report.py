#!/usr/bin/env python3
"""coverage_report.py: which functions of /repo/src are under contract in at least one evidence file, and which are not
(the latter are the unverified surroundings named in DESIGN 9).  Run under python3-vt after tools/run_all.sh."""
import ast, glob, json, os, sys
sys.path.insert(0, os.path.dirname(os.path.dirname(os.path.abspath(__file__))))
from pyvc import SRC, VERIF

allf = {}
for root, _, files in os.walk(SRC):
    for f in sorted(files):
        if not f.endswith(".py"):
            continue
        path = os.path.join(root, f)
        mod = os.path.relpath(path, SRC)[:-3].replace(os.sep, ".")
        tree = ast.parse(open(path).read())

        def walk(body, prefix):
            for s in body:
                if isinstance(s, (ast.FunctionDef, ast.AsyncFunctionDef)):
                    n = len(s.body)
                    trivial = all(isinstance(b, (ast.Pass, ast.Expr)) and (isinstance(b, ast.Pass) or isinstance(getattr(b, "value", None), ast.Constant)) or isinstance(b, ast.Raise) for b in s.body)
                    allf[f"{prefix}{s.name}"] = (s.end_lineno - s.lineno + 1, trivial)
                    walk(s.body, f"{prefix}{s.name}.")
                elif isinstance(s, ast.ClassDef):
                    walk(s.body, f"{prefix}{s.name}.")
        walk(tree.body, mod + ".")
covered = {}
for ev in sorted(glob.glob(os.path.join(VERIF, "evidence", "C*.json"))):
    d = json.load(open(ev))
    for name, mode in d["coverage"].get("functions_under_contract", {}).items():
        covered.setdefault(name.split(" ")[0].replace("<locals>.", ""), {})[d["property_id"]] = mode
cov = [k for k in allf if k in covered]
unc = [k for k in allf if k not in covered and not allf[k][1]]
print(f"functions in src: {len(allf)}; under contract: {len(cov)}; not under contract (non-trivial bodies): {len(unc)}")
lines = sum(allf[k][0] for k in cov)
print(f"source lines in functions under contract: {lines} of {sum(v[0] for v in allf.values())}")
for k in sorted(unc):
    print(f"  - {k} ({allf[k][0]} lines)")
unknown = [k for k in covered if k not in allf]
if unknown:
    print("names in evidence that are not plain functions (closures, classes, inlined):", ", ".join(sorted(unknown))[:2000])

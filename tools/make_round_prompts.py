#!/usr/bin/env python3
"""make_round_prompts.py <worktree root>: writes <root>/prompts/Cxx.txt for a round of independent seeded changes.
The prompt contains ONLY the property's text and the location of the agent's scratch worktree (nothing from /verif)."""
import json, os, sys
root = sys.argv[1]
VARIANT = os.environ.get("ROUND_VARIANT", "3")
base = """You are working on a scratch git worktree of the open-source repository aws/aws-durable-execution-sdk-python
(Python SDK for AWS Lambda durable functions: a checkpoint-and-replay workflow engine with steps, waits, callbacks,
parallel/map, child contexts and a background checkpoint batcher).

Your worktree: {wt}   -- do ALL work inside it. Never touch /repo or /verif, and do not read /verif.
There is no network. Python: use `PYTHONPATH={wt}/src /venv/bin/python` so that the worktree's sources are imported
(check once: it must print a path under {wt}/src):
    cd {wt} && PYTHONPATH={wt}/src /venv/bin/python -c "import aws_durable_execution_sdk_python as m; print(m.__file__)"
Existing test suite (1080 tests, ~30 s, all pass on the unmodified tree):
    cd {wt} && PYTHONPATH={wt}/src /venv/bin/python -m pytest -q -p no:cacheprovider

SEMANTIC PROPERTY {id}: {title}
Statement: {statement}
Must hold: {quant}
Files it is mainly implemented in: {files}

TASK. Produce THREE independent, realistic changes to the source under src/ (three different mechanisms at three different code
sites; at least one of them in a function that is NOT the most obvious home of the property - e.g. a helper, a caller, a data
class, a constructor default, an error path, a replay / re-invocation path, a concurrency path or a configuration combination that
the property silently depends on), each of which BREAKS the property above while (a) the package still imports, and (b) the ENTIRE
existing test suite still passes, unedited. Think of plausible developer mistakes: a refactor slip, a wrong or missing condition,
a dropped case, reordered statements, an off-by-one, a wrong variable, a lost flag, a changed default, a helper that looks
equivalent but is not, a lock taken too late or released too early, a state update moved across a call that can raise.
Prefer SUBTLE changes: ones that need something SPECIFIC to manifest -- a particular interleaving, a crash or fault at a particular
point, a multi-step sequence of operations or invocations, an unusual input or configuration, or two cooperating sites that each
look fine alone -- NOT ones that ordinary use would expose at once. Keep each change small (a few lines). Do not edit tests/.
Do not add markers or comments that reveal the change is intentional.

For each change write a DEMONSTRATION: a self-contained Python script demo.py that exits non-zero (prints what went wrong) with
the change applied and exits 0 on the unmodified source. It must import the package normally (no hard-coded {wt} path), finish in
under 60 s, never hang (use timeouts; call os._exit at the end if thread pools might block exit), and drive the REAL code
(you may stub the backend/service client with a small in-memory fake and use unittest.mock for the Lambda context).

Deliverables (create these files):
  {wt}/_out/m1/patch.diff   (output of `git diff -- src` for change 1 only, appliable with `git apply` at the repo root)
  {wt}/_out/m1/demo.py
  {wt}/_out/m1/meta.json    {{"property": "{id}", "summary": "...what was changed and why it breaks the property...",
                              "needs_to_manifest": "...", "commands_run": ["..."], "results": "tests: N passed with change; demo: fails with / passes without"}}
  {wt}/_out/m2/...  and  {wt}/_out/m3/...   (same for changes 2 and 3)
Verify yourself for each change: full test suite passes WITH the change; demo fails WITH the change; demo passes WITHOUT it
(`git checkout -- src` to switch). Write each meta.json as soon as that change is verified. If after honest effort you
can only produce two, deliver two. When done, leave the worktree's src/ UNMODIFIED (git checkout -- src) with only _out/ added.
Final answer: at most 12 lines -- for each change one sentence on what it does and whether all three verifications succeeded.
"""
if VARIANT == "4":
    base = base.replace("Produce THREE independent, realistic changes", "Produce TWO independent, realistic changes").replace("(three different mechanisms at three different code\nsites; at least one of them", "(two different mechanisms at two different code\nsites, in two DIFFERENT functions; at least one of them")
    base = base.replace("Think of plausible developer mistakes:", "At least one of the two should look like a well-meant improvement (a performance shortcut, a defensive check, a simplification, a\ncaching or batching tweak, a tidier API use) whose harm to the property is an unintended side effect. Think of plausible developer mistakes:")
    base = base.replace("  {wt}/_out/m2/...  and  {wt}/_out/m3/...   (same for changes 2 and 3)", "  {wt}/_out/m2/...   (same for change 2)").replace("If after honest effort you\ncan only produce two, deliver two. ", "")
if VARIANT == "5":
    base = base.replace("Produce THREE independent, realistic changes", "Produce TWO independent, realistic changes").replace("(three different mechanisms at three different code\nsites; at least one of them", "(two different mechanisms at two different code\nsites, in two DIFFERENT files; at least one of them")
    base = base.replace("Think of plausible developer mistakes:", "Change 1 must be in a file that is NOT in the list of files above (look for what the property silently depends on elsewhere: exceptions.py,\nsuspend.py, config.py, identifier.py, logger.py, types.py, operation/base.py, lambda_service.py, threading.py, serdes.py, ... whichever applies). Change 2 must involve a\nLESS COMMON PATH of the listed files: a re-invocation with a particular history, an operation status that is rarely seen (READY, PENDING, TIMED_OUT, STOPPED, CANCELLED), a\nconfiguration corner (None / 0 / empty), an exception raised at an unusual point, or two threads meeting at a particular instant. Think of plausible developer mistakes:")
    base = base.replace("  {wt}/_out/m2/...  and  {wt}/_out/m3/...   (same for changes 2 and 3)", "  {wt}/_out/m2/...   (same for change 2)").replace("If after honest effort you\ncan only produce two, deliver two. ", "If after honest effort no file outside the list can break the property, say so in m1/meta.json and use any other function for change 1. ")
if VARIANT == "6":
    base = base.replace("Produce THREE independent, realistic changes", "Produce TWO independent, realistic changes").replace("(three different mechanisms at three different code\nsites; at least one of them", "(two different mechanisms at two different code\nsites, in two DIFFERENT functions; at least one of them")
    base = base.replace("Think of plausible developer mistakes:", "Both changes must get their effect from a PYTHON LANGUAGE OR LIBRARY SUBTLETY rather than from a plainly wrong condition - for example: a mutable default\nargument or class attribute shared between instances; a closure capturing a loop variable late; `is` vs `==` on strings / ints / enums; truthiness of 0, '' or an\nempty container vs `is None`; `and`/`or` returning an operand; dict / set ordering or key collisions; shallow vs deep copy and aliasing; a generator consumed twice; `sorted`/`min`/`max`\nkey and tie behaviour; integer vs float division or rounding; exception hierarchy (`except Exception` vs BaseException, `finally`/`return` overriding an exception,\n`raise ... from`); a context manager that swallows an exception; a decorator or property that caches; `__eq__`/`__hash__` of dataclasses; string formatting / `str()` vs `repr()`;\nargument evaluation order; late import side effects; thread-local vs shared state. The change should look like idiomatic, reasonable Python. Think of plausible developer mistakes:")
    base = base.replace("  {wt}/_out/m2/...  and  {wt}/_out/m3/...   (same for changes 2 and 3)", "  {wt}/_out/m2/...   (same for change 2)").replace("If after honest effort you\ncan only produce two, deliver two. ", "Say in meta.json (field \"subtlety\") which language/library subtlety each change relies on. ")
if VARIANT == "8":
    base = base.replace("Produce THREE independent, realistic changes", "Produce TWO independent, realistic changes").replace("(three different mechanisms at three different code\nsites; at least one of them", "(two different mechanisms at two different code\nsites, in two DIFFERENT functions; at least one of them")
    base = base.replace("Think of plausible developer mistakes:", "Both changes must be STRUCTURAL: a plausible refactoring or small feature of 10-40 changed lines that MOVES or RESHAPES logic - extracting a helper or inlining one,\nmerging or splitting branches, replacing a loop by a comprehension / library call (or the reverse), changing a data structure (list -> dict, set -> list, tuple -> dataclass),\nintroducing early returns or guard clauses, hoisting a computation out of a loop or a lock, moving work from a constructor to first use, adding an optional\nparameter with a default, batching or caching something - and that breaks the property only as a side effect, in a corner the refactoring overlooked. A reviewer\nskimming the diff should find it reasonable. Think of plausible developer mistakes:")
    base = base.replace("Keep each change small (a few lines). ", "")
    base = base.replace("  {wt}/_out/m2/...  and  {wt}/_out/m3/...   (same for changes 2 and 3)", "  {wt}/_out/m2/...   (same for change 2)").replace("If after honest effort you\ncan only produce two, deliver two. ", "Never use `git stash` (other worktrees share it): switch with `git diff -- src > /tmp/<unique>.diff; git checkout -- src; ...; git apply /tmp/<unique>.diff`. ")
if VARIANT == "9":
    base = base.replace("Produce THREE independent, realistic changes", "Produce TWO independent, realistic changes").replace("(three different mechanisms at three different code\nsites; at least one of them", "(two different mechanisms; at least one of them")
    base = base.replace("Think of plausible developer mistakes:", "Each change must consist of TWO OR MORE COOPERATING EDITS in different functions (preferably different files or classes), such that EACH EDIT ALONE\nkeeps the property (and the tests) intact and only their COMBINATION breaks it - e.g. a caller that stops passing a flag plus a callee whose default for it changed; a producer that\nrelaxes an invariant plus a consumer that starts relying on it; a constant changed in one module plus a comparison against it in another; a field made optional plus a reader\nthat treats absent as a value; a lock scope narrowed in one method plus an unlocked read added in another. State in meta.json (field \"edits\") the list of edits and why each alone is harmless.\nThink of plausible developer mistakes:")
    base = base.replace("  {wt}/_out/m2/...  and  {wt}/_out/m3/...   (same for changes 2 and 3)", "  {wt}/_out/m2/...   (same for change 2)").replace("If after honest effort you\ncan only produce two, deliver two. ", "Verify ALSO that each edit alone leaves your demo passing. Never use `git stash`: switch with `git diff -- src > /tmp/<unique>.diff; git checkout -- src; ...; git apply /tmp/<unique>.diff`. ")
for l in open('/verif/properties.jsonl'):
    p = json.loads(l)
    wt = f"{root}/{p['id']}"
    open(f"{root}/prompts/{p['id']}.txt", 'w').write(base.format(wt=wt, id=p['id'], title=p['title'], statement=p['statement'], quant=p['quantifier']['text'], files=', '.join(p['anchors']['files'])))
print('ok')

#!/usr/bin/env python3
"""accept_staged.py <tag> <round>: moves every staged change of seeded_staging/verify_<tag>.jsonl that was independently confirmed
(patch applies to /repo HEAD, demo passes on the clean tree, whole test suite passes with the patch, demo fails with the patch)
into /verif/seeded/<name>/ and records the confirmation in its meta.json.  Unconfirmed ones are listed and left in staging."""
import json, os, shutil, sys
tag, rnd = sys.argv[1], int(sys.argv[2])
V = os.path.dirname(os.path.dirname(os.path.abspath(__file__)))
seen = set()
for l in open(f"{V}/seeded_staging/verify_{tag}.jsonl"):
    try:
        r = json.loads(l)
    except ValueError:
        continue
    name = r["mutant"]
    src, dst = f"{V}/seeded_staging/{name}", f"{V}/seeded/{name}"
    if name in seen or not os.path.isdir(src):
        continue
    if os.path.isdir(dst):
        shutil.rmtree(src)
        continue
    seen.add(name)
    ok = r["applied"] == 1 and r["demo_clean_rc"] == 0 and r["demo_mutated_rc"] not in (0, 124) and r["tests"].startswith("1080 passed")
    if not ok:
        print("NOT CONFIRMED", r)
        continue
    mp = f"{src}/meta.json"
    try:
        meta = json.load(open(mp))
    except Exception:
        meta = {"property": name.split("-")[0], "summary": "(meta.json missing or unreadable in the delivery)"}
    meta["round"] = rnd
    meta["independently_confirmed"] = {"how": "tools/verify_mutant.sh on a fresh worktree of /repo HEAD (the repaired tree): demo on the clean tree, git apply, full test suite, demo on the patched tree; worktree removed",
                                       "demo_clean_rc": r["demo_clean_rc"], "demo_mutated_rc": r["demo_mutated_rc"], "tests_with_patch": r["tests"], "patch_applied": True}
    json.dump(meta, open(mp, "w"), indent=1)
    for f in os.listdir(src):
        if f not in ("patch.diff", "demo.py", "meta.json"):
            p = os.path.join(src, f)
            shutil.rmtree(p) if os.path.isdir(p) else os.remove(p)
    shutil.move(src, dst)
    print("accepted", name)

#!/bin/bash
# runs every claimed check (quick tier) on the current /repo tree, 6 at a time; prints the summary lines
cd /verif
props=$(python3 -c "import json; print(' '.join(c['property_id'] for c in json.load(open('MANIFEST.json'))['checks']))")
echo $props | tr ' ' '\n' | xargs -P 6 -I{} sh -c 'python3-vt -m pyvc check {} --tier ${TIER:-quick} > /tmp/pyvc_{}.log 2>&1; tail -1 /tmp/pyvc_{}.log; grep -E "^(VIOLATION|UNDECIDED|CHECKER-FAULT|KNOWN)" /tmp/pyvc_{}.log | head -5'

#!/bin/bash
# usage: verify_mutant.sh <dir with patch.diff demo.py>  -> prints one JSON line
d=$1; name=$(basename $d); wt=/tmp/wtv/$name
mkdir -p /tmp/wtv; git -C /repo worktree add -f $wt HEAD >/dev/null 2>&1
cd $wt
run_demo() { PYTHONPATH=$wt/src timeout 120 /venv/bin/python $d/demo.py >/tmp/wtv/$name.$1.log 2>&1; echo $?; }
clean=$(run_demo clean)
pf=$d/patch.diff; [ -f $d/patch.rebased.diff ] && pf=$d/patch.rebased.diff
if git apply --check $pf 2>/dev/null; then git apply $pf; applied=1; else applied=0; fi
tests=$(PYTHONPATH=$wt/src timeout 600 /venv/bin/python -m pytest -q -p no:cacheprovider -x 2>&1 | tail -1)
mut=$(run_demo mutated)
cd /; git -C /repo worktree remove --force $wt
echo "{\"mutant\": \"$name\", \"applied\": $applied, \"demo_clean_rc\": $clean, \"demo_mutated_rc\": $mut, \"tests\": \"$tests\"}"

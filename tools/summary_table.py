#!/usr/bin/env python3
"""summary_table.py: per-property summary of what the checks cover, from the evidence files of the last run (markdown, for DESIGN 9.1)"""
import glob, json, os
V = os.path.dirname(os.path.dirname(os.path.abspath(__file__)))
print("| property | obligations (discharged) | VCs | functions touched | paths explored / cross-checked on CPython | bounded stand-ins | known findings | wall (quick) |")
print("|---|---|---|---|---|---|---|---|")
tot = [0, 0, 0]
for f in sorted(glob.glob(f"{V}/evidence/C*.json")):
    d = json.load(open(f))
    c = d["coverage"]
    vcs = sum(o.get("vcs", 0) for o in c.get("obligation_report", []))
    fn = c.get("functions_under_contract", {})
    explicit = sum(1 for m in fn.values() if not m.startswith("executed") and not m.startswith("contract used"))
    print(f"| {d['property_id']} | {c['obligations']} ({c['discharged']}) | {vcs} | {len(fn)} ({explicit} with an explicit contract) | {c.get('paths_explored', 0)} / {c.get('traces_validated_against_impl', 0)} | "
          f"{c.get('bounded_obligations', 0)} | {len(c.get('known_findings_printed', []))} | {d.get('wall_s')} s |")
    tot[0] += c["obligations"]; tot[1] += vcs; tot[2] += c.get("paths_explored", 0)
print(f"\ntotal: {tot[0]} obligations, {tot[1]} verification conditions, {tot[2]} symbolic paths")
